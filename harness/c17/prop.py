"""C17 -- Generated URLs are well-formed and decode back to the supplied parts."""
import json
import os
import re
from harness.common import facts as F
from . import facts17
from . import translate

ID = 'C17'
HERE = os.path.dirname(os.path.abspath(__file__))
CASES = {'quick': 9000, 'thorough': 250000}
PARALLEL = True
# the typed-key stream (True / 1.0 elements after an equal int) exercises the lru_cache of _join_elements
TYPED_KEY_STREAM = True
# URL registrations whose scheme urllib does not treat as relative-capable (s3://...), and sub-paths starting with '/':
# urljoin dropped the registered URL (findings C17-static-external-*)
EXTERNAL_ODD_STREAM = True

RULE = ('8 helpers (route/resource/static/current_route x url/path) on generated routes (literals/placeholders/star), '
        'elements, query (str / pair list / mapping; None, sequences, bytes, ints), anchor, scheme/host/port/app_url '
        'overrides, SCRIPT_NAME / Host / port variants, histories on ONE request object whose environment changes between calls '
        '(path_info_pop, script_name assignment, rewritten Host/scheme/port) or that served earlier calls with other arguments, '
        'routes whose pattern is a full URL (scheme / userinfo / port in the pattern), the function forms of pyramid.url, '
        'values that are neither str, bytes nor int (None, non-integral floats, str-subclass instances, objects with __str__), '
        'one-shot iterators as query / sequence value / star value, empty _host; current_route_url is also compared with '
        'route_url(<current route>, **{**matchdict, **keywords}) on the implementation; every URL with extra elements is compared '
        'with the same call without them (no segment nobody supplied) and the route part of the path, decoded as a whole, with '
        'spec_path_text computed in Coq (the pattern filled with the supplied values; C17_generate_decodes_text); registrations made after URLs were generated on the half-built configuration; '
        'texts made only of one Unicode class beyond ASCII (digits of other scripts, superscripts, spaces, case-mapping letters, marks); '
        'resource_url: the path is the lineage names below the virtual root (non-ASCII X-Vhm-Root headers are WSGI strings); '
        'sadd stream: the registrations a sequence of add_static_view statements leaves behind vs the Coq model of StaticURLInfo.add; '
        'plus urllib.parse decoder, urljoin and quote streams. non-trivial = a URL was '
        'produced AND (some supplied element/query/anchor/script character needs quoting OR an override is present OR the '
        'route has a placeholder); distinct by full case')
ASSUMPTIONS = [
    'route patterns are parsed by pyramid.urldispatch\'s own regexes in the harness (C01 models the parser); no pregenerator, '
    'no __resource_url__, no IResourceURL adapter override, no virtual root, no cache busters; static registrations are route based',
    'values other than str/bytes are ints (str() computed in Coq) or bool/integral float (str() shipped with the case)',
    'SCRIPT_NAME is valid UTF-8 (webob decodes it before pyramid sees it); query pairs are well-formed 2-tuples',
    'urllib.parse.quote/unquote/urlsplit/parse_qsl and webob host_url are modelled and validated by the run, not verified',
]
TRUSTED = ['translator harness/c17/translate.py: its PRIMITIVE TABLE (which Python leaf means which primitive of coq/Model/C17.v / '
           'C17_glue.v: registry and mapper lookups, route.generate, _join_elements, parse_url_overrides, keyword-dictionary '
           'operations, the closure variables of the external-route pregenerator) and its mechanical statement-to-term rules',
           'hand-written model coq/Model/C17.v of the functions that are not translated (shape-pinned: resource_url, '
           '_quoted_script_name, _join_elements, traversal.py, urldispatch._compile_route, StaticURLInfo.generate / add, add_route '
           'outside its pregenerator closure)', 'webob 1.8 Request.host_url/application_url/script_name (modelled)',
           'CPython urllib.parse + UTF-8 codec (modelled in Lib/Percent.v, Lib/Utf8.v, Model/C17.v; validated by the decoder/quote streams)']
TECHNIQUE = ('Coq proofs about a Gallina program whose control flow is translated from the Python source on every run '
             '(harness/c17/translate.py -> Gen/Code_C17.v: _partial_application_url, parse_url_overrides, urlencode, url_quote, '
             'quote_plus, route_url, current_route_url, static_url, the four *_path helpers, the seven function forms of pyramid.url, '
             'the pregenerator closure of add_route for full-URL patterns: 20 functions), proved equal to the hand-written reference '
             'model, + totality (a URL is produced whenever the spec says one is due) + regenerated safe sets/tables '
             'for the rest + extracted-model differential correspondence + judging the real output with urllib.parse against the Coq spec')
LEVEL_TEXT = ('Machine-checked, for inputs of any size (the core functions as REGENERATED from the source on this run, proved equal to the reference model): elements, query pairs and anchor round-trip through the reference decoder; '
              'every produced character after the application URL is allowed by RFC 3986 in its component; overrides are honoured '
              'with default ports elided and _app_url first; the *_path forms equal the *_url forms minus scheme://authority; '
              'a URL is produced whenever route, placeholders and encodability allow (totality, also for assets registered under a '
              'splittable URL); the regenerated function forms *_path equal the function forms *_url minus scheme://authority; '
              'an external route takes its scheme '
              'from _scheme, else the pattern, else the request.')
LEVEL_NOTE = ('Trusted: Coq kernel; the translator\'s PRIMITIVE TABLE and mechanical statement rules (fail-closed: anything outside '
              'subset/table is a broken tie, never a guess; with **keywords the parameter names are part of the interface and are '
              'checked); the hand-written model of the functions that are not translated '
              '(resource_url, _join_elements, quote_path_segment, _compile_route, StaticURLInfo.generate: shape-pinned, validated by '
              'correspondence; add_route: pinned with its pregenerator closure blanked); urllib.parse/webob modelled; pattern parsing '
              'taken from the implementation\'s regexes; Python judge.')

PIN_SPEC = {   # computed from /repo/src

    # translated functions (harness/c17/translate.py, TRANSLATED) carry no pin: parse_url_overrides, _partial_application_url,
    # route_url, current_route_url, static_url, route_path, resource_path, static_path, current_route_path, the seven function
    # forms pyramid.url.route_url(route_name, request, ..) etc., encode.url_quote / quote_plus / urlencode, and the
    # pregenerator closure inside add_route (add_route itself: masked pin, pins_masked.json)
    'pyramid/url.py': ['URLMethodsMixin._quoted_script_name', 'URLMethodsMixin.resource_url',
                       '_join_elements', '_join_quoted_elements'],
    'pyramid/location.py': ['lineage'],
    'pyramid/traversal.py': ['quote_path_segment', '_join_path_tuple', 'ResourceURL', 'resource_path_tuple',
                             'split_path_info', 'decode_path_info',
                             '_resource_path_list'],
    'pyramid/urldispatch.py': ['_compile_route', 'Route', 'RoutesMapper.get_route', 'RoutesMapper.connect',
                               'RoutesMapper.__init__'],
    'pyramid/config/views.py': ['StaticURLInfo.generate', 'StaticURLInfo.add', 'StaticURLInfo.__init__',
                                'ViewsConfiguratorMixin.add_static_view', 'ViewsConfiguratorMixin._get_static_info'],
    'pyramid/util.py': ['is_nonstr_iter', 'bytes_', 'text_'],
}

# pins computed with the body of a nested function blanked (that function is translated instead)
MASKED_PINS = {'pyramid/config/routes.py': {'RoutesConfiguratorMixin.add_route': ['external_url_pregenerator']}}


def masked_shape(node, masked):
    import ast
    import hashlib
    node = F.strip_doc(node)
    hit = 0
    for n in ast.walk(node):
        if isinstance(n, ast.FunctionDef) and n.name in masked:
            n.body = [ast.Pass()]
            hit += 1
    return hashlib.sha1(ast.dump(node).encode()).hexdigest()[:16], hit


def check_masked(src, problems, compute=False):
    out = {}
    try:
        with open(os.path.join(HERE, 'pins_masked.json')) as f:
            pins = json.load(f)
    except (OSError, ValueError):
        pins = {}
    for rel, quals in MASKED_PINS.items():
        try:
            m = F.Module(src, rel)
        except (OSError, SyntaxError) as e:
            problems.append('cannot parse %s: %s' % (rel, e))
            continue
        for q, masked in quals.items():
            node = m.find(q)
            if node is None:
                problems.append('shape pin %s:%s -- function no longer exists' % (rel, q))
                continue
            got, hit = masked_shape(node, masked)
            out.setdefault(rel, {})[q] = got
            if compute:
                continue
            if hit != len(masked):
                problems.append('masked pin %s:%s: expected exactly the nested function(s) %s' % (rel, q, masked))
            want = pins.get(rel, {}).get(q)
            if got != want:
                problems.append('shape pin %s:%s (with %s blanked) changed (%s -> %s): the hand-written model follows '
                                'the previous text of this function' % (rel, q, masked, want, got))
    return out


_FACTS = {}


def facts(src):
    problems = []
    summary = F.check_shapes(src, os.path.join(HERE, 'pins.json'), problems)
    for rel, d in check_masked(src, problems).items():
        summary.update({'%s:%s (masked)' % (rel, q): h for q, h in d.items()})
    # the control flow of the core functions, regenerated from the source (harness/c17/translate.py) into a second
    # generated file: it imports Model/C17.v, which imports Gen/Facts_C17.v
    try:
        gen, tproblems, tsummary = translate.translate_tree(src)
    except Exception as e:
        gen, tproblems, tsummary = None, ['translator failed: %r' % e], {}
    if gen is None:
        gen, _p, _s = translate.translate_tree('/nonexistent')
    problems += tproblems
    from harness.common import build as _build
    _build.write_if_changed(os.path.join(_build.COQ, 'Gen', 'Code_C17.v'), translate.HEADER + gen)
    summary.update({'translated:' + k: v for k, v in tsummary.items()})
    done = {k for k, v in tsummary.items() if v.startswith('translated')}
    soft = set()
    if 'gen_parse_url_overrides' in done:
        soft.add('parse_url_overrides')
    if {'gen_partial_application_url', 'gen_route_path', 'gen_resource_path', 'gen_static_path', 'gen_current_route_path'} <= done:
        soft.add('script name / ports')
    if {'gen_urlencode', 'gen_url_quote', 'gen_quote_plus'} <= done:
        soft.add('encode.py')
    try:
        vals, bools, tables = facts17.extract(src, problems, soft)
    except Exception as e:
        problems.append('facts extractor failed: %r' % e)
        vals, bools, tables = dict(facts17.DEFAULTS), dict(facts17.BOOLS), dict(facts17.TABLES)
    _FACTS.update(bools)
    summary.update(vals)
    summary.update(bools)
    summary.update({k: [list(p) for p in v] for k, v in tables.items()})
    return {'coq': facts17.coq(vals, bools, tables), 'summary': summary, 'problems': problems}


# ------------------------------------------------------------ generation
NASTY = [' ', '%', '?', '#', '&', '=', '+', '/', ';', ':', '@', '"', '<', '>', '[', ']', '{', '}', '|', '\\', '^', '`',
         '\t', '\n', '\x00', '\x7f', "'", '(', ')', '*', ',', '!', '$', '~', '-', '.', '_', '\xe9', '\xfc', '\u20ac',
         '\U0001d11e', '\xa0', '\ufffd', '\u0131']
PLAIN = list('abcxyzAZ019')


# texts made ONLY of characters of one Unicode class that str predicates (isdigit / isdecimal / isnumeric / isspace / isalpha /
# isupper / isalnum / isidentifier ..) accept beyond ASCII: a fast path or shortcut guarded by such a predicate sees them as
# "plain" although they need quoting (seed C17-19: `segment.isdigit()`); ASCII members of the class are mixed in
CLASS_CHARS = {
    'digit': ['\u0663', '\u0969', '\uff13', '\xb2', '\u2075', '\u06f7', '7', '0'],
    'numeric': ['\xbd', '\u2167', '\u4e09', '\u0663', '3'],
    'space': ['\u2003', '\x85', '\u3000', '\xa0', '\u2028', ' ', '\x1c'],
    'alpha': ['\xdf', '\u0130', '\u01c6', '\u03a3', '\u05d0', '\u4e2d', 'a', 'Z'],
    'upper': ['\xc9', '\u0130', '\u03a3', '\u01c4', 'A'],
    'ident': ['\xb5', '\u212a', '\ufb01', '_', 'x', '\u0663'],
    'mark': ['e\u0301', '\u0301', '\u200d', '\ufe0f', '\u00ad'],
}
CLASS_TEXT = 0.05


def gen_class_text(rng, cls=None):
    chars = CLASS_CHARS[cls or rng.choice(sorted(CLASS_CHARS))]
    return ''.join(rng.choice(chars) for _ in range(rng.choice([1, 1, 2, 3])))


def gen_text(rng, maxlen=6, nasty=0.5):
    if CLASS_TEXT and rng.random() < CLASS_TEXT:
        return gen_class_text(rng)
    n = rng.choice([0, 1, 1, 2, 2, 3, 4, maxlen])
    return ''.join(rng.choice(NASTY) if rng.random() < nasty else rng.choice(PLAIN) for _ in range(n))


def gen_word(rng):
    return ''.join(rng.choice(PLAIN) for _ in range(rng.choice([1, 2, 3])))


X_FLOATS = ['1.5', '-0.0', '0.25', '1e+30', '-2.5', 'inf']


def gen_xval(rng, allow_none=True):
    """a value that is neither str, bytes nor int: None, a non-integral float, an instance of a str subclass, an object
    with its own __str__ -- str(v) is what the helpers have to encode"""
    k = rng.choice(['none', 'float', 'ssub', 'ssub', 'obj'] if allow_none else ['float', 'ssub', 'ssub', 'obj'])
    if k == 'none':
        return ['x', 'none', '']
    if k == 'float':
        return ['x', 'float', rng.choice(X_FLOATS)]
    return ['x', k, gen_text(rng, 4, 0.5) if rng.random() < 0.85 else '']


OTHER_OBJECTS = 0.04


def gen_pval(rng, odd=0.12):
    if OTHER_OBJECTS and rng.random() < OTHER_OBJECTS:
        return gen_xval(rng)
    return gen_pval_plain(rng, odd)


def gen_pval_plain(rng, odd=0.12):
    r = rng.random()
    if r < odd / 4:
        return ['b', list(rng.choice([b'\xff', b'\xc3', b'a\x80b', b'\xe2\x82', b'\xed\xa0\x80', b'\xc0\xaf']))]
    if r < odd / 2:
        return ['s', gen_text(rng, 3) + rng.choice(['\ud800', '\udfff', '\udc80'])]
    if r < odd / 2 + 0.08:
        return ['b', list(gen_text(rng).encode('utf-8'))]
    if r < odd / 2 + 0.18:
        return ['i', rng.choice([0, 1, 7, 42, -3, 10, 2026, 2 ** 40 + 5, -2 ** 33, rng.randrange(-999, 99999)])]
    return ['s', gen_text(rng)]


def render_pattern(parts):
    s = parts['prefix']
    for name, rx, lit in parts['holes']:
        s += '{%s}' % name if rx is None else '{%s:%s}' % (name, rx)
        s += lit
    if parts['star'] is not None:
        s += '*' + parts['star']
    return s


LIT_CHARS = list('abcxyz019') + ['/', '/', '-', '.', '_', '%', ' ', '\xe9', '\u20ac', '~', '+', '&', '=', ';', ',', '@', '!', '$', "'", '(', ')', '?', '#', '"', '^']
HOLES = ['id', 'name', 'x', 'y', 'traverse', 'subpath', '_v']


def gen_lit(rng, maxlen=5):
    n = rng.choice([0, 1, 1, 2, 3, maxlen])
    return ''.join(rng.choice(LIT_CHARS) for _ in range(n))


def _external(pattern):
    """add_route treats a pattern with a host part as an external URL (pregenerator puts scheme://netloc into _app_url)"""
    from urllib.parse import urlparse
    try:
        return bool(urlparse(pattern).hostname) or bool(urlparse(pattern).scheme)
    except ValueError:
        return True


_EXT_ROUTE_RE = re.compile(r'^(?:[a-z][a-z0-9+.-]*:)?//(?:[A-Za-z0-9._~-]+@)?[A-Za-z0-9.-]*[A-Za-z0-9](?::[0-9]+)?(?:/[^?#;]*)?$')


def ext_parts(pattern):
    """(scheme or None, netloc, path) of a route pattern that is a full URL in the modelled class, else None"""
    from urllib.parse import urlparse
    if not isinstance(pattern, str) or not _EXT_ROUTE_RE.match(pattern):
        return None
    try:
        p = urlparse(pattern)
    except ValueError:
        return None
    if not p.hostname or p.params or p.query or p.fragment or '[' in p.netloc:
        return None
    return (p.scheme or None, p.netloc, p.path)


def route_ok(pattern):
    if ext_parts(pattern) is not None:
        return parse_pattern(pattern) is not None
    return not _external(pattern) and parse_pattern(pattern) is not None


EXT_ROUTE_BASES = ['https://cdn.example.com:8443', '//media.example.com:8080', 'http://user@h.example', 'https://cdn.example.com',
                   '//h.example', 'ftp://files.example:21', 'https://u@cdn.example.com:444']


def gen_pattern(rng, external=0.0):
    while True:
        p = _gen_pattern(rng)
        if rng.random() < external:
            p = rng.choice(EXT_ROUTE_BASES) + ('/' + p.lstrip('/') if rng.random() < 0.9 else '')
            if ext_parts(p) is not None and parse_pattern(p) is not None:
                return p
            continue
        if not _external(p) and parse_pattern(p) is not None:
            return p


def _gen_pattern(rng):
    pre = rng.choice(['/', '/', '', '/']) + gen_lit(rng)
    nh = rng.choice([0, 1, 1, 2, 2, 3])
    names = rng.sample(HOLES, nh)
    holes = []
    for i, nm in enumerate(names):
        lit = gen_lit(rng, 3)
        if i + 1 < nh and rng.random() < 0.8 and not lit:
            lit = rng.choice(['/', '-', '.', '/x/'])
        holes.append([nm, rng.choice([None, None, None, r'\d+', r'[^/]+', r'\d{2}']), lit])
    star = None
    if rng.random() < 0.35:
        star = rng.choice(['rest', 'traverse', 'subpath', 'fizzle', ''])
        if star in names:
            star = 'rest'
    return render_pattern({'prefix': pre, 'holes': holes, 'star': star})


SCRIPTS = ['', '', '', '/app', '/app', '/a/b', '/my app', '/caf\xe9', '/a%b', '/x?y', '/x#y', '/~u', '/a;b=c', '/\u20ac/\U0001d11e',
           '/a\tb', '/a"b', '/[x]', '/a+b&c', "/it's", '/a\nb']
HOSTS = [None, None, 'localhost', 'localhost:80', 'localhost:8080', 'example.com:443', 'example.com:5432', 'example.com']
OV_SCHEMES = ['http', 'https', 'https', 'ftp', 'HTTP', 'ws', '']
OV_HOSTS = ['example.com', 'example.com:8080', 'example.com:80', 'example.com:443', 'h', 'a.b:1:2', 'other.org:8443', '']
OV_PORTS = [['i', 80], ['i', 443], ['i', 8080], ['s', '80'], ['s', '443'], ['s', '8443'], ['s', ''], ['i', 0], ['i', 65535]]
APP_URLS = ['http://x.example/pre', '', 'https://cdn.example:8443', '/mounted', 'http://example.com/a b', '//cdn/x']


def gen_env(rng, ipv6=False):
    e = {'scheme': rng.choice(['http', 'http', 'https']), 'http_host': rng.choice(HOSTS),
         'server_name': rng.choice(['srv', 'localhost', 'srv.internal']),
         'server_port': rng.choice(['80', '443', '8080', '6543']),
         'script_name': rng.choice(SCRIPTS) if rng.random() < 0.9 else '/' + gen_text(rng)}
    if ipv6:
        e['http_host'] = rng.choice(['[::1]', '[::1]:8080', '[2001:db8::1]:443', '[::1'])
    return e


def gen_qval(rng):
    r = rng.random()
    if r < 0.12:
        return ['n']
    if r < 0.3:
        return ['q', [gen_pval(rng) for _ in range(rng.choice([0, 1, 2, 3]))], rng.choice(['list', 'tuple', 'iter', 'gen'])]
    v = gen_pval(rng)
    return ['v', v if v[:2] != ['x', 'none'] else gen_xval(rng, False)]      # a None value is ['n']


def gen_num(rng, k=None):
    k = rng.choice([0, 1, 1, 2, 7]) if k is None else k
    forms = [['i', k], ['n', k, '%d.0' % k], ['n', k, '%d.00' % k]] + ([['n', k, 'True' if k else 'False']] if k in (0, 1) else [])
    return rng.choice(forms)


def gen_typed_query(rng):
    """keys / values that are equal (==, same hash) but print differently, within one query"""
    k = rng.choice([0, 1, 1, 2])
    pairs = []
    for _ in range(rng.choice([2, 2, 3])):
        key = gen_num(rng, k) if rng.random() < 0.4 else ['s', rng.choice(['page', 'p q'])]
        r = rng.random()
        if r < 0.5:
            val = ['v', gen_num(rng, k)]
        elif r < 0.92:
            val = ['q', [gen_num(rng, k) for _ in range(rng.choice([1, 2, 3]))], 'list']
        else:
            val = ['q', [['o', [k, 2]], gen_num(rng, k)], 'tuple']
        pairs.append([key, val])
    return ['l', pairs]


def gen_query(rng):
    if rng.random() < 0.06:
        return gen_typed_query(rng)
    r = rng.random()
    if r < 0.3:
        return ['s', gen_text(rng, 8) if rng.random() < 0.7 else rng.choice(['a=1&b=2', 'q=a+b', 'x=%41', ''])]
    n = rng.choice([0, 1, 1, 2, 3, 4])
    pairs = []
    for _ in range(n):
        k = gen_pval(rng, 0.06) if rng.random() < 0.5 else ['s', rng.choice(['a', 'b', 'a', 'k y', 'q&'])]
        if k[0] == 'x' and r < 0.6:
            k = gen_pval_plain(rng, 0.06)        # a str-subclass key equals the plain str as a mapping key
        pairs.append([k, gen_qval(rng)])
    if 0.6 <= r < 0.7 and pairs:
        return ['li', pairs]                      # a one-shot iterator of pairs
    if r < 0.6:
        seen, uniq = set(), []
        for k, v in pairs:          # a mapping has unique, hashable keys
            kk = json.dumps(k)
            if kk not in seen:
                seen.add(kk)
                uniq.append([k, v])
        return ['d', uniq]
    return ['l', pairs]


def gen_ov(rng, allow_app=True):
    ov = {'app_url': None, 'scheme': None, 'host': None, 'port': None, 'query': None, 'anchor': None}
    if allow_app and rng.random() < 0.08:
        ov['app_url'] = rng.choice(APP_URLS)
    mode = rng.random()
    if mode < 0.45:
        if rng.random() < 0.5:
            ov['scheme'] = rng.choice(OV_SCHEMES)
        if rng.random() < 0.45:
            ov['host'] = rng.choice(OV_HOSTS)
        if rng.random() < 0.45:
            ov['port'] = rng.choice(OV_PORTS)
    if rng.random() < 0.55:
        ov['query'] = gen_query(rng)
    if rng.random() < 0.45:
        ov['anchor'] = gen_pval(rng, 0.06)
    return ov


def gen_kwval(rng, star=False):
    if star:
        r = rng.random()
        if r < 0.6:
            return ['q', [gen_pval(rng, 0.05) for _ in range(rng.choice([0, 1, 2, 3]))], rng.choice(['list', 'tuple', 'iter', 'gen'])]
        if r < 0.75:
            return ['v', ['s', rng.choice(['a/b', '/a/b c', '', 'x%y/\xe9'])]]
        if r < 0.9:      # a scalar star value that is not a str: bytes (UTF-8 text, never a sequence of integers), int, other
            return ['v', rng.choice([['b', list('docs/caf\xe9.txt'.encode('utf-8'))], ['b', list(b'a/b')], ['b', []], ['i', 42],
                                     ['x', 'ssub', 'a/b c'], ['x', 'float', '1.5']])]
        return ['v', gen_pval(rng)]
    if rng.random() < 0.04:
        return ['q', [gen_pval(rng, 0.0) for _ in range(rng.choice([0, 1, 2]))], rng.choice(['list', 'tuple'])]
    return ['v', gen_pval(rng, 0.05)]


def _parts(pattern):
    p = parse_pattern(pattern)
    return p


def gen_kw_for(rng, pattern):
    p = parse_pattern(pattern)
    kw = []
    for name, _lit in p['holes']:
        if rng.random() < 0.95:
            kw.append([name, gen_kwval(rng)])
    if p['star'] and rng.random() < 0.93:
        kw.append([p['star'], gen_kwval(rng, True)])
    if rng.random() < 0.12:
        kw.append([rng.choice(['extra', 'other']), gen_kwval(rng)])
    rng.shuffle(kw)
    seen, out = set(), []
    for k, v in kw:
        if k not in seen:
            seen.add(k)
            out.append([k, v])
    return out


def gen_elements(rng):
    if rng.random() < 0.04:
        # empty elements: one, several, in front of / behind a non-empty one (an empty element is a segment too)
        return rng.choice([[['s', '']], [['s', '']], [['b', []]], [['s', ''], ['s', '']], [['s', ''], ['s', 'x']], [['s', 'x'], ['s', '']]])
    return [gen_pval(rng) for _ in range(rng.choice([0, 0, 1, 1, 2, 3]))]


def gen_routes(rng):
    names = rng.sample(['home', 'r1', 'r2', 'item'], rng.choice([1, 1, 2, 3]))
    return [[n, gen_pattern(rng, 0.12)] for n in names]


def gen_route_case(rng, ipv6=False):
    routes = gen_routes(rng)
    name = rng.choice(routes)[0] if rng.random() < 0.97 else 'nosuch'
    pat = dict((n, p) for n, p in routes).get(name, '/')
    return {'kind': 'gen', 'helper': 'route', 'env': gen_env(rng, ipv6), 'routes': routes, 'route_name': name,
            'elements': gen_elements(rng), 'ov': gen_ov(rng), 'kw': gen_kw_for(rng, pat), 'warm': []}


def _wsgi(s):
    return s.encode('utf-8', 'surrogatepass').decode('latin-1')


def gen_vroot(rng, names):
    """X-Vhm-Root header (WSGI latin-1 text): a prefix of the resource's path, a near miss, or junk"""
    strs = [n[1] for n in names if n[0] == 's']
    r = rng.random()
    if r < 0.55 and strs and len(strs) == len(names):
        k = rng.choice(range(1, len(strs) + 1))
        segs = [x for x in strs[:k]]
        if all(x and x not in ('.', '..') and '/' not in x for x in segs):
            sep = rng.choice(['/', '/', '//', '/./'])
            return _wsgi('/' + sep.join(segs) + rng.choice(['', '/', '/x/..']))
    if r < 0.75:
        return _wsgi('/' + '/'.join(gen_text(rng, 3, 0.3) or 'v' for _ in range(rng.choice([1, 2]))))
    if r < 0.85:
        return rng.choice(['/', '', '/..', '/.'])
    return rng.choice(['/\xff', '/a\xc3', '/\xe9'])        # not UTF-8


def gen_resource_case(rng):
    names = [['s', gen_text(rng, 4, 0.35) if rng.random() < 0.6 else gen_word(rng)] if rng.random() < 0.9 else gen_pval_plain(rng)
             for _ in range(rng.choice([0, 1, 1, 2, 3]))]
    c = {'kind': 'gen', 'helper': 'resource', 'env': gen_env(rng), 'names': names,
         'elements': gen_elements(rng), 'ov': gen_ov(rng), 'warm': [], 'vroot': None, 'rn': None, 'routes': []}
    if rng.random() < 0.35:
        c['vroot'] = gen_vroot(rng, names)
    if rng.random() < 0.25:
        star = rng.choice(['traverse', 'traverse', 'rest'])
        pats = [rng.choice(['/site/*', '/*', 'r{id}/x*', '/{lang}/*']) + star, gen_pattern(rng)]
        c['routes'] = [['rr', pats[0]], ['other', pats[1]]]
        pat = parse_pattern(pats[0])
        rem = star if rng.random() < 0.85 else rng.choice(['traverse', 'nothere'])
        kw = [[n, gen_kwval(rng)] for n, _l in pat['holes'] if rng.random() < 0.9]
        c['rn'] = {'route_name': 'rr' if rng.random() < 0.95 else 'nosuch', 'rem': rem,
                   'rem_given': rem != 'traverse' or rng.random() < 0.5,
                   'kw': kw if (kw or rng.random() < 0.5) else None}
    return c


EXT_NAMES = ['https://cdn.example.com/assets/', 'http://static.example.org', '//cdn.example.com/s', 'https://cdn.example.com:8443/a/b/',
             'ftp://files.example.com/pub', '//h/', 'https://cdn.example.com/v1.2/~x']
SUBS = ['a.css', 'dir/a b.js', 'x%y', '\xe9/\u20ac.png', '', 'a?b#c', 'd/../e', 'q=1&r', 'theme:dark.css', 'v1:bundle/app.js',
        'http://evil.example/x', 'a/b:c', ':x', 'a;b=c/d;e', 'dir/', './a', 'a/./b', 'a//b', '/abs', '//host/x', '..', 'a/..',
        'a+b,c', "it's(1)!*$", '%41', '#', '?', 'x@y', 'k=v&w', '\U0001d11e.svg', ' ', 'a\tb', '[x]']


def gen_sub(rng):
    r = rng.random()
    if r < 0.6:
        return rng.choice(SUBS)
    if r < 0.8:
        return rng.choice(['theme', 'v1', 'http', 'a+b.c', 'x']) + ':' + gen_text(rng, 5, 0.4)
    return '/'.join(gen_text(rng, 4, 0.5) for _ in range(rng.choice([1, 2, 3])))


def gen_static_case(rng):
    regs = []
    for nm in rng.sample(['static', 'my static', 'a/b', 'st\xe9', 'css%'], rng.choice([1, 1, 2])):
        regs.append([nm, rng.choice(['pkg:static', 'pkg:assets/css', 'other:files', 'pkg:st'])])
    ext = rng.random() < 0.55
    if ext:
        names = EXT_NAMES + (['s3://bucket/assets/', 'cdn+x://h/a'] if EXTERNAL_ODD_STREAM else [])
        regs.insert(rng.choice([0, len(regs)]), [rng.choice(names), rng.choice(['cdn:static', 'pkg:ext', 'pkg:static/v'])])
    spec = rng.choice(regs)[1] if rng.random() < 0.95 else 'nope:dir'
    sub = gen_sub(rng)
    while ext and not EXTERNAL_ODD_STREAM and sub.startswith('/'):
        sub = gen_sub(rng)
    path = spec + '/' + sub if rng.random() < 0.9 else spec + sub
    kw = []
    if rng.random() < 0.1:
        kw.append([rng.choice(['subpath', 'extra']), gen_kwval(rng)])
    return {'kind': 'gen', 'helper': 'static', 'env': gen_env(rng), 'statics': regs, 'path': path,
            'ov': gen_ov(rng), 'kw': kw}


def gen_current_case(rng):
    routes = gen_routes(rng)
    matched = rng.choice(routes)[0] if rng.random() < 0.9 else None
    rname = rng.choice(routes)[0] if rng.random() < 0.2 else None
    target = rname or matched
    pat = dict((n, p) for n, p in routes).get(target, '/')
    p = parse_pattern(pat)
    md = []
    for name, _lit in p['holes']:
        if rng.random() < 0.9:
            md.append([name, ['v', ['s', gen_text(rng, 4)]]])
    if p['star'] and rng.random() < 0.9:
        md.append([p['star'], ['q', [['s', gen_text(rng, 3)] for _ in range(rng.choice([0, 1, 2]))], 'tuple']])
    kw = [kv for kv in gen_kw_for(rng, pat) if rng.random() < 0.3]
    get = [[['s', rng.choice(['a', 'b', 'q', 'k y', '\xe9'])], ['v', ['s', gen_text(rng, 4)]]] for _ in range(rng.choice([0, 0, 1, 2, 3]))]
    return {'kind': 'gen', 'helper': 'current', 'env': gen_env(rng), 'routes': routes, 'matched': matched,
            'cur_route_name': rname, 'matchdict': md, 'get': get, 'elements': gen_elements(rng),
            'ov': gen_ov(rng), 'kw': kw, 'warm': []}


def add_history(rng, c):
    """the same request object has been used before, under another environment: earlier SCRIPT_NAME (a parent mount
    point: path_info_pop; or any other), Host header, scheme, port.  URL generation keeps no state on the request,
    so only the final environment may matter"""
    final = c['env']
    pre = []
    for _ in range(rng.choice([1, 1, 2])):
        e = dict(final)
        r = rng.random()
        sn = final['script_name']
        if r < 0.35 and sn.count('/') >= 1:
            e['script_name'] = sn.rsplit('/', 1)[0]              # mounted one level up: reached by path_info_pop
        elif r < 0.85:
            e['script_name'] = rng.choice([x for x in SCRIPTS if x != sn] or [''])
        if rng.random() < 0.3:
            e['http_host'] = rng.choice(HOSTS)
        if rng.random() < 0.2:
            e['scheme'] = rng.choice(['http', 'https'])
        if rng.random() < 0.2:
            e['server_port'] = rng.choice(['80', '443', '8080'])
        pre.append(e)
    c['pre_envs'] = pre
    return c


def maybe_via_function(rng, c):
    """call the function forms of pyramid.url (route_url(route_name, request, ..), ..) instead of the request methods;
    or: some registrations are made AFTER URLs were generated on the half-built configuration"""
    if rng.random() < 0.12:
        c['via'] = 'function'
    n = len(c.get('routes') or []) + len(c.get('statics') or [])
    if n and rng.random() < 0.06:
        c['late'] = rng.choice(list(range(1, n + 1)))
    return c


def add_call_history(rng, c):
    """the same helper has been called before on the same request with other arguments (other overrides, keywords,
    elements); nothing of an earlier call may survive into a later one"""
    pcs = []
    h = c['helper']
    for _ in range(rng.choice([1, 1, 2])):
        pc = {'ov': gen_ov(rng)}
        if h in ('route', 'current'):
            name = c.get('route_name') if h == 'route' else (c.get('cur_route_name') or c.get('matched'))
            pat = dict((n, p) for n, p in c['routes']).get(name, '/')
            pc['kw'] = gen_kw_for(rng, pat) if rng.random() < 0.8 else []
            if rng.random() < 0.3:
                pc['kw'] = [kv for kv in pc['kw'] if kv[0] not in ('page', 'extra')] + [[rng.choice(['page', 'extra']), ['v', ['s', gen_word(rng)]]]]
        if h == 'static':
            pc['kw'] = []
        if h != 'static':
            pc['elements'] = gen_elements(rng)
        pcs.append(pc)
    c['pre_calls'] = pcs
    return c


def gen_call_history_case(rng):
    c = rng.choice([gen_current_case, gen_current_case, gen_route_case, gen_resource_case, gen_static_case])(rng)
    return add_call_history(rng, c)


def gen_history_case(rng):
    c = rng.choice([gen_route_case, gen_route_case, gen_resource_case, gen_current_case, gen_static_case])(rng)
    if rng.random() < 0.7:
        c['ov']['app_url'] = None
    return add_history(rng, c)


def gen_typed_query_case(rng):
    c = rng.choice([gen_route_case, gen_resource_case, gen_current_case, gen_static_case])(rng)
    c['ov']['query'] = gen_typed_query(rng)
    if rng.random() < 0.5:
        c['warm_q'] = [gen_typed_query(rng) for _ in range(rng.choice([1, 2]))]
    return c


def gen_typed_case(rng):
    """elements that are equal as cache keys but print differently"""
    k = rng.choice([0, 1, 1, 2, 7])
    forms = [['i', k], ['n', k, '%s.0' % k]] + ([['n', k, 'True' if k else 'False']] if k in (0, 1) else [])
    a, b = rng.choice(forms), rng.choice(forms)
    tail = [['s', gen_word(rng)]] if rng.random() < 0.4 else []
    c = rng.choice([gen_route_case, gen_resource_case, gen_current_case])(rng)
    c['elements'] = [b] + tail
    c['warm'] = [[a] + tail] + ([[['s', 'zz']]] if rng.random() < 0.3 else [])
    return c


URL_PIECES = ['http', 'https', 'HTTP', 'a+b.c', '1x', ':', ':', '//', '//', '/', '/', '?', '#', '&', '=', '+', '%', '%41', '%c3%a9',
              '%C3', '%zz', '%2', 'host', 'example.com', ':80', '[::1]', '[', ']', '@', ' ', '\t', '\n', '\r', '\x00', '\x1f',
              'a', 'b', 'x=1', 'k=v&k=w', '\xe9', '\u20ac', ';', 'p/q', '..', '%2F', '%25', '%26']


def gen_dec_case(rng):
    n = rng.choice([1, 2, 3, 4, 5, 6, 8])
    return {'kind': 'dec', 'url': ''.join(rng.choice(URL_PIECES) for _ in range(n))}


JOIN_BASES = ['https://cdn.example.com/assets/', 'http://h/a/b', 'http://h', '//h/x/', 'ftp://f.example/pub/', 's3://bucket/a/',
              'http://h/a/b/?q=1', 'http://h/a;p/b/', '', 'mailto:x@y', 'http://h/a//b/', '/only/path/', 'http://h/a/b/#f']
JOIN_REFS = ['a.css', 'd/e', '../x', './y', '/abs', '//other/z', 'theme:dark.css', 'http://evil/x', '?q=2', '#frag', '', 'a/../../../b',
             'a//b', 'x;p=1', '..', '.', 'a/.', 'd/', '%41', 'HTTP://H2/p', 'a b', '\xe9', 'x?y#z', ';p', 'a/b;p/c']


def gen_join_case(rng):
    base = rng.choice(JOIN_BASES)
    ref = rng.choice(JOIN_REFS) if rng.random() < 0.7 else ''.join(rng.choice(URL_PIECES) for _ in range(rng.choice([1, 2, 3])))
    return {'kind': 'join', 'base': base, 'ref': ref}


SAFES = ['', '/', "~!$&'()*+,;=:@", "~!$&'()*+,;=:@/", "/?:@!$&'()*+,;=", ' ', '%', 'ab']


def gen_quote_case(rng, i=None):
    if i is not None:
        return {'kind': 'quote', 'safe': SAFES[i // 256 % len(SAFES)], 'bytes': [i % 256]}
    return {'kind': 'quote', 'safe': rng.choice(SAFES),
            'bytes': [rng.choice([37, 32, 43, 0x41, 0x61, 0x25, 0x32, 0x46, 0x66, 0x47, rng.randrange(256)])
                      for _ in range(rng.choice([0, 1, 2, 3, 5, 8]))]}


SADD_NAMES = ['static', 'my static', 'a/b', 'st\xe9', 'css%', 'static/', 'x'] + EXT_NAMES + ['https://cdn.example.com/assets', '//h']
SADD_SPECS = ['pkg:static', 'pkg:assets/css', 'other:files', 'pkg:st', 'pkg:', 'pkg:dir/', 'pkg:static/v', 'cdn:static']


def gen_sadd_case(rng):
    """configuration time: which registrations a sequence of add_static_view statements leaves behind (URL names may
    repeat: the earlier registration under that URL is replaced and the new one goes last)"""
    n = rng.choice([1, 2, 2, 3, 4])
    stmts, views = [], set()
    for _ in range(n):
        nm = rng.choice(SADD_NAMES)
        if _sadd_is_url(nm) == 0:
            key = nm if nm.endswith('/') else nm + '/'
            if key in views:
                continue                      # the same view name twice is a route registered twice: not modelled
            views.add(key)
        stmts.append([nm, rng.choice(SADD_SPECS)])
    urls = [st for st in stmts if _sadd_is_url(st[0])]
    if urls and rng.random() < 0.4:
        # the same URL again (with and without its trailing slash), for another spec
        nm = rng.choice(urls)[0]
        stmts.insert(rng.randrange(len(stmts) + 1), [nm.rstrip('/') if rng.random() < 0.5 and not nm.endswith('//') else nm,
                                                     rng.choice(SADD_SPECS)])
    return {'kind': 'sadd', 'stmts': stmts or [['static', 'pkg:static']]}


def _sadd_is_url(name):
    from urllib.parse import urlparse
    return 1 if urlparse(name if name.endswith('/') else name + '/').netloc else 0


def typed_stream_on():
    if TYPED_KEY_STREAM is not None:
        return TYPED_KEY_STREAM
    return bool(_FACTS.get('join_elements_key_stringified', False))


def generate(rng, tier, n):
    nq = min(len(SAFES) * 256, max(0, n // 5))
    for i in range(nq):
        yield gen_quote_case(None, i)
    typed = typed_stream_on()
    for i in range(n - nq):
        r = rng.random()
        if r < 0.40:
            yield maybe_via_function(rng, gen_route_case(rng))
        elif r < 0.42:
            yield gen_route_case(rng, ipv6=True)
        elif r < 0.57:
            yield maybe_via_function(rng, gen_resource_case(rng))
        elif r < 0.67:
            yield maybe_via_function(rng, gen_static_case(rng))
        elif r < 0.80:
            yield maybe_via_function(rng, gen_current_case(rng))
        elif r < 0.812:
            yield gen_history_case(rng)
        elif r < 0.824:
            yield gen_call_history_case(rng)
        elif r < 0.83:
            yield (gen_typed_case(rng) if rng.random() < 0.5 else gen_typed_query_case(rng)) if typed else gen_route_case(rng)
        elif r < 0.845:
            yield gen_sadd_case(rng)
        elif r < 0.92:
            yield gen_dec_case(rng)
        elif r < 0.95:
            yield gen_join_case(rng)
        else:
            yield gen_quote_case(rng)


def targeted(broken, disagreements, rng):
    out = []
    for sc in SCRIPTS:
        for h in ('route', 'resource', 'static', 'current'):
            c = {'route': gen_route_case, 'resource': gen_resource_case, 'static': gen_static_case,
                 'current': gen_current_case}[h](rng)
            c['env']['script_name'] = sc
            c['ov']['app_url'] = None
            out.append(c)
    # every ASCII character in every component, under every override
    for ch in [chr(i) for i in range(128)] + ['\xe9', '\u20ac']:
        c = gen_route_case(rng)
        c['routes'] = [['r', '/p/{x}']]
        c['route_name'] = 'r'
        c['kw'] = [['x', ['v', ['s', 'a' + ch]]]]
        c['elements'] = [['s', ch + 'e']]
        c['ov'].update(query=['l', [[['s', 'k' + ch], ['v', ['s', ch + 'v']]]]], anchor=['s', 'f' + ch], app_url=None)
        out.append(c)
        c2 = json.loads(json.dumps(c))
        c2['ov']['query'] = ['s', 'q' + ch]
        out.append(c2)
    # one-class texts (all digits of some script, all spaces, ..) in every position that is quoted
    for cls in sorted(CLASS_CHARS):
        for ch in CLASS_CHARS[cls] + [gen_class_text(rng, cls) for _ in range(3)]:
            c = gen_route_case(rng)
            c['routes'], c['route_name'] = [['r', '/p/{x}/*rest']], 'r'
            c['kw'] = [['x', ['v', ['s', ch]]], ['rest', ['q', [['s', ch], ['s', 'a']], 'tuple']]]
            c['elements'] = [['s', ch]]
            c['ov'].update(query=['l', [[['s', ch], ['v', ['s', ch]]]]], anchor=['s', ch], app_url=None)
            out.append(c)
            c2 = gen_resource_case(rng)
            c2.update(names=[['s', ch], ['s', 'n']], elements=[['s', ch]], vroot=None, rn=None, routes=[])
            c2['ov']['app_url'] = None
            out.append(c2)
            c3 = json.loads(json.dumps(c))
            c3['env']['script_name'] = '/' + ch
            c3['ov']['query'] = ['s', ch]
            out.append(c3)
    # virtual roots with non-ASCII segments (the header is a WSGI string), matching a prefix of the lineage
    for names in (['sites', 'caf\xe9', 'docs'], ['\u65e5\u672c', 'a'], ['\u20ac'], ['a b', '\xfc', 'x']):
        for k in range(1, len(names) + 1):
            for tail in ('', '/', '/./'):
                c = gen_resource_case(rng)
                c.update(names=[['s', x] for x in names], vroot=_wsgi('/' + '/'.join(names[:k]) + tail), rn=None, routes=[])
                c['ov']['app_url'] = None
                out.append(c)
    for s in OV_SCHEMES:
        for h in [None] + OV_HOSTS:
            for p in [None] + OV_PORTS:
                c = gen_route_case(rng)
                c['ov'].update(scheme=s, host=h, port=p, app_url=None)
                out.append(c)
    # a single empty element / empty elements around a non-empty one, for every helper; star values of every type
    for els in ([['s', '']], [['b', []]], [['s', ''], ['s', '']], [['s', ''], ['s', 'x']], [['s', 'x'], ['s', '']]):
        for g in (gen_route_case, gen_resource_case, gen_current_case):
            for _ in range(6):
                c = g(rng)
                c['elements'] = json.loads(json.dumps(els))
                c['ov']['app_url'] = None
                out.append(c)
    for sv in (['v', ['b', list('docs/caf\xe9.txt'.encode('utf-8'))]], ['v', ['b', list(b'a')]], ['v', ['i', 7]], ['v', ['s', 'a/b']],
               ['q', [['b', list(b'a')], ['s', 'b c']], 'tuple'], ['q', [['i', 1]], 'gen']):
        for pat in ('/files/{x}/*subpath', '/*traverse', '/f*rest'):
            c = gen_route_case(rng)
            star = pat.rsplit('*', 1)[1]
            c['routes'], c['route_name'] = [['r', pat]], 'r'
            c['kw'] = [['x', ['v', ['s', 'z']]], [star, json.loads(json.dumps(sv))]]
            out.append(c)
            c2 = gen_current_case(rng)
            c2.update(routes=[['r', pat]], matched='r', cur_route_name=None, matchdict=[['x', ['v', ['s', 'z']]]],
                      kw=[[star, json.loads(json.dumps(sv))]])
            out.append(c2)
    for _ in range(150):
        c = rng.choice([gen_route_case, gen_current_case, gen_static_case])(rng)
        n = len(c.get('routes') or []) + len(c.get('statics') or [])
        c['late'] = rng.choice(list(range(1, n + 1)))
        out.append(c)
    for _ in range(300):
        out.append(gen_typed_case(rng))
        out.append(gen_typed_query_case(rng))
        out.append(gen_history_case(rng))
        out.append(gen_call_history_case(rng))
    # every ASCII character in the first / a later segment of an asset under a URL registration
    for ch in [chr(i) for i in range(128)] + ['\xe9', '\u20ac']:
        for sub in ('a' + ch + 'b.css', 'd/' + ch + 'x', ch):
            c = gen_static_case(rng)
            c['statics'] = [['https://cdn.example.com/assets/', 'cdn:static']]
            c['path'] = 'cdn:static/' + sub
            c['kw'] = []
            out.append(c)
    return out


def _pval_ok(v, allow_o=False):
    if not isinstance(v, list) or not v:
        return False
    if v[0] == 's':
        return len(v) == 2 and isinstance(v[1], str)
    if v[0] == 'b':
        return len(v) == 2 and isinstance(v[1], list) and all(isinstance(b, int) and 0 <= b < 256 for b in v[1])
    if v[0] == 'i':
        return len(v) == 2 and isinstance(v[1], int) and not isinstance(v[1], bool) and abs(v[1]) < 2 ** 61
    if v[0] == 'n':     # bool / integral float / Decimal with two places: equal to the int v[1] as a dict key
        return len(v) == 3 and isinstance(v[1], int) and isinstance(v[2], str) and \
            v[2] in ('%d.0' % v[1], '%d.00' % v[1], {0: 'False', 1: 'True'}.get(v[1]))
    if v[0] == 'x':     # None / float / str-subclass instance / object with __str__
        if not (len(v) == 3 and isinstance(v[2], str) and _no_surrogate(v[2])):
            return False
        if v[1] == 'none':
            return v[2] == ''
        if v[1] == 'float':
            try:
                f = float(v[2])
            except ValueError:
                return False
            return v[2] in X_FLOATS and str(f) == v[2]
        return v[1] in ('ssub', 'obj')
    if v[0] == 'o':     # an unhashable value (list of ints); only inside query sequences
        return allow_o and len(v) == 2 and isinstance(v[1], list) and all(isinstance(x, int) and not isinstance(x, bool) for x in v[1])
    return False


def _kwval_ok(v):
    return isinstance(v, list) and ((len(v) == 2 and v[0] == 'v' and _pval_ok(v[1])) or
                                    (len(v) == 3 and v[0] == 'q' and v[2] in SEQ_KINDS and isinstance(v[1], list)
                                     and all(_pval_ok(x) for x in v[1])))


SEQ_KINDS = ('list', 'tuple', 'iter', 'gen')


def _kw_ok(kw, star=None):
    # a one-shot iterator has no stable str(): only where it is iterated (the star placeholder)
    if isinstance(kw, list) and any(isinstance(e, list) and len(e) == 2 and isinstance(e[1], list) and len(e[1]) == 3
                                    and e[1][2] in ('iter', 'gen') and e[0] != star for e in kw):
        return False
    return isinstance(kw, list) and all(isinstance(e, list) and len(e) == 2 and isinstance(e[0], str) and e[0]
                                        and not e[0].startswith('_') and _kwval_ok(e[1]) for e in kw) \
        and len({e[0] for e in kw}) == len(kw)


def _query_ok(q):
    if q is None:
        return True
    if not isinstance(q, list) or len(q) != 2:
        return False
    if q[0] == 's':
        return isinstance(q[1], str)
    if q[0] not in ('l', 'd', 'li') or not isinstance(q[1], list) or (q[0] == 'li' and not q[1]):
        return False
    for e in q[1]:
        if not (isinstance(e, list) and len(e) == 2 and _pval_ok(e[0])):
            return False
        v = e[1]
        if not (isinstance(v, list) and v and ((v[0] == 'n' and len(v) == 1)
                                                or (v[0] == 'v' and len(v) == 2 and _pval_ok(v[1]) and v[1][:2] != ['x', 'none'])
                                                or (v[0] == 'q' and len(v) == 3 and isinstance(v[1], list)
                                                    and all(_pval_ok(x, True) for x in v[1]) and v[2] in SEQ_KINDS))):
            return False
        if q[0] == 'd' and e[0][0] == 'x':
            return False
    if q[0] == 'd' and len({json.dumps(e[0]) for e in q[1]}) != len(q[1]):
        return False
    return True


def _static_hit(case):
    for r in _static_routes(case):
        if case['path'].startswith(r[0]):
            return r, case['path'][len(r[0]):]
    return None, None


def _ext_abs_sub(case):
    r, sub = _static_hit(case)
    return r is not None and r[3] is not None and sub.startswith('/')


_EXT_RE = re.compile(r'^(?:[a-z][a-z0-9+.-]*:)?//[a-z0-9.-]+(?::[0-9]+)?(?:/[A-Za-z0-9._~-]+)*/?$')


def _static_name_ok(name):
    """a view name (no URL syntax at all) or a plain URL scheme://host[:port]/seg/seg[/]"""
    from urllib.parse import urlparse
    try:
        p = urlparse(name)
    except ValueError:
        return False
    if p.netloc or p.scheme:
        from urllib.parse import uses_relative
        return bool(_EXT_RE.match(name)) and (EXTERNAL_ODD_STREAM or p.scheme in uses_relative)
    return not _external(name)


def _no_surrogate(s):
    return not any(0xd800 <= ord(c) <= 0xdfff for c in s)


def valid(case):
    try:
        k = case['kind']
        if k == 'dec':
            return isinstance(case['url'], str) and _no_surrogate(case['url'])
        if k == 'join':
            return isinstance(case['base'], str) and isinstance(case['ref'], str) and _no_surrogate(case['base'] + case['ref'])
        if k == 'sadd':
            views = [n if n.endswith('/') else n + '/' for n, _s in case['stmts'] if _sadd_is_url(n) == 0]
            return bool(case['stmts']) and all(isinstance(n, str) and isinstance(sp, str) and n and ':' in sp and sp[0] != '/'
                                               and _no_surrogate(n + sp) and _static_name_ok(n) for n, sp in case['stmts']) \
                and len(set(views)) == len(views)
        if k == 'quote':
            return isinstance(case['safe'], str) and all(ord(c) < 128 for c in case['safe']) and \
                all(isinstance(b, int) and 0 <= b < 256 for b in case['bytes'])
        if k != 'gen':
            return False
        e = case['env']
        if not (all(isinstance(e[f], str) for f in ('scheme', 'server_name', 'server_port', 'script_name'))
                and (e['http_host'] is None or isinstance(e['http_host'], str)) and _no_surrogate(e['script_name'])
                and e['scheme'] and e['server_name'] and (e['script_name'] == '' or e['script_name'][0] == '/')
                and re.match(r'^[a-zA-Z][a-zA-Z0-9+.-]*$', e['scheme'])):
            return False
        ov = case['ov']
        for f in ('app_url', 'scheme', 'host'):
            if ov[f] is not None and not (isinstance(ov[f], str) and _no_surrogate(ov[f])):
                return False
        if ov['port'] is not None and not (_pval_ok(ov['port']) and ov['port'][0] in ('s', 'i')):
            return False
        if not _query_ok(ov['query']) or not (ov['anchor'] is None or _pval_ok(ov['anchor'])):
            return False
        if not all(_query_ok(q) and q is not None for q in case.get('warm_q', [])):
            return False
        if case.get('via', 'method') not in ('method', 'function'):
            return False
        lt = case.get('late', 0)
        if not (isinstance(lt, int) and not isinstance(lt, bool)
                and 0 <= lt <= len(case.get('routes') or []) + len(case.get('statics') or [])):
            return False
        for pc in case.get('pre_calls', []):
            if not isinstance(pc, dict) or not set(pc) <= {'ov', 'kw', 'elements'} or 'ov' not in pc:
                return False
            c2 = dict(case, **pc)
            c2.pop('pre_calls')
            if not valid(c2):
                return False
        for pe in case.get('pre_envs', []):
            if not (isinstance(pe, dict) and all(isinstance(pe.get(f), str) for f in ('scheme', 'server_name', 'server_port', 'script_name'))
                    and (pe.get('http_host') is None or isinstance(pe['http_host'], str)) and _no_surrogate(pe['script_name'])
                    and pe['scheme'] and pe['server_name'] and (pe['script_name'] == '' or pe['script_name'][0] == '/')
                    and re.match(r'^[a-zA-Z][a-zA-Z0-9+.-]*$', pe['scheme'])):
                return False
        h = case['helper']
        if h in ('route', 'current'):
            if not case['routes'] or len({r[0] for r in case['routes']}) != len(case['routes']):
                return False
            for n, p in case['routes']:
                if not n or not isinstance(p, str) or not _no_surrogate(p) or not route_ok(p):
                    return False
            tname = case['route_name'] if h == 'route' else (case.get('cur_route_name') or case.get('matched'))
            tpat = dict((n, p) for n, p in case['routes']).get(tname)
            star = parse_pattern(tpat)['star'] if tpat is not None else None
            if not _kw_ok(case['kw'], star):
                return False
        if h in ('route', 'resource', 'current'):
            if not all(_pval_ok(x) for x in case['elements']):
                return False
            if not all(isinstance(w, list) and w and all(_pval_ok(x) for x in w) for w in case['warm']):
                return False
        if h == 'route':
            return isinstance(case['route_name'], str)
        if h == 'resource':
            if not all(_pval_ok(x) and x[0] in ('s', 'b', 'i') for x in case['names']):
                return False
            v = case.get('vroot')
            if v is not None and not (isinstance(v, str) and all(ord(ch) < 256 for ch in v)):
                return False
            rn = case.get('rn')
            rs = case.get('routes') or []
            if len({r[0] for r in rs}) != len(rs):
                return False
            for n, p in rs:
                if not n or not isinstance(p, str) or not _no_surrogate(p) or not route_ok(p) or ext_parts(p) is not None:
                    return False
            if rn is not None:
                if not (isinstance(rn['route_name'], str) and isinstance(rn['rem'], str) and rn['rem']
                        and (rn['kw'] is None or _kw_ok(rn['kw'])) and (rn['rem_given'] or rn['rem'] == 'traverse')):
                    return False
                pat = dict((n, p) for n, p in rs).get(rn['route_name'])
                if pat is not None and rn['rem'] in [h_[0] for h_ in parse_pattern(pat)['holes']]:
                    return False      # str(tuple) would be quoted into the path: not modelled
                if rn['kw'] is not None and rn['rem'] in [k for k, _v in rn['kw']]:
                    pass
            return True
        if h == 'static':
            return bool(case['statics']) and all(isinstance(a, str) and isinstance(b, str) and a and ':' in b and b[0] != '/'
                                                 and _no_surrogate(a + b) and _static_name_ok(a) for a, b in case['statics']) \
                and len({a for a, b in case['statics']}) == len(case['statics']) \
                and isinstance(case['path'], str) and ':' in case['path'] and _no_surrogate(case['path']) and _kw_ok(case['kw']) \
                and (EXTERNAL_ODD_STREAM or not _ext_abs_sub(case))
        if h == 'current':
            return _kw_ok(case['matchdict']) and (case['matched'] is None or isinstance(case['matched'], str)) \
                and (case['cur_route_name'] is None or isinstance(case['cur_route_name'], str)) \
                and all(e[0][0] == 's' and e[1][0] == 'v' and e[1][1][0] == 's' and _no_surrogate(e[0][1] + e[1][1][1])
                        for e in case['get']) and _query_ok(['l', case['get']])
        return False
    except Exception:
        return False


def shrinks(case):
    """shrink what surrounds the URL under test (overrides, elements, keywords, environment); the routes,
    static registrations and asset path stay as generated so that a replay shows the input class it came from"""
    from harness.common.main import generic_shrinks
    if case.get('kind') != 'gen':
        yield from generic_shrinks(case)
        return
    if case['helper'] == 'static' and len(case['statics']) > 1:
        for i in range(len(case['statics'])):
            yield dict(case, statics=case['statics'][:i] + case['statics'][i + 1:])
    env = case['env']
    if env['script_name']:
        yield dict(case, env=dict(env, script_name=''))
    if env['http_host'] is not None:
        yield dict(case, env=dict(env, http_host=None))
    for k in ('pre_calls', 'pre_envs', 'warm_q', 'ov', 'kw', 'elements', 'warm', 'matchdict', 'get', 'names'):
        if k in case:
            for sv in generic_shrinks(case[k]):
                yield dict(case, **{k: sv})
    if case['helper'] in ('route', 'current') and len(case['routes']) > 1:
        for i in range(len(case['routes'])):
            yield dict(case, routes=case['routes'][:i] + case['routes'][i + 1:])


# ------------------------------------------------------------ pattern parsing (oracle: urldispatch's regexes)
_RX = {}
_IDENT = re.compile(r'^[_a-zA-Z][_a-zA-Z0-9]*$')


def _regexes():
    if not _RX:
        from pyramid import urldispatch as U
        _RX.update(old=U.old_route_re, star=U.star_at_end, route=U.route_re)
    return _RX


def parse_pattern(route):
    """the first half of _compile_route: prefix, (name, literal)*, star name.  None: outside the modelled class"""
    rx = _regexes()
    xp = ext_parts(route)
    if xp is not None:
        route = xp[2]                 # add_route: pattern = parsed.path
    if rx['old'].search(route) and not rx['route'].search(route):
        route = rx['old'].sub(lambda m: '{%s}' % m.group(0)[1:], route)
    if not route.startswith('/'):
        route = '/' + route
    star = None
    if rx['star'].search(route):
        route, star = route.rsplit('*', 1)
    pat = rx['route'].split(route)
    prefix, rest = pat[0], pat[1:]
    holes = []
    for i in range(0, len(rest), 2):
        name = rest[i][1:-1]
        if ':' in name:
            name = name.split(':', 1)[0]
        if not _IDENT.match(name):
            return None
        holes.append([name, rest[i + 1]])
    if star is not None and star != '' and not _IDENT.match(star):
        return None
    return {'prefix': prefix, 'holes': holes, 'star': star}


# ------------------------------------------------------------ wire
def _w_pval(v):
    if v[0] == 's':
        return [0, v[1]]
    if v[0] == 'b':
        return [1, bytes(v[1])]
    if v[0] == 'i':
        return [2, v[1]]
    if v[0] == 'o':
        return [3, 0, str(list(v[1]))]
    if v[0] == 'x':
        import zlib
        py = _py_pval(v)
        shown = str(py)
        return [3, (10 ** 15 + zlib.crc32(shown.encode('utf-8', 'surrogatepass'))) if py else 0, shown]
    return [3, v[1], v[2]]


class _S(str):
    pass


class _Obj:
    def __init__(self, shown):
        self.shown = shown

    def __str__(self):
        return self.shown

    __repr__ = __str__


def _py_pval(v):
    if v[0] == 'x':
        return {'none': lambda t: None, 'float': float, 'ssub': _S, 'obj': _Obj}[v[1]](v[2])
    if v[0] == 's':
        return v[1]
    if v[0] == 'b':
        return bytes(v[1])
    if v[0] == 'i':
        return v[1]
    if v[0] == 'o':
        return list(v[1])
    if v[2] in ('True', 'False'):
        return v[1] == 1
    if v[2].endswith('.00'):
        from decimal import Decimal
        return Decimal(v[2])
    return float(v[1])


def _opt(x, f=lambda y: y):
    return [] if x is None else [f(x)]


def _w_qval(v):
    if v[0] == 'n':
        return [0]
    if v[0] == 'v':
        return [1, _w_pval(v[1])]
    return [2, [_w_pval(x) for x in v[1]]]


def _w_query(q):
    if q[0] == 's':
        return [0, q[1]]
    return [1, [[_w_pval(k), _w_qval(v)] for k, v in q[1]]]


def _py_seq(kind, items):
    if kind == 'iter':
        return iter(list(items))
    if kind == 'gen':
        return (x for x in list(items))
    return tuple(items) if kind == 'tuple' else list(items)


def _w_kwval(v):
    if v[0] == 'v':
        return [0, _w_pval(v[1])]
    return [1, [_w_pval(x) for x in v[1]],
            '' if v[2] in ('iter', 'gen') else str(_py_seq(v[2], [_py_pval(x) for x in v[1]]))]


def _w_kw(kw):
    return [[k, _w_kwval(v)] for k, v in kw]


def _w_env(e):
    return [e['scheme'], _opt(e['http_host']), e['server_name'], e['server_port'], e['script_name']]


def _w_ov(ov):
    return [_opt(ov['app_url']), _opt(ov['scheme']), _opt(ov['host']),
            _opt(ov['port'], lambda p: str(p[1])), _opt(ov['query'], _w_query), _opt(ov['anchor'], _w_pval)]


def _w_pattern(p):
    pp = parse_pattern(p)
    return [pp['prefix'], [[n, l] for n, l in pp['holes']], _opt(pp['star'])]


def _w_routes(rs):
    return [[n, _w_pattern(p)] for n, p in rs]


def _w_exts(rs):
    return [[n, _opt(ext_parts(p)[0]), ext_parts(p)[1]] for n, p in rs if ext_parts(p) is not None]


def _static_routes(case):
    """what add_static_view registers: (spec with trailing slash, route name, pattern, url)"""
    from urllib.parse import urlparse
    out = []
    for name, spec in case['statics']:
        if not spec.endswith('/') and not spec.endswith(':'):
            spec = spec + '/'
        if not name.endswith('/'):
            name = name + '/'
        if urlparse(name).netloc:
            out.append((spec, '', None, name))
        else:
            out.append((spec, '__%s' % name, '%s*subpath' % name, None))
    return out


def _path_spec_wire(case):
    """[pattern, matchdict, keywords, [sub-path]] for Coq's spec_path_text (Model/C17_glue.v), or None"""
    h = case['helper']
    if h == 'route':
        pat = dict((n, p) for n, p in case['routes']).get(case['route_name'])
        return None if pat is None else [_w_pattern(pat), [], _w_kw(case['kw']), []]
    if h == 'current':
        pat = dict((n, p) for n, p in case['routes']).get(case['cur_route_name'] or case['matched'])
        return None if pat is None else [_w_pattern(pat), _w_kw(case['matchdict']), _w_kw(case['kw']), []]
    if h == 'static':
        r, sub = _static_hit(case)
        if r is None or r[3] is not None:
            return None
        return [_w_pattern(r[2]), [], _w_kw(case['kw']), [sub]]
    return None


def to_wire(case):
    inner = _to_wire(case)
    if case['kind'] == 'gen':
        extra = _path_spec_wire(case)
        if extra is not None:
            return [6, inner, extra]
    return inner


def _to_wire(case):
    k = case['kind']
    if k == 'dec':
        return [1, case['url']]
    if k == 'quote':
        return [2, case['safe'], bytes(case['bytes'])]
    if k == 'join':
        return [3, case['base'], case['ref']]
    if k == 'sadd':
        return [4, [[n, sp, _sadd_is_url(n)] for n, sp in case['stmts']]]
    h = case['helper']
    env, ov = _w_env(case['env']), _w_ov(case['ov'])
    if h == 'route':
        return [0, 0, env, _w_routes(case['routes']), case['route_name'], [_w_pval(x) for x in case['elements']], ov,
                _w_kw(case['kw']), [[_w_pval(x) for x in w] for w in case['warm']], _w_exts(case['routes'])]
    if h == 'resource':
        rn = case.get('rn')
        return [0, 4, env, _w_routes(case.get('routes') or []), [_w_pval(x) for x in case['names']],
                [_w_pval(x) for x in case['elements']], ov, [[_w_pval(x) for x in w] for w in case['warm']],
                _opt(case.get('vroot')),
                _opt(rn, lambda r: [r['route_name'], r['rem'], _opt(r['kw'], _w_kw)])]
    if h == 'static':
        regs = _static_routes(case)
        return [0, 2, env, [[rn, _w_pattern(pat)] for _s, rn, pat, u in regs if u is None],
                [[s, rn, _opt(u)] for s, rn, _p, u in regs], case['path'], ov, _w_kw(case['kw'])]
    return [0, 3, env, _w_routes(case['routes']), _opt(case['cur_route_name']), _opt(case['matched']),
            _w_kw(case['matchdict']), [[_w_pval(k), _w_qval(v)] for k, v in case['get']],
            [_w_pval(x) for x in case['elements']], ov, _w_kw(case['kw']),
            [[_w_pval(x) for x in w] for w in case['warm']], _w_exts(case['routes'])]


def from_wire(case, raw):
    if raw == [['bad']]:
        return {'model': ['MODEL-BAD'], 'spec': None}
    if case['kind'] != 'gen':
        return {'model': raw, 'spec': None}
    path_text = []
    if _path_spec_wire(case) is not None:
        if len(raw) != 2:
            return {'model': ['MODEL-BAD', raw], 'spec': None}
        raw, path_text = raw          # [] | [text]: Coq's spec_path_text for this case
    if len(raw) != 4 or len(raw[3]) != 8:
        return {'model': ['MODEL-BAD', raw], 'spec': None}
    # [] : the model mutates none of its inputs ; [] : current_route_url IS route_url on the merged keywords ;
    # the decoded route part (obs[5]) is an observation of the implementation only (equiv ignores it): it is judged
    # against spec[8] = spec_path_text, proved of the model's generate in C17_generate_decodes_text
    return {'model': raw[:3] + [[], [], []], 'spec': raw[3] + [path_text]}


# ------------------------------------------------------------ implementation
_impl = {}
ERR = {'KeyError': 1, 'UnicodeEncodeError': 2, 'UnicodeDecodeError': 3, 'ValueError': 4}


def setup(tier):
    import warnings
    warnings.simplefilter('ignore')
    from pyramid.config import Configurator
    from pyramid.request import Request
    import pyramid.url
    import pyramid.traversal
    import pyramid.encode
    _impl.update(Configurator=Configurator, Request=Request, mods=[pyramid.url, pyramid.traversal, pyramid.encode], cfg={})
    _regexes()


def _clear_caches():
    # functools' public cache_clear on the lru_cached helpers: every case starts from an empty cache
    for m in _impl['mods']:
        for v in list(vars(m).values()):
            cc = getattr(v, 'cache_clear', None)
            if callable(cc) and hasattr(v, 'cache_info'):
                cc()


def _warm_up_config(cfg, early, rest):
    """URLs are generated (and asked for in vain) on a half-built configuration; the registrations that follow must
    be seen by the next call: lookups are made at REQUEST time, nothing is remembered from an earlier answer"""
    req = _impl['Request']({'wsgi.url_scheme': 'http', 'SERVER_NAME': 'warm', 'SERVER_PORT': '80', 'SCRIPT_NAME': '',
                            'PATH_INFO': '/', 'REQUEST_METHOD': 'GET', 'QUERY_STRING': ''})
    req.registry = cfg.registry
    for kind, a, b in early + rest:
        try:
            if kind == 'r':
                pp = parse_pattern(b)
                kw = {nm: 'w' for nm, _l in pp['holes']}
                if pp['star']:
                    kw[pp['star']] = ('w',)
                req.route_url(a, 'e', **kw)
                req.route_path(a, **kw)
            else:
                sp = b if b.endswith('/') or b.endswith(':') else b + '/'
                req.static_url(sp + 'w.css')
                req.static_path(sp + 'w.css')
        except Exception:
            pass


def _config(case):
    h = case['helper']
    late = case.get('late') or 0
    key = json.dumps([h, case.get('routes'), case.get('statics'), late], sort_keys=True)
    cfg = _impl['cfg'].get(key)
    if cfg is None:
        cfg = _impl['Configurator'](autocommit=True)
        items = [('r', n, p) for n, p in case.get('routes') or []] + [('s', n, sp) for n, sp in case.get('statics') or []]
        early, rest = items[:len(items) - late], items[len(items) - late:]
        for i, (kind, a, b) in enumerate(early + rest):
            if late and i == len(early):
                _warm_up_config(cfg, early, rest)
            if kind == 'r':
                cfg.add_route(a, b)
            else:
                cfg.add_static_view(a, b)
        if len(_impl['cfg']) > 300:
            _impl['cfg'].clear()
        _impl['cfg'][key] = cfg
    return cfg


def _request(case, cfg):
    from urllib.parse import urlencode
    e = case['env']
    environ = {'wsgi.url_scheme': e['scheme'], 'SERVER_NAME': e['server_name'], 'SERVER_PORT': e['server_port'],
               'SCRIPT_NAME': e['script_name'].encode('utf-8').decode('latin-1'), 'PATH_INFO': '/',
               'REQUEST_METHOD': 'GET', 'QUERY_STRING': ''}
    if e['http_host'] is not None:
        environ['HTTP_HOST'] = e['http_host']
    if case['helper'] == 'current':
        environ['QUERY_STRING'] = urlencode([(k[1], v[1][1]) for k, v in case['get']])
    req = _impl['Request'](environ)
    req.registry = cfg.registry
    return req


def _apply_env(req, e, step):
    """move the SAME request object to another environment, the ways an application does it"""
    env = req.environ
    env['wsgi.url_scheme'], env['SERVER_NAME'], env['SERVER_PORT'] = e['scheme'], e['server_name'], e['server_port']
    if e['http_host'] is None:
        env.pop('HTTP_HOST', None)
    else:
        env['HTTP_HOST'] = e['http_host']
    old, new = req.script_name, e['script_name']
    seg = new[len(old) + 1:] if new.startswith(old + '/') else None
    if seg and '/' not in seg and seg.isascii() and seg.isalnum():
        env['PATH_INFO'] = '/' + seg + '/'
        req.path_info_pop()                                   # dispatch into a mounted sub-application
        env['PATH_INFO'] = '/'
    elif step % 2:
        req.script_name = new                                 # webob's setter
    else:
        env['SCRIPT_NAME'] = new.encode('utf-8').decode('latin-1')
    if req.script_name != new:
        raise RuntimeError('SCRIPT_NAME did not change to the case\'s value')


def _py_qval(v):
    if v[0] == 'n':
        return None
    if v[0] == 'v':
        return _py_pval(v[1])
    return _py_seq(v[2], [_py_pval(x) for x in v[1]])


def _py_query(q):
    if q[0] == 's':
        return q[1]
    pairs = [(_py_pval(k), _py_qval(v)) for k, v in q[1]]
    if q[0] == 'li':
        return iter(pairs)
    return dict(pairs) if q[0] == 'd' else pairs


def _py_kwval(v):
    return _py_pval(v[1]) if v[0] == 'v' else _py_seq(v[2], [_py_pval(x) for x in v[1]])


def _ov_kwargs(ov, prefix):
    kw = {}
    for f in ('app_url', 'scheme', 'host'):
        if ov[f] is not None:
            kw[prefix + f] = ov[f]
    if ov['port'] is not None:
        kw[prefix + 'port'] = ov['port'][1]
    if ov['query'] is not None:
        kw[prefix + 'query'] = _py_query(ov['query'])
    if ov['anchor'] is not None:
        kw[prefix + 'anchor'] = _py_pval(ov['anchor'])
    return kw


class _Res:
    def __init__(self, name, parent):
        self.__name__, self.__parent__ = name, parent


def _call(f):
    try:
        r = f()
        if not isinstance(r, str):
            return ['NOT-STR', type(r).__name__]
        return [0, r]
    except Exception as e:
        n = type(e).__name__
        return [1, ERR[n]] if n in ERR else ['EXC', n, str(e)[:80]]


def py_decode(u):
    """what urllib.parse makes of a URL: the harness-side reference decoding"""
    from urllib.parse import urlsplit, parse_qsl, unquote
    try:
        s = urlsplit(u)
    except ValueError:
        return [1]

    def strict(f):
        try:
            return [f()]
        except UnicodeDecodeError:
            return []
    return [0, s.scheme, s.netloc,
            strict(lambda: [unquote(x, errors='strict') for x in s.path.split('/')]),
            strict(lambda: [list(p) for p in parse_qsl(s.query, keep_blank_values=True, errors='strict')]),
            strict(lambda: unquote(s.query, errors='strict')), strict(lambda: unquote(s.fragment, errors='strict'))]


def run_impl(case):
    if not _impl:
        setup('quick')
    k = case['kind']
    if k == 'quote':
        from urllib.parse import quote, quote_plus, unquote_to_bytes
        b = bytes(case['bytes'])
        return [quote(b, safe=case['safe']), quote_plus(b, safe=case['safe']), unquote_to_bytes(b).decode('latin-1')]
    if k == 'join':
        from urllib.parse import urljoin
        try:
            return [0, urljoin(case['base'], case['ref'])]
        except ValueError:
            return [1, 4]
    if k == 'sadd':
        from pyramid.interfaces import IStaticURLInfo
        cfg = _impl['Configurator'](autocommit=True)
        for n, sp in case['stmts']:
            cfg.add_static_view(n, sp)
        info = cfg.registry.queryUtility(IStaticURLInfo)
        mapper = cfg.get_routes_mapper()
        regs = [[[u] if u is not None else [], sp, [rn] if rn is not None else []] for u, sp, rn in info.registrations]
        pats = []
        for n, sp in case['stmts']:
            if _sadd_is_url(n) == 0:
                r = mapper.get_route('__' + (n if n.endswith('/') else n + '/'))
                pats.append(r.pattern if r is not None else None)
        return [regs, pats]
    if k == 'dec':
        from urllib.parse import urlsplit, parse_qsl, unquote
        try:
            s = urlsplit(case['url'])
        except ValueError:
            return [[1, 4], []]

        def strict(f):
            try:
                return [f()]
            except UnicodeDecodeError:
                return []
        return [[0, s.scheme, s.netloc, s.path, s.query, s.fragment],
                [strict(lambda: [list(p) for p in parse_qsl(s.query, keep_blank_values=True, errors='strict')]),
                 strict(lambda: unquote(s.path, errors='strict')), strict(lambda: unquote(s.fragment, errors='strict'))]]
    cfg = _config(case)
    hist = list(case.get('pre_envs') or [])
    req = _request(dict(case, env=hist[0]) if hist else case, cfg)
    h = case['helper']
    ov = case['ov']
    _clear_caches()
    els = [_py_pval(x) for x in case.get('elements', [])]
    if case.get('warm'):
        root = _Res('', None)
        for w in case['warm']:
            try:
                req.resource_url(root, *[_py_pval(x) for x in w])
            except Exception:
                pass
    for wq in case.get('warm_q', []):
        try:
            req.resource_url(_Res('', None), query=_py_query(wq))
        except Exception:
            pass
    # what belongs to the request is set ONCE: later calls see what earlier calls left behind
    if h == 'current':
        if case['matched'] is not None:
            req.matched_route = cfg.get_routes_mapper().get_route(case['matched'])
        req.matchdict = {k: _py_kwval(v) for k, v in case['matchdict']}
        if [[['s', a], ['v', ['s', b]]] for a, b in req.GET.items()] != case['get']:
            raise RuntimeError('GET did not parse back to the case')
    if h == 'resource' and case.get('vroot') is not None:
        req.environ['HTTP_X_VHM_ROOT'] = case['vroot']

    def snapshot():
        import copy
        return {'matchdict': copy.deepcopy(getattr(req, 'matchdict', None)),
                'environ': {k: v for k, v in req.environ.items() if isinstance(v, str)},
                'attrs': sorted(k for k in vars(req) if not k.startswith('_')) }
    u = p = None
    changed = []
    for step, env_now in enumerate(hist + [case['env']]):
        if step:
            _apply_env(req, env_now, step)
        if step < len(hist):
            # earlier use of the request: everything that reads the script name / host part
            root = _Res('', None)
            for f in (lambda: req.resource_path(root), lambda: req.resource_url(root, scheme='https'),
                      lambda: req.resource_url(root, host='h.example'), lambda: req.application_url, lambda: req.host_url):
                try:
                    f()
                except Exception:
                    pass
        # earlier calls of the same helper with OTHER arguments on this request
        for pc in case.get('pre_calls') or []:
            c2 = dict(case, **pc)
            before = snapshot()
            _observe(c2, req, cfg, h, c2['ov'], [_py_pval(x) for x in c2.get('elements', [])])
            after = snapshot()
            changed += [k for k in before if before[k] != after[k] and k not in changed]
        before = snapshot()
        u, p = _observe(case, req, cfg, h, ov, els)
        after = snapshot()
        changed += [k for k in before if before[k] != after[k] and k not in changed]
    rel = []
    if h == 'current':
        # documented relation (Coq: C17_current_route_url_is_route_url): the URL of the current route is route_url of
        # that route on the matchdict overridden by the caller's keywords, with request.GET as the default query
        name = case['cur_route_name'] or case['matched']
        if name is not None:
            def merged():
                kw = {k: _py_kwval(v) for k, v in case['matchdict']}
                kw.update({k: _py_kwval(v) for k, v in case['kw']})
                kw.update(_ov_kwargs(ov, '_'))
                if '_query' not in kw:
                    kw['_query'] = req.GET
                return kw
            ref = _call(lambda: req.route_url(name, *els, **merged()))
            if ref != u:
                rel = ['current_route_url differs from route_url(<current route>, **{**matchdict, **keywords})', ref]
    part = []
    if not rel and u[0] == 0:
        rel, part = _path_relations(case, req, cfg, h, ov, els, u[1])
    return [u, p, py_decode(u[1]) if u[0] == 0 else [], sorted(changed), rel, part]


def _ptext(v):
    """the text a supplied value stands for (python side of Coq's spec_text)"""
    if v[0] == 'b':
        return bytes(v[1]).decode('utf-8')
    return str(_py_pval(v))


def _route_part(case, U):
    """what follows scheme://authority (or _app_url) and the script name, up to the query / fragment; None: not applicable"""
    from urllib.parse import urlsplit
    ov = case['ov']
    name = case.get('route_name') if case['helper'] == 'route' else (case.get('cur_route_name') or case.get('matched'))
    pat = dict((n, pp) for n, pp in case.get('routes') or []).get(name) if case['helper'] in ('route', 'current') else None
    external = pat is not None and ext_parts(pat) is not None
    if ov['app_url'] is not None and not external:
        if not U.startswith(ov['app_url']):
            return None
        rest = U[len(ov['app_url']):]
    else:
        try:
            sp = urlsplit(U)
        except ValueError:
            return None
        A = sp.scheme + '://' + sp.netloc
        if not sp.scheme or '[' in sp.netloc or not U.startswith(A):
            return None
        rest = U[len(A):]
        if not external:
            k = _script_prefix(rest, case['env']['script_name'])
            if k is None:
                return None
            rest = rest[k:]
    for ch in '?#':
        rest = rest.split(ch, 1)[0]
    return rest


def _expected_resource_segments(case):
    """(3) resource_url without route_name=: the path after the script name is '/' + the lineage names + '/', each name
    a segment (`__name__ or ''`), with the segments of the virtual root (X-Vhm-Root: a WSGI string, i.e. UTF-8 bytes read
    as latin-1; empty and '.' segments dropped, '..' pops) trimmed when they are a prefix of the names.  None: not applicable"""
    try:
        texts, keys = [], []
        for n in case['names']:
            py = _py_pval(n)
            if not py:
                texts.append('')
                keys.append('')
            else:
                texts.append(_ptext(n))
                keys.append(_ptext(n) if n[0] == 's' else None)      # only a str name can equal a header segment
        v = case.get('vroot')
        if v is not None:
            t = v.encode('latin-1').decode('utf-8')
            vt = []
            for seg in t.split('/'):
                if not seg or seg == '.':
                    continue
                if seg == '..':
                    if vt:
                        vt.pop()
                else:
                    vt.append(seg)
            if vt and keys[:len(vt)] == vt:
                texts = texts[len(vt):]
    except (UnicodeDecodeError, UnicodeEncodeError):
        return None
    return [''] + texts + ['']


def _path_relations(case, req, cfg, h, ov, els, U):
    """two declarative relations the parsed-URL judge cannot see, observed on the implementation:
    (1) the path of the URL with extra elements is the path of the same URL without them, one trailing empty segment
        dropped, followed by exactly the supplied elements (an extra empty segment is an element nobody supplied);
    (2) the route's part of the path, percent-decoded as a whole ([text], returned second), which the judge compares with
        Coq's spec_path_text: literal, value, literal, .., star value for the values the caller supplied
    -> (relation failures, [decoded route part] | [])"""
    if h == 'static' and (_static_hit(case)[0] or [0, 0, 0, 1])[3] is not None:
        return [], []
    base_url = U
    if els:
        ub, _pb = _observe(dict(case, elements=[]), req, cfg, h, ov, [])
        if ub[0] != 0:
            return ['the same call without the extra elements fails', ub], []
        base_url = ub[1]
    rp, rb = _route_part(case, U), _route_part(case, base_url)
    if rp is None or rb is None:
        return [], []
    if els:
        try:
            want = [_ptext(x) for x in case['elements']]
        except UnicodeDecodeError:
            return [], []
        base = rb.split('/')
        if base and base[-1] == '':
            base = base[:-1]
        got = [_unq(x) for x in rp.split('/')]
        exp = [_unq(x) for x in base] + want
        if got != exp:
            return ['path segments with the extra elements are %r, without them %r + the elements %r' % (got, base, want)], []
    if h == 'resource' and case.get('rn') is None:
        exp = _expected_resource_segments(case)
        got = [_unq(x) for x in rb.split('/')]
        if exp is not None and got != exp:
            return ['the resource part of the path has the segments %r; the lineage names below the virtual root are %r'
                    % (got, exp)], []
    if _path_spec_wire(case) is None:
        return [], []
    d = _unq(rb)
    return [], [d if d is not None else '<not UTF-8>']


def _observe(case, req, cfg, h, ov, els):
    fn = case.get('via') == 'function'
    if fn:
        import pyramid.url as PU
    if h == 'route':
        def args():
            kw = {k: _py_kwval(v) for k, v in case['kw']}
            kw.update(_ov_kwargs(ov, '_'))
            return kw
        if fn:
            u = _call(lambda: PU.route_url(case['route_name'], req, *els, **args()))
            p = _call(lambda: PU.route_path(case['route_name'], req, *els, **args()))
        else:
            u = _call(lambda: req.route_url(case['route_name'], *els, **args()))
            p = _call(lambda: req.route_path(case['route_name'], *els, **args()))
    elif h == 'resource':
        ob = _Res('', None)
        for nm in case['names']:
            ob = _Res(_py_pval(nm), ob)
        def args():
            kw = _ov_kwargs(ov, '')
            rn = case.get('rn')
            if rn is not None:
                kw['route_name'] = rn['route_name']
                if rn['rem_given']:
                    kw['route_remainder_name'] = rn['rem']
                if rn['kw'] is not None:
                    kw['route_kw'] = {k: _py_kwval(v) for k, v in rn['kw']}
            return kw
        u = _call((lambda: PU.resource_url(ob, req, *els, **args())) if fn else (lambda: req.resource_url(ob, *els, **args())))
        p = _call(lambda: req.resource_path(ob, *els, **args()))       # pyramid.url has no resource_path function
    elif h == 'static':
        def args():
            kw = {k: _py_kwval(v) for k, v in case['kw']}
            kw.update(_ov_kwargs(ov, '_'))
            return kw
        if fn:
            u = _call(lambda: PU.static_url(case['path'], req, **args()))
            p = _call(lambda: PU.static_path(case['path'], req, **args()))
        else:
            u = _call(lambda: req.static_url(case['path'], **args()))
            p = _call(lambda: req.static_path(case['path'], **args()))
    else:
        def args():
            kw = {k: _py_kwval(v) for k, v in case['kw']}
            kw.update(_ov_kwargs(ov, '_'))
            if case['cur_route_name'] is not None:
                kw['_route_name'] = case['cur_route_name']
            return kw
        if fn:
            u = _call(lambda: PU.current_route_url(req, *els, **args()))
            p = _call(lambda: PU.current_route_path(req, *els, **args()))
        else:
            u = _call(lambda: req.current_route_url(*els, **args()))
            p = _call(lambda: req.current_route_path(*els, **args()))
    return u, p


# ------------------------------------------------------------ judging
UNRESERVED = set('abcdefghijklmnopqrstuvwxyzABCDEFGHIJKLMNOPQRSTUVWXYZ0123456789-._~')
PCHAR = UNRESERVED | set("!$&'()*+,;=") | set(':@%')
PATH_CHARS = PCHAR | {'/'}
QUERY_CHARS = PCHAR | {'/', '?'}
_PCT = re.compile(r'%(?![0-9A-Fa-f]{2})')


def _unq(s):
    from urllib.parse import unquote
    try:
        return unquote(s, errors='strict')
    except UnicodeDecodeError:
        return None


def _tail_ok(rest, sp, lead=''):
    """rest = path[?query][#fragment] as produced after the application URL.  -> None or a reason"""
    from urllib.parse import urlsplit, parse_qsl
    auth, els, query, anchor, script = sp[:5]
    try:
        s = urlsplit('x://h' + lead + rest)
    except ValueError:
        return 'unsplittable'
    if s.netloc != 'h':
        return 'authority leaked: %r' % s.netloc
    for part, allowed, nm in ((s.path, PATH_CHARS, 'path'), (s.query, QUERY_CHARS, 'query'), (s.fragment, QUERY_CHARS, 'fragment')):
        bad = [c for c in part if c not in allowed]
        if bad:
            return 'character %r not allowed in %s' % (bad[0], nm)
        if _PCT.search(part):
            return 'stray %% in %s' % nm
    if anchor:
        if _unq(s.fragment) != anchor[0]:
            return 'anchor decodes to %r' % _unq(s.fragment)
    if query:
        if query[0] == 0:
            if _unq(s.query) != query[1]:
                return 'query decodes to %r' % _unq(s.query)
        else:
            try:
                got = [list(p) for p in parse_qsl(s.query, keep_blank_values=True, errors='strict')]
            except UnicodeDecodeError:
                got = None
            if got != query[1]:
                return 'query pairs decode to %r' % got
    if els and els[0]:
        want = els[0]
        segs = s.path.split('/')
        got = [_unq(x) for x in segs[-len(want):]]
        if len(segs) <= len(want) or got != want:
            return 'elements decode to %r' % got
    return None


def _script_prefix(rest, script):
    """length of the prefix of `rest` that stands for the script name, or None"""
    from urllib.parse import unquote_to_bytes
    want = script.encode('utf-8')
    n = script.count('/')
    # the script name occupies the segments up to its last one
    parts = rest.split('/')
    if len(parts) < n + 1:
        return None
    pre = '/'.join(parts[:n + 1])
    try:
        if unquote_to_bytes(pre.encode('utf-8')) != want:
            return None
    except Exception:
        return None
    return len(pre)


def judge_gen(case, obs, spec):
    """-> (ok, reason, tag)"""
    from urllib.parse import urlsplit
    u, p = obs[0], obs[1]
    if spec is None or len(spec) not in (8, 9):
        return None, 'no spec', None
    auth, els, query, anchor, script, ext, must, xauth = spec[:8]
    path_text = spec[8] if len(spec) == 9 else []
    if len(obs) > 3 and obs[3]:
        return False, 'the call changed its inputs: %s' % obs[3], 'url'
    if len(obs) > 4 and obs[4]:
        return False, '%s' % (obs[4],), 'url'
    if len(obs) > 5 and obs[5] and path_text and obs[5] != path_text:
        return False, 'the route part of the path decodes to %r, the pattern filled with the supplied values reads %r ' \
            '(spec_path_text)' % (obs[5][0], path_text[0]), 'url'
    if u[0] != 0:
        if must == 1:
            return False, 'no URL produced (%s) although the route exists, every placeholder has a value and every ' \
                'text can be encoded' % (u[1:],), 'url'
        return None, 'no URL produced', None
    U = u[1]
    ov = case['ov']
    if ext:
        # static asset registered under a URL: <that URL> + quoted sub-path (+ query, anchor); overrides do not apply,
        # and static_path returns the same full URL
        if ext[0] == '':
            return None, 'sub-path with empty or dot segments under a URL registration (urljoin normalises)', None
        if not U.startswith(ext[0]):
            return False, 'the result does not start with the registered URL %r' % ext[0], 'url'
        why = _tail_ok(U[len(ext[0]):], spec, lead='/')
        if why is not None:
            return False, 'url form: ' + why, 'url'
        if p != u:
            return False, 'static_path differs from static_url for a URL registration', 'path'
        return True, None, None
    if xauth:
        # the route's pattern is a full URL: its scheme://netloc (port, userinfo) comes first, no script name; *_path is refused
        rest = U[len(xauth[0]):]
        if not U.startswith(xauth[0]) or rest[:1] not in ('/', '?', '#', ''):
            return False, 'the result does not start with the authority of the route pattern %r' % xauth[0], 'url'
        why = _tail_ok(rest, spec)
        if why is not None:
            return False, 'url form: ' + why, 'url'
        return True, None, None
    if ov['app_url'] is not None:
        if not U.startswith(ov['app_url']):
            return False, '_app_url does not come first', 'url'
        rest = U[len(ov['app_url']):]
        has_script = False
    else:
        if auth:
            A = auth[0]
        else:
            try:
                s = urlsplit(U)
            except ValueError:
                return None, 'authority not parseable (IPv6 stream)', None
            A = s.scheme + '://' + s.netloc
            if not s.scheme or '[' in s.netloc:
                return None, 'authority not specified', None
        rest = U[len(A):]
        if not U.startswith(A) or rest[:1] not in ('/', '?', '#', ''):
            return False, 'scheme://authority is not %r' % A, 'url'

        has_script = True
    if has_script:
        k = _script_prefix(rest, script)
        if k is None:
            return False, 'script name part does not decode to %r' % script, 'url'
        if not (rest[k:k + 1] in ('/', '')):
            return False, 'script name not followed by /', 'url'
    why = _tail_ok(rest, spec)
    if why is not None:
        return False, 'url form: ' + why, 'url'
    # path form
    if p[0] != 0:
        return False, 'path form failed although the url form succeeded', 'path'
    P = p[1]
    if has_script:
        if P != rest:
            return False, 'path form %r is not the url form minus %r' % (P, U[:len(U) - len(rest)]), 'path'
    else:
        k = _script_prefix(P, script)
        if k is None or P[k:] != rest:
            return False, 'path form %r is not <script name> + %r' % (P, rest), 'path'
        bad = [c for c in P[:k] if c not in PATH_CHARS]
        if bad:
            return False, 'character %r not allowed in path' % bad[0], 'path'
    return True, None, None


def equiv(case, obs, model):
    """obs[5] (the decoded route part) is observed on the implementation only; otherwise:
    urlsplit also validates the text between '[' and ']' as an IP literal (ipaddress module); that check
    is not modelled: a ValueError there is accepted when the model sees a bracketed host"""
    try:
        if case['kind'] == 'join':
            return obs == [1, 4] and '[' in case['base'] + case['ref'] and ']' in case['base'] + case['ref']
        if case['kind'] == 'dec':
            return obs == [[1, 4], []] and model[0][0] == 0 and '[' in model[0][2] and ']' in model[0][2]
        if case['kind'] == 'gen' and obs[:5] == model[:5]:
            return True
        if case['kind'] == 'gen':
            return obs[:2] == model[:2] and obs[3:5] == model[3:5] and obs[2] == [1] and model[2][0] == 0 and '[' in model[2][2] and ']' in model[2][2]
    except Exception:
        return False
    return False


def spec_holds(case, obs, spec):
    if case['kind'] != 'gen':
        return None
    return judge_gen(case, obs, spec)[0]


def explain(item):
    if item['case'].get('kind') != 'gen':
        return None
    try:
        return judge_gen(item['case'], item['impl'], item['spec'])[1]
    except Exception as e:
        return 'judge failed: %r' % e


def _needs_quote(s):
    return any(c not in UNRESERVED and c != '/' for c in s)


def classify(case, obs, spec):
    """known deviations, recognised exactly"""
    if case.get('kind') != 'gen':
        return None
    ok, why, tag = judge_gen(case, obs, spec)
    if ok is not False:
        return None
    u, p = obs[0], obs[1]
    script = case['env']['script_name']
    if tag == 'path' and p[0] == 0 and u[0] == 0 and _needs_quote(script):
        # the path form is the url form's tail with the script name left raw
        from urllib.parse import quote
        q = quote(script.encode('utf-8'), safe="~!$&'()*+,;=:@/")
        if q != script and q in u[1]:
            i = u[1].index(q)
            if p[1] == script + u[1][i + len(q):]:
                return 'C17-resource-path-raw-script-name' if case['helper'] == 'resource' else 'C17-path-raw-script-name'
    if tag == 'url' and case['helper'] == 'static' and why and why.startswith('the result does not start with the registered URL'):
        from urllib.parse import urlparse, uses_relative
        r, sub = _static_hit(case)
        if r is not None and r[3] is not None and u[0] == 0:
            from urllib.parse import quote
            q = quote(sub)
            if urlparse(r[3]).scheme not in uses_relative and not sub.startswith('/') and u[1].startswith(q):
                return 'C17-static-external-unknown-scheme'      # urljoin returned the reference alone
            if sub.startswith('/') and urlparse(r[3]).scheme in uses_relative and ':' not in q:
                return 'C17-static-external-subpath-escapes-base'
    if tag == 'url' and case.get('warm') and why and 'elements decode' in why:
        # equal-as-key elements answered from the lru_cache of _join_elements
        def key(v):
            return ('n', v[1]) if v[0] in ('i', 'n') else (v[0], json.dumps(v[1]))
        for w in case['warm']:
            if [key(x) for x in w] == [key(x) for x in case['elements']] and w != case['elements']:
                return 'C17-join-elements-cache-conflates-equal-keys'
    return None


def nontrivial(case, obs):
    if case['kind'] != 'gen':
        return False
    if obs[0][0] != 0:
        return False
    texts = [case['env']['script_name']]
    for v in case.get('elements', []):
        texts.append(str(_py_pval(v)) if v[0] != 'b' else bytes(v[1]).decode('latin-1'))
    ov = case['ov']
    if ov['query'] is not None:
        texts.append(json.dumps(ov['query']))
    if ov['anchor'] is not None:
        texts.append(json.dumps(ov['anchor']))
    if any(_needs_quote(t) for t in texts):
        return True
    if any(ov[f] is not None for f in ('app_url', 'scheme', 'host', 'port')):
        return True
    return any('{' in p for _n, p in case.get('routes', []))


def kinds(case, obs):
    k = case['kind']
    if k != 'gen':
        return [k]
    out = ['helper-' + case['helper']]
    u, p = obs[0], obs[1]
    out.append('url-ok' if u[0] == 0 else 'url-err-%s' % u[1] if u[0] == 1 else 'url-exc')
    out.append('path-ok' if p[0] == 0 else 'path-err-%s' % p[1] if p[0] == 1 else 'path-exc')
    ov = case['ov']
    out.append('ov-' + ''.join(f[0] for f in ('app_url', 'scheme', 'host', 'port') if ov[f] is not None) if
               any(ov[f] is not None for f in ('app_url', 'scheme', 'host', 'port')) else 'ov-none')
    out.append('query-' + (ov['query'][0] if ov['query'] is not None else 'absent'))
    out.append('anchor-' + (ov['anchor'][0] if ov['anchor'] is not None else 'absent'))
    out.append('elements-%d' % min(3, len(case.get('elements', []))))
    out.append('script-' + ('empty' if not case['env']['script_name'] else
                            'quoted' if _needs_quote(case['env']['script_name']) else 'plain'))
    out.append('host-' + ('none' if case['env']['http_host'] is None else 'port' if ':' in case['env']['http_host'] else 'bare'))
    if case.get('warm'):
        out.append('warm-cache')
    if case.get('warm_q'):
        out.append('warm-query')
    if case.get('pre_envs'):
        out.append('request-history')
    if case.get('via') == 'function':
        out.append('via-module-functions')
    if case.get('pre_calls'):
        out.append('call-history')
    if case.get('late'):
        out.append('late-registration')
    blob = json.dumps([case.get('elements'), case.get('kw'), ov['query'], ov['anchor']])
    if '["x", ' in blob:
        out.append('value-other-object')
    if '"iter"]' in blob or '"gen"]' in blob or (ov['query'] is not None and ov['query'][0] == 'li'):
        out.append('one-shot-iterator')
    if any(ext_parts(pp) is not None for _n, pp in case.get('routes') or []):
        out.append('has-external-route')
    if ov['query'] is not None and ov['query'][0] != 's' and any(
            k[0] == 'n' or (v[0] == 'v' and v[1][0] == 'n') or (v[0] == 'q' and any(x[0] in 'no' for x in v[1]))
            for k, v in ov['query'][1]):
        out.append('query-typed-values')
    if case['helper'] == 'resource':
        out.append('vroot-' + ('none' if case.get('vroot') is None else 'given'))
        if case.get('rn') is not None:
            out.append('resource-route_name')
    if case['helper'] == 'static':
        regs = _static_routes(case)
        hit = [r for r in regs if case['path'].startswith(r[0])]
        out.append('static-' + ('nomatch' if not hit else 'external' if hit[0][3] else 'route'))
    if obs[2] == [1]:
        out.append('unsplittable')
    return out


def describe(case):
    return case
