"""C17 translator: Python ast of the core URL functions -> Gallina definitions gen_*, re-run on every check
(prop.facts) and emitted into coq/Gen/Code_C17.v (a second generated file: it has to import Model/C17.v,
which itself imports Gen/Facts_C17.v).  Proofs/C17_gen.v proves gen_f = model_f once; the proof scripts never
mention the generated text.

Fail-closed: a statement outside the SUBSET, an expression outside the PRIMITIVE TABLE, a typing surprise ->
Problem; the caller records a broken tie and emits the stored fallback text (gen_fallback.json: the
translation of the text the model was written against) so that the Coq files still type-check.

=== CONTROL FLOW (mechanical) ==============================================================================
  block s1; s2; ..       continuation passing: the translation of s1 receives the translation of the rest
  v = e / v += e         substitution (no let): v stands for the term of e from here on.  A FALLIBLE leaf in e
                         (one that may raise: it is a [res]) is sequenced where it stands:  rlet x := leaf in ..
  if c: A else: B        c is taken apart into its ATOMS (and / or / not / elif = nested if give the same tree).
     A, B only assign    PHI-MERGE: every variable assigned in A or B becomes  if c then <value after A> else
                         <value after B>  (types unified: text with None -> option text); if a value is fallible
                         the merged value is a [res] bound once after the if:  rlet v := (if c then .. else ..) in
     otherwise           each branch is followed by its own copy of the rest (loops, return, raise in a branch)
     refinement          inside the branch where `x is None` is false / `if x:` is true, an option text x reads
                         as  oget x ; an atom decided on the path is remembered (needed by .encode / str / split)
  for T in E: B ; rest   (fix loopN (lN : list elem) (carried..) {struct lN} : ret := match lN with
                            [] => <rest> | x :: tN => <B> end) E init..   carried = variables assigned in B that
                         are bound at loop entry (order of first occurrence); end of B / continue = recursive call
                         on the tail with the current values; T = `a, b` binds fst / snd of the element
  return e               Ok e   (or the fallible leaf itself when e is exactly one such leaf)
  raise KeyError(..) / ValueError(..)     Err EKey / Err EVal   (arguments are messages: not modelled)
  try: q = q.items() / except AttributeError: pass      identity (a mapping is represented by its item list)

=== PRIMITIVE TABLE (trusted: each line is a claim about Python / Pyramid / webob semantics) =================
  e = self.environ ; e['wsgi.url_scheme'] e['SERVER_NAME'] e['SERVER_PORT']   e_scheme e, e_server_name e, e_server_port e
  e.get('HTTP_HOST')               e_http_host e : option text
  x is None / x is not None        onone x   (x an option text) ; qv_none v (v a query value)
  if x: / not x                    otruthy x | ttruthy x | truthy x | query_truthy x   by the type of x
  x == 'lit'                       text_eqb x lit   (lit non-empty when x may be None)
  'c' in x                         memN c x         (one character, x text)
  a, b = x.split('c', 1)           a := before c x, b := after c x   ONLY on a path where 'c' in x is true
  str(x)                           x (a text) | pstr x (a value that is neither str nor bytes on this path)
  a + b ; 'lit%s' % x ; f'{a}lit{b}'     ++ on texts
  self._quoted_script_name()       quoted_script_name e   (fallible) ;  self.script_name -> e_script e
  kw.pop('_app_url'|'_scheme'|'_host'|'_port', None)    o_app_url o .. o_port o   (option text; _port is str()-ed)
  kw.pop('_query', '') / kw.pop('_anchor', '')          ov_query o : query / ov_anchor o : pval
  isinstance(q, str)               q_is_str q
  url_quote(x, SAFE)               url_quote SAFE (PStr (q_text x)) (x a query known to be a str) | url_quote SAFE x
                                   SAFE in QUERY_SAFE ANCHOR_SAFE PATH_SAFE -> the regenerated constants
  urlencode(q, doseq=True)         urlencode (q_pairs q)   (q a query known not to be a str)
  request._partial_application_url(s, h, p) / request.application_url     partial_application_url e s h p / application_url e
  v.__class__ ; cls is str / cls is bytes (and `is not`)     is_str v / is_bytes v
  v.encode('utf-8')                utf8_enc (str_text v) ONLY on a path where is_str v is true | utf8_enc t (t a text)
  _url_quote(b, safe=s) / _quote_plus(b, safe=s)   quote s b / quote_plus_bytes s b   (b bytes; a value known to be bytes: bytes_of v)
  quote_via(x)                     quote_via x   (the parameter's default is checked by the facts extractor)
  is_nonstr_iter(v) ; for x in v   qv_iter v ; iteration over qv_items v   (v a query value)
  quote_via(v) in the last branch  quote_via (qv_scalar v)
  kw['_app_url'|'app_url'] = x     o := set_app_url o x
  self.route_url(route_name, *elements, **kw) etc.   the model function of that helper (route_url_x, resource_url_x,
                                   static_url_x, current_route_url_x) on the canonical arguments
  static_path's prelude `if not os.path.isabs(path): if ':' not in path: ..caller_package..`   erased (asset specs are 'pkg:path')
"""
import ast
import json
import os

HERE = os.path.dirname(os.path.abspath(__file__))
FALLBACK = os.path.join(HERE, 'gen_fallback.json')

TEXT, OTEXT, BOOL, PVAL, BYTES, QVAL, QUERY, PAIRS, PVALS, ENVIRON, SELF, REQ, KWD, CLS, ERASED, FUNC, NAME, ELS, TUP, OBJ = (
    'text', 'option text', 'bool', 'pval', 'bytes', 'qval', 'query', 'pairs', 'pvals', 'environ', 'self', 'request',
    'kw', 'cls', 'erased', 'func', 'name', 'elements', 'tuple', 'object')
# round 5: the registry glue of route_url / current_route_url / static_url
REGISTRY, MAPPER, OROUTE, OPREGEN, ONAME, MROUTE, STATICINFO, MATCHDICT, GETDICT, ELSPAIR = (
    'registry', 'routes mapper', 'route or None', 'pregenerator or None', 'route name or None', 'matched route or None',
    'static url info or None', 'matchdict', 'GET', 'elements, kw')
PARSEDURL, OVR = 'urlparse result of the pattern', 'overrides'


def kwd(term, kw='kw', popped=False, empty=False, binds=()):
    """a keyword dictionary: [term] its override part (overrides), aux['kw'] its other keywords (list (text * kwval));
    popped: parse_url_overrides has removed the override keys; empty: a {} nothing was put into yet"""
    return Val(term, KWD, binds, {'kw': kw, 'popped': popped, 'empty': empty})


def kaux(v):
    return v.aux if isinstance(v.aux, dict) else {'kw': 'kw', 'popped': False, 'empty': False}
COQTY = {TEXT: 'text', OTEXT: 'option text', BYTES: 'text', PVAL: 'pval', QVAL: 'qval', QUERY: 'query'}


class Problem(Exception):
    pass


def u(n):
    try:
        return ast.unparse(n).split('\n')[0]
    except Exception:
        return '<%s>' % type(n).__name__


def lit(s):
    return '[' + '; '.join(str(ord(c)) for c in s) + ']%N' if s else '[]'


def par(t):
    return t if (t.isidentifier() or t == '[]' or (t.startswith('[') and t.endswith('%N'))) else '(' + t + ')'


class Val:
    """a value: pure term + the fallible leaves that have to be sequenced before it"""

    def __init__(self, term, ty, binds=(), aux=None):
        self.term, self.ty, self.binds, self.aux = term, ty, list(binds), aux


def wrap(binds, body):
    binds = list(binds)
    if binds and body == 'Ok %s' % binds[-1][0]:        # rlet x := r in Ok x  is  r
        body = binds.pop()[1]
        if body.startswith('(') and body.endswith(')') and not binds:
            return body
    for name, r in reversed(binds):
        body = '(rlet %s := %s in %s)' % (name, r, body)
    return body


# ---- conditions: ('atom', term, refine) | ('not', c) | ('and', [c..]) | ('or', [c..])
def literals(c, pol, out):
    k = c[0]
    if k == 'atom':
        out.append((c, pol))
    elif k == 'not':
        literals(c[1], not pol, out)
    elif (k == 'and' and pol) or (k == 'or' and not pol):
        for x in c[1]:
            literals(x, pol, out)
    return out


def mk_if(c, t, e):
    k = c[0]
    if t == e:
        return t
    if k == 'atom':
        return '(if %s then %s else %s)' % (c[1], t, e)
    if k == 'not':
        return mk_if(c[1], e, t)
    if k == 'and':
        return t if not c[1] else mk_if(c[1][0], mk_if(('and', c[1][1:]), t, e), e)
    if k == 'or':
        return e if not c[1] else mk_if(c[1][0], t, mk_if(('or', c[1][1:]), t, e))
    raise Problem('internal: condition')


ENV_KEYS = {'wsgi.url_scheme': 'e_scheme', 'SERVER_NAME': 'e_server_name', 'SERVER_PORT': 'e_server_port'}
POPS = {'_app_url': ('o_app_url', OTEXT, None), '_scheme': ('o_scheme', OTEXT, None), '_host': ('o_host', OTEXT, None),
        '_port': ('o_port', OTEXT, None), '_query': ('ov_query', QUERY, ''), '_anchor': ('ov_anchor', PVAL, '')}
SAFES = {'QUERY_SAFE': 'query_safe', 'ANCHOR_SAFE': 'anchor_safe', 'PATH_SAFE': 'path_safe',
         'PATH_SEGMENT_SAFE': 'path_segment_safe'}
RAISES = {'KeyError': 'EKey', 'ValueError': 'EVal'}
HELPERS = {   # self.<helper>(...) / request.<helper>(...) in the glue -> model call on the canonical arguments
    'route_url': ('route_url_x c e xs rs %(name)s els %(o)s %(kw)s', ['NAME', '*elements', '**kw']),
    'route_path': ('route_path_x c e xs rs %(name)s els %(o)s %(kw)s', ['NAME', '*elements', '**kw']),
    'resource_url': ('resource_url_x c e rs names els %(o)s vroot rn', ['NAME', '*elements', '**kw']),
    'static_url': ('static_url_x e rs regs %(name)s %(o)s %(kw)s', ['NAME', '**kw']),
    'static_path': ('static_path_x e rs regs %(name)s %(o)s %(kw)s', ['NAME', '**kw']),
    'current_route_url': ('current_route_url_x c e xs rs rname matched md gt els %(o)s %(kw)s', ['*elements', '**kw']),
    'current_route_path': ('current_route_path_x c e xs rs rname matched md gt els %(o)s %(kw)s', ['*elements', '**kw']),
}


class Fn:
    def __init__(self, fn, spec):
        self.fn, self.spec = fn, spec
        self.n = 0

    def fresh(self, base):
        self.n += 1
        return '%s_%d' % (base if base.isidentifier() and base.isascii() else 'x', self.n)

    # ------------------------------------------------------------ entry
    def translate(self):
        fn, spec = self.fn, self.spec
        if not isinstance(fn, ast.FunctionDef):
            raise Problem('not a def')
        if fn.decorator_list:
            raise Problem('decorated: %s' % ', '.join(u(d) for d in fn.decorator_list))
        a = fn.args
        if a.kwonlyargs or a.kw_defaults or getattr(a, 'posonlyargs', []):
            raise Problem('keyword-only / positional-only parameters')
        params = spec['params']
        names = [x.arg for x in a.args] + (['*' + a.vararg.arg] if a.vararg else []) + (['**' + a.kwarg.arg] if a.kwarg else [])
        if len(names) != len(params):
            raise Problem('expected %d parameters, found %s' % (len(params), names))
        if a.kwarg is not None and 'argnames' in spec and [x.arg for x in a.args] != spec['argnames']:
            # a keyword of the caller that equals a positional parameter's name is a TypeError: with **kw the
            # parameter names are part of the calling convention (placeholders are passed as keywords)
            raise Problem('positional parameters %s, expected %s (with **keywords their names are part of the interface)'
                          % ([x.arg for x in a.args], spec['argnames']))
        defaults = [None] * (len(a.args) - len(a.defaults)) + list(a.defaults)
        env = {}
        for i, (nm, (term, ty, dflt)) in enumerate(zip(names, params)):
            star = nm.count('*')
            if star != {ELS: 1, KWD: 2}.get(ty, 0) and not (ty in (KWD, ELS) and star == 0 and spec.get('kw_positional')):
                raise Problem('parameter %s: wrong kind' % nm)
            if i < len(a.args):
                d = defaults[i]
                if dflt == 'nodefault':
                    if d is not None:
                        raise Problem('parameter %s has a default' % nm)
                elif dflt is not Ellipsis:
                    if d is None or not isinstance(d, (ast.Constant, ast.Name)) or \
                            (isinstance(d, ast.Constant) and d.value != dflt) or (isinstance(d, ast.Name) and d.id != dflt):
                        raise Problem('parameter %s: default is not %r' % (nm, dflt))
            env[nm.lstrip('*')] = kwd(term) if ty == KWD else Val(term, ty)
        for nm, (term, ty) in (spec.get('closure') or {}).items():
            if nm in env:
                raise Problem('parameter %s shadows the enclosing binding' % nm)
            env[nm] = Val(term, ty)
        for n in ast.walk(fn):
            if isinstance(n, (ast.Global, ast.Nonlocal, ast.Lambda, ast.ListComp, ast.SetComp, ast.DictComp, ast.GeneratorExp,
                              ast.NamedExpr, ast.Await, ast.Yield, ast.YieldFrom, ast.While, ast.With, ast.Delete)) or \
                    (isinstance(n, (ast.FunctionDef, ast.AsyncFunctionDef, ast.ClassDef)) and n is not fn):
                raise Problem('construct outside the subset: %s' % type(n).__name__)

        def k_end(env2, known):
            raise Problem('control can reach the end of the function without a return')
        return self.block(list(fn.body), env, {}, k_end, None)

    # ------------------------------------------------------------ statements
    def block(self, stmts, env, known, k, loop):
        if not stmts:
            return k(env, known)
        s, rest = stmts[0], stmts[1:]

        def k_next(env2, known2):
            return self.block(rest, env2, known2, k, loop)

        if isinstance(s, ast.Expr) and isinstance(s.value, ast.Constant) and isinstance(s.value.value, str):
            return k_next(env, known)
        if isinstance(s, ast.Pass):
            return k_next(env, known)
        if isinstance(s, ast.Expr) and isinstance(s.value, ast.Call):
            return k_next(self.dict_update(s.value, env, known), known)
        if isinstance(s, ast.Return):
            if s.value is None:
                raise Problem('bare return')
            v = self.ev(s.value, env, known)
            self.check_ret(v, s)
            if len(v.binds) >= 1 and v.binds[-1][0] == v.term:
                return wrap(v.binds[:-1], v.binds[-1][1])
            return wrap(v.binds, 'Ok %s' % par(v.term))
        if isinstance(s, ast.Raise):
            exc = s.exc
            if isinstance(exc, ast.Call) and isinstance(exc.func, ast.Name) and exc.func.id in RAISES and s.cause is None:
                return 'Err %s' % RAISES[exc.func.id]
            raise Problem('raise outside the table: %s' % u(s))
        if isinstance(s, ast.Continue):
            if loop is None:
                raise Problem('continue outside a loop')
            return loop(env, known)
        if isinstance(s, (ast.Assign, ast.AugAssign)):
            env2, binds = self.assign(s, env, known)
            return wrap(binds, k_next(env2, known))
        if isinstance(s, ast.If):
            if self.spec.get('prelude') and self.spec['prelude'](s):
                return k_next(env, known)
            return self.do_if(s, env, known, k_next, loop)
        if isinstance(s, ast.Try):
            return k_next(self.try_items(s, env), known)
        if isinstance(s, ast.For):
            return self.for_loop(s, env, known, k_next)
        raise Problem('statement outside the subset: %s' % u(s))

    def check_ret(self, v, s):
        want = self.spec['ret']
        if want == TUP:
            if v.ty != TUP or v.aux != 3:
                raise Problem('return of a %s where a 3-tuple of texts is expected: %s' % (v.ty, u(s)))
        elif v.ty != want:
            raise Problem('return of a %s where a %s is expected: %s' % (v.ty, want, u(s)))
        if want == OVR and kaux(v)['kw'] != 'kw':
            raise Problem('the returned dictionary lost or gained plain keywords: %s' % u(s))

    def try_items(self, s, env):
        """try: q = q.items() / except AttributeError: pass ;
        try: reg = self.registry / except AttributeError: reg = get_current_registry()"""
        if (len(s.body) == 1 and len(s.handlers) == 1 and not s.orelse and not s.finalbody
                and isinstance(s.handlers[0].type, ast.Name) and s.handlers[0].type.id == 'AttributeError'
                and s.handlers[0].name is None and len(s.handlers[0].body) == 1
                and isinstance(s.body[0], ast.Assign) and isinstance(s.handlers[0].body[0], ast.Assign)):
            a, b = s.body[0], s.handlers[0].body[0]
            if (len(a.targets) == 1 and len(b.targets) == 1 and isinstance(a.targets[0], ast.Name)
                    and isinstance(b.targets[0], ast.Name) and a.targets[0].id == b.targets[0].id
                    and isinstance(a.value, ast.Attribute) and a.value.attr == 'registry' and isinstance(a.value.value, ast.Name)
                    and a.value.value.id in env and env[a.value.value.id].ty in (SELF, REQ)
                    and ast.unparse(b.value) == 'get_current_registry()'):
                env = dict(env)
                env[a.targets[0].id] = Val(env[a.value.value.id].term, REGISTRY)
                return env
        ok = (len(s.body) == 1 and isinstance(s.body[0], ast.Assign) and len(s.handlers) == 1 and not s.orelse
              and not s.finalbody and isinstance(s.handlers[0].type, ast.Name) and s.handlers[0].type.id == 'AttributeError'
              and len(s.handlers[0].body) == 1 and isinstance(s.handlers[0].body[0], ast.Pass))
        if ok:
            a = s.body[0]
            tg, val = a.targets[0], a.value
            ok = (isinstance(tg, ast.Name) and isinstance(val, ast.Call) and isinstance(val.func, ast.Attribute)
                  and val.func.attr == 'items' and not val.args and not val.keywords
                  and isinstance(val.func.value, ast.Name) and val.func.value.id == tg.id
                  and tg.id in env and env[tg.id].ty == PAIRS)
        if not ok:
            raise Problem('try statement outside the table: %s' % u(s))
        return env

    def dict_update(self, call, env, known):
        """newkw.update(self.matchdict) / newkw.update(kw) on a dictionary created by `newkw = {}` in this function.
        matchdict holds placeholder names only (no key starts with '_'): it goes to the plain-keyword part"""
        f = call.func
        if not (isinstance(f, ast.Attribute) and f.attr == 'update' and isinstance(f.value, ast.Name) and len(call.args) == 1
                and not call.keywords and f.value.id in env and env[f.value.id].ty == KWD):
            raise Problem('statement outside the subset: %s' % u(call))
        tgt = env[f.value.id]
        a = kaux(tgt)
        if a['popped'] or tgt.binds or tgt.term != 'c17_ov_empty':
            raise Problem('%s: the target is not a dictionary built from {} in this function' % u(call))
        src = self.ev(call.args[0], env, known)
        env = dict(env)
        if src.ty == MATCHDICT:
            kwterm = src.term if a['empty'] else 'dupdate %s %s' % (par(a['kw']), par(src.term))
            env[f.value.id] = kwd('c17_ov_empty', kwterm, False, False)
            return env
        if src.ty == KWD and not kaux(src)['popped'] and not src.binds and f.value.id != call.args[0].id:
            b = kaux(src)
            kwterm = b['kw'] if a['empty'] else 'dupdate %s %s' % (par(a['kw']), par(b['kw']))
            # the override part of the target is still empty: it becomes the source's
            env[f.value.id] = kwd(src.term, kwterm, False, False)
            return env
        raise Problem('%s: update with a %s' % (u(call), src.ty))

    def assign(self, s, env, known):
        """-> (env', binds to sequence here)"""
        env = dict(env)
        if isinstance(s, ast.AugAssign):
            if not (isinstance(s.op, ast.Add) and isinstance(s.target, ast.Name)):
                raise Problem('augmented assignment outside the subset: %s' % u(s))
            v = self.ev(ast.BinOp(left=ast.Name(id=s.target.id, ctx=ast.Load()), op=ast.Add(), right=s.value), env, known)
            env[s.target.id] = Val(v.term, v.ty)
            return env, v.binds
        if len(s.targets) != 1:
            raise Problem('chained assignment: %s' % u(s))
        tg = s.targets[0]
        if isinstance(tg, ast.Tuple):
            # a, b = x.split('c', 1)
            val = s.value
            if (len(tg.elts) == 2 and all(isinstance(e, ast.Name) for e in tg.elts) and isinstance(val, ast.Call)
                    and isinstance(val.func, ast.Attribute) and val.func.attr == 'split' and len(val.args) == 2
                    and not val.keywords and isinstance(val.args[0], ast.Constant) and isinstance(val.args[0].value, str)
                    and len(val.args[0].value) == 1 and isinstance(val.args[1], ast.Constant) and val.args[1].value == 1):
                x = self.ev(val.func.value, env, known)
                c = ord(val.args[0].value)
                if x.ty != TEXT or x.binds:
                    raise Problem('split of a %s: %s' % (x.ty, u(s)))
                if known.get('memN %d %s' % (c, par(x.term))) is not True:
                    raise Problem('2-tuple unpacking of a split that is not dominated by a true `in` test: %s' % u(s))
                env[tg.elts[0].id] = Val('before %d %s' % (c, par(x.term)), TEXT)
                env[tg.elts[1].id] = Val('after %d %s' % (c, par(x.term)), TEXT)
                return env, []
            val = s.value
            # app_url, qs, anchor = parse_url_overrides(self, kw)
            if (len(tg.elts) == 3 and all(isinstance(e, ast.Name) for e in tg.elts) and len({e.id for e in tg.elts}) == 3
                    and isinstance(val, ast.Call) and isinstance(val.func, ast.Name) and val.func.id == 'parse_url_overrides'
                    and len(val.args) == 2 and not val.keywords and isinstance(val.args[1], ast.Name)):
                r, k = self.ev(val.args[0], env, known), self.ev(val.args[1], env, known)
                if r.ty not in (SELF, REQ) or k.ty != KWD or kaux(k)['popped']:
                    raise Problem('arguments of %s' % u(val))
                x = self.fresh('aqf')
                for e, proj in zip(tg.elts, ('fst (fst %s)', 'snd (fst %s)', 'snd %s')):
                    if e.id in env and env[e.id].ty in (KWD, SELF, REQ, ELS):
                        raise Problem('%s rebinds %s' % (u(s), e.id))
                    env[e.id] = Val(proj % x, TEXT)
                a = kaux(k)
                env[val.args[1].id] = kwd(k.term, a['kw'], True, False)
                return env, k.binds + [(x, 'parse_url_overrides %s %s' % (r.term, par(k.term)))]
            # elements, kw = route.pregenerator(self, elements, kw)
            if (len(tg.elts) == 2 and all(isinstance(e, ast.Name) for e in tg.elts) and isinstance(val, ast.Call)
                    and isinstance(val.func, ast.Attribute) and val.func.attr == 'pregenerator' and len(val.args) == 3
                    and not val.keywords and all(isinstance(a, ast.Name) for a in val.args)
                    and [e.id for e in tg.elts] == [a.id for a in val.args[1:]]):
                route = self.ev(val.func.value, env, known)
                r, el, k = [self.ev(a, env, known) for a in val.args]
                if route.ty != OROUTE or r.ty != SELF or el.ty != ELS or k.ty != KWD or k.binds or kaux(k)['popped']:
                    raise Problem('arguments of %s' % u(val))
                pre = 'assoc %s xs' % par(route.aux)
                if known.get('onone %s' % par(route.term)) is not False or known.get('onone %s' % par(pre)) is not False:
                    raise Problem('%s is not dominated by `route is not None` and `route.pregenerator is not None`' % u(val))
                x = self.fresh('kw')
                a = kaux(k)
                env[val.args[2].id] = kwd(x, a['kw'], False, False)
                return env, [(x, 'c17_ext_pregen %s %s (c17_ext_of %s)' % (r.term, par(k.term), par(pre)))]
            raise Problem('unpacking outside the table: %s' % u(s))
        if isinstance(tg, ast.Subscript):
            # kw['_app_url'] = x
            if (isinstance(tg.value, ast.Name) and tg.value.id in env and env[tg.value.id].ty == KWD
                    and isinstance(tg.slice, ast.Constant) and tg.slice.value == self.spec.get('app_url_key')):
                v = self.ev(s.value, env, known)
                if v.ty != TEXT:
                    raise Problem('%s: a %s' % (u(s), v.ty))
                a = kaux(env[tg.value.id])
                if a['popped']:
                    raise Problem('%s after parse_url_overrides consumed the override keys' % u(s))
                env[tg.value.id] = kwd('set_app_url %s %s' % (par(env[tg.value.id].term), par(v.term)), a['kw'], False, False,
                                       env[tg.value.id].binds)
                return env, v.binds
            # kw['_query'] = self.GET
            if (isinstance(tg.value, ast.Name) and tg.value.id in env and env[tg.value.id].ty == KWD
                    and isinstance(tg.slice, ast.Constant) and tg.slice.value == '_query' and self.spec.get('query_default')):
                v = self.ev(s.value, env, known)
                a = kaux(env[tg.value.id])
                if v.ty != GETDICT or a['popped']:
                    raise Problem('%s: a %s' % (u(s), v.ty))
                env[tg.value.id] = kwd('set_query %s (QPairs %s)' % (par(env[tg.value.id].term), par(v.term)), a['kw'], False, False,
                                       env[tg.value.id].binds)
                return env, []
            raise Problem('item assignment outside the table: %s' % u(s))
        if not isinstance(tg, ast.Name):
            raise Problem('assignment target outside the subset: %s' % u(s))
        if isinstance(s.value, ast.Dict) and not s.value.keys:
            if tg.id in env:
                raise Problem('%s rebinds %s' % (u(s), tg.id))
            env[tg.id] = kwd('c17_ov_empty', '[]', False, True)
            return env, []
        v = self.ev(s.value, env, known)
        if tg.id in env and env[tg.id].ty in (KWD, SELF, REQ, ELS, REGISTRY) and v.ty != env[tg.id].ty:
            raise Problem('%s rebinds %s' % (u(s), tg.id))
        env[tg.id] = Val(v.term, v.ty, aux=v.aux)
        return env, v.binds

    # ------------------------------------------------------------ if
    @staticmethod
    def simple(stmts):
        for s in stmts:
            if isinstance(s, (ast.Assign, ast.AugAssign, ast.Pass)):
                continue
            if isinstance(s, ast.If) and Fn.simple(s.body) and Fn.simple(s.orelse):
                continue
            return False
        return True

    @staticmethod
    def stores(stmts):
        out = []
        for s in stmts:
            for n in ast.walk(s):
                if isinstance(n, ast.Name) and isinstance(n.ctx, ast.Store) and n.id not in out:
                    out.append(n.id)
                if isinstance(n, ast.Subscript) and isinstance(n.ctx, ast.Store) and isinstance(n.value, ast.Name) \
                        and n.value.id not in out:
                    out.append(n.value.id)
        return out

    @staticmethod
    def clause(c, pol):
        """`a and b ..` known false / `a or b ..` known true, over plain (possibly negated) atoms:
        the list of literals of which at least one holds"""
        k = c[0]
        if k == 'not':
            return Fn.clause(c[1], not pol)
        if (k == 'and' and not pol) or (k == 'or' and pol):
            out = []
            for x in c[1]:
                neg = False
                while x[0] == 'not':
                    x, neg = x[1], not neg
                if x[0] != 'atom':
                    return None
                out.append((x, (not pol) if neg else pol))
            return out
        return None

    def refine(self, env, known, c, pol):
        env, known = dict(env), dict(known)
        cl = self.clause(c, pol)
        clauses = list(known.get('__clauses__', [])) + ([cl] if cl else [])
        known['__clauses__'] = clauses
        todo = literals(c, pol, [])
        # unit propagation: a clause all of whose other literals are known false decides its last one
        changed = True
        while changed:
            changed = False
            facts = dict((a[1], p) for a, p in todo)
            for cl in clauses:
                open_ = [(a, p) for a, p in cl if (facts.get(a[1], known.get(a[1])) is None)]
                sat = any(facts.get(a[1], known.get(a[1])) is p for a, p in cl)
                if not sat and len(open_) == 1:
                    todo.append(open_[0])
                    changed = True
        for (atom, p) in todo:
            known[atom[1]] = p
            r = atom[2]
            if r is not None:
                var, kind = r
                notnone = (kind == 'none' and not p) or (kind == 'truthy' and p)
                if notnone and var in env and env[var].ty == OTEXT:
                    env[var] = Val('oget %s' % par(env[var].term), TEXT)
                if notnone and var in env and env[var].ty == ONAME:
                    env[var] = Val('oget %s' % par(env[var].term), NAME)
        return env, known

    def run_simple(self, stmts, env, known):
        """straight-line assignments and nested simple ifs -> env with Val's that may carry binds"""
        for s in stmts:
            if isinstance(s, ast.Pass):
                continue
            if isinstance(s, ast.If):
                env = self.merge_if(s, env, known)
                continue
            env2, binds = self.assign(s, env, known)
            # keep the binds attached to the assigned variable(s)
            changed = [k for k in env2 if k not in env or env2[k] is not env[k]]
            if binds:
                if len(changed) != 1:
                    raise Problem('fallible right-hand side in a multiple assignment: %s' % u(s))
                v = env2[changed[0]]
                env2[changed[0]] = Val(v.term, v.ty, binds, v.aux)
            env = env2
        return env

    def unify(self, a, b, what):
        tys = {a.ty, b.ty}
        if len(tys) == 1:
            return a.ty, a.term, b.term
        if tys == {TEXT, OTEXT}:
            return OTEXT, (a.term if a.ty == OTEXT else 'Some %s' % par(a.term)), (b.term if b.ty == OTEXT else 'Some %s' % par(b.term))
        if tys == {PVAL, BYTES}:
            # a value left as it is on the path where it is known to be bytes
            fix = lambda v: v.term if v.ty == BYTES else 'bytes_of %s' % par(v.term)
            for v in (a, b):
                if v.ty == PVAL and v.aux != 'known-bytes':
                    raise Problem('%s: a pval that is not known to be bytes is merged with bytes' % what)
            return BYTES, fix(a), fix(b)
        raise Problem('%s has type %s on one branch and %s on the other' % (what, a.ty, b.ty))

    def merge_if(self, s, env, known):
        c = self.cond(s.test, env, known)
        envT, knownT = self.refine(env, known, c, True)
        envE, knownE = self.refine(env, known, c, False)
        rT = self.run_simple(list(s.body), envT, knownT)
        rE = self.run_simple(list(s.orelse), envE, knownE)
        out = dict(env)
        for v in self.stores(list(s.body) + list(s.orelse)):
            if v not in rT or v not in rE:
                out.pop(v, None)         # assigned on one branch only and unbound before: unbound afterwards
                continue
            a, b = rT[v], rE[v]
            # "known bytes": the untouched value on the branch where `cls is bytes` holds
            for val, kn in ((a, knownT), (b, knownE)):
                if val.ty == PVAL and kn.get('is_bytes %s' % par(val.term)) is True:
                    val.aux = 'known-bytes'
            try:
                ty, ta, tb = self.unify(a, b, v)
            except Problem as e:
                out[v] = Val(str(e), 'conflict')      # reading it later is a Problem
                continue
            aux = None
            if ty in (KWD, OROUTE, OPREGEN):
                if a.aux != b.aux:
                    out[v] = Val('%s: the two branches leave different dictionaries behind' % v, 'conflict')
                    continue
                aux = a.aux
            if not a.binds and not b.binds:
                out[v] = Val(mk_if(c, ta, tb), ty, aux=aux)
            else:
                x = self.fresh(v)
                out[v] = Val(x, ty, [(x, mk_if(c, wrap(a.binds, 'Ok %s' % par(ta)), wrap(b.binds, 'Ok %s' % par(tb))))], aux)
        return out

    def do_if(self, s, env, known, k_next, loop):
        if self.simple(s.body) and self.simple(s.orelse):
            env2 = self.merge_if(s, env, known)
            binds, lets = [], []
            for v in self.stores(list(s.body) + list(s.orelse)):
                if v in env2 and env2[v].binds:
                    binds += env2[v].binds
                    env2[v] = Val(env2[v].term, env2[v].ty, aux=env2[v].aux)
                elif v in env2 and env2[v].ty in COQTY and env2[v].term.startswith('(if '):
                    x = self.fresh(v)              # a merged value is named once (no textual blow-up)
                    lets.append((x, env2[v].term))
                    env2[v] = Val(x, env2[v].ty)
            body = wrap(binds, k_next(env2, known))
            for x, t in reversed(lets):
                body = '(let %s := %s in\n   %s)' % (x, t, body)
            return body
        c = self.cond(s.test, env, known)
        envT, knownT = self.refine(env, known, c, True)
        envE, knownE = self.refine(env, known, c, False)
        leavesT, leavesE = self.leaves(s.body), self.leaves(s.orelse)
        kT = (lambda e2, k2: k_next(e2, k2)) if leavesE else (lambda e2, k2: k_next(self.unrefine(env, e2, s.body), known))
        kE = (lambda e2, k2: k_next(e2, k2)) if leavesT else (lambda e2, k2: k_next(self.unrefine(env, e2, s.orelse), known))
        t = self.block(list(s.body), envT, knownT, kT, loop)
        e = self.block(list(s.orelse), envE, knownE, kE, loop)
        return mk_if(c, t, e)

    @staticmethod
    def leaves(stmts):
        """control never reaches the end of the block"""
        if not stmts:
            return False
        last = stmts[-1]
        if isinstance(last, (ast.Raise, ast.Return)):
            return True
        return isinstance(last, ast.If) and Fn.leaves(last.body) and Fn.leaves(last.orelse)

    def unrefine(self, env, env2, stmts):
        """after a branch: variables it did not assign read as before the if"""
        st = self.stores(list(stmts))
        out = dict(env2)
        for k in env:
            if k not in st:
                out[k] = env[k]
        return out

    # ------------------------------------------------------------ for
    def for_loop(self, s, env, known, k_rest):
        if s.orelse:
            raise Problem('for .. else')
        it = self.ev(s.iter, env, known)
        if it.binds:
            raise Problem('fallible loop iterable')
        if it.ty == PAIRS:
            elem = 'pval * qval'
        elif it.ty == QVAL:
            if known.get('qv_iter %s' % par(it.term)) is not True:
                raise Problem('loop over a query value that is not known to be iterable: %s' % u(s.iter))
            it = Val('qv_items %s' % par(it.term), PVALS)
            elem = 'pval'
        elif it.ty == PVALS:
            elem = 'pval'
        else:
            raise Problem('loop over a %s: %s' % (it.ty, u(s.iter)))
        self.n += 1
        n = self.n
        f, l, t, x = 'loop%d' % n, 'l%d' % n, 't%d' % n, 'x%d' % n
        body = list(s.body)
        carried = [v for v in self.stores(body) if v in env and env[v].ty in COQTY]
        benv = dict(env)
        binders = []
        for v in carried:
            b = '%s%d' % (v if v.isidentifier() and v.isascii() else 'v', n)
            binders.append((v, b, env[v].ty))
            benv[v] = Val(b, env[v].ty)
        tg = s.target
        if elem == 'pval * qval':
            if not (isinstance(tg, ast.Tuple) and len(tg.elts) == 2 and all(isinstance(e, ast.Name) for e in tg.elts)):
                raise Problem('loop target outside the subset: %s' % u(tg))
            benv[tg.elts[0].id] = Val('fst %s' % x, PVAL)
            benv[tg.elts[1].id] = Val('snd %s' % x, QVAL)
            targets = [tg.elts[0].id, tg.elts[1].id]
        else:
            if not isinstance(tg, ast.Name):
                raise Problem('loop target outside the subset: %s' % u(tg))
            benv[tg.id] = Val(x, PVAL)
            targets = [tg.id]
        for v in targets:
            if v in [c for c, _, _ in binders]:
                raise Problem('loop target %s is also a loop-carried variable' % v)

        def k_continue(env2, known2):
            args = []
            for v, b, ty in binders:
                if env2[v].ty != ty or env2[v].binds:
                    raise Problem('loop-carried variable %s changes type inside the loop' % v)
                args.append(par(env2[v].term))
            return '%s %s' % (f, ' '.join([t] + args))

        # after the loop: carried variables have the values of the binders; body-local names are gone
        nil_env = dict(env)
        for v, b, ty in binders:
            nil_env[v] = Val(b, ty)
        nil = k_rest(nil_env, known)
        cons = self.block(body, benv, known, k_continue, k_continue)
        ret = self.spec['coqret']
        bind = ''.join(' (%s : %s)' % (b, COQTY[ty]) for _, b, ty in binders)
        init = ' '.join([par(it.term)] + [par(env[v].term) for v, _, _ in binders])
        return ('((fix %s (%s : list (%s))%s {struct %s} : %s :=\n   match %s with\n   | [] => %s\n   | %s :: %s => %s\n   end) %s)'
                % (f, l, elem, bind, l, ret, l, nil, x, t, cons, init))

    # ------------------------------------------------------------ conditions
    def cond(self, n, env, known):
        if isinstance(n, ast.BoolOp):
            return ('and' if isinstance(n.op, ast.And) else 'or', [self.cond(v, env, known) for v in n.values])
        if isinstance(n, ast.UnaryOp) and isinstance(n.op, ast.Not):
            return ('not', self.cond(n.operand, env, known))
        if isinstance(n, ast.Compare) and len(n.ops) == 1:
            op, l, r = n.ops[0], n.left, n.comparators[0]
            if isinstance(op, (ast.Is, ast.IsNot)):
                neg = isinstance(op, ast.IsNot)
                if isinstance(r, ast.Constant) and r.value is None:
                    v = self.ev(l, env, known)
                    if v.binds:
                        raise Problem('fallible operand in a test: %s' % u(n))
                    if v.ty == OTEXT:
                        a = ('atom', 'onone %s' % par(v.term), (l.id, 'none') if isinstance(l, ast.Name) else None)
                    elif v.ty == QVAL:
                        a = ('atom', 'qv_none %s' % par(v.term), None)
                    elif v.ty == ONAME:
                        a = ('atom', 'onone %s' % par(v.term), (l.id, 'none') if isinstance(l, ast.Name) else None)
                    elif v.ty in (OROUTE, OPREGEN):
                        a = ('atom', 'onone %s' % par(v.term), None)
                    elif v.ty == STATICINFO:
                        a = ('atom', 'c17_no_static_info %s' % par(v.term), None)
                    elif v.ty == TEXT:
                        raise Problem('`is None` test of a value that cannot be None here: %s' % u(n))
                    else:
                        raise Problem('`is None` of a %s: %s' % (v.ty, u(n)))
                    return ('not', a) if neg else a
                if isinstance(r, ast.Name) and r.id in ('str', 'bytes'):
                    v = self.ev(l, env, known)
                    if v.ty != CLS:
                        raise Problem('`is %s` of a %s: %s' % (r.id, v.ty, u(n)))
                    a = ('atom', '%s %s' % ('is_str' if r.id == 'str' else 'is_bytes', par(v.term)), None)
                    return ('not', a) if neg else a
                raise Problem('identity test outside the table: %s' % u(n))
            if isinstance(op, (ast.Eq, ast.NotEq)):
                if not (isinstance(r, ast.Constant) and isinstance(r.value, str)):
                    raise Problem('comparison outside the table (constant operand second): %s' % u(n))
                v = self.ev(l, env, known)
                if v.binds:
                    raise Problem('fallible operand in a test: %s' % u(n))
                if v.ty == TEXT:
                    a = ('atom', 'text_eqb %s %s' % (par(v.term), lit(r.value)), None)
                elif v.ty == OTEXT and r.value:
                    a = ('atom', 'text_eqb (oget %s) %s' % (par(v.term), lit(r.value)), None)
                else:
                    raise Problem('== on a %s: %s' % (v.ty, u(n)))
                return ('not', a) if isinstance(op, ast.NotEq) else a
            if isinstance(op, (ast.In, ast.NotIn)) and isinstance(l, ast.Constant) and l.value in self.spec.get('kw_keys', {}):
                # '_route_name' in kw / '_query' in kw : is the keyword present
                v = self.ev(r, env, known)
                if v.ty != KWD or v.binds or kaux(v)['popped']:
                    raise Problem('`in` on a %s: %s' % (v.ty, u(n)))
                a = ('not', ('atom', 'onone %s' % par(self.spec['kw_keys'][l.value] % {'o': par(v.term)}), None))
                return ('not', a) if isinstance(op, ast.NotIn) else a
            if isinstance(op, (ast.In, ast.NotIn)):
                if not (isinstance(l, ast.Constant) and isinstance(l.value, str) and len(l.value) == 1):
                    raise Problem('membership test outside the table: %s' % u(n))
                v = self.ev(r, env, known)
                if v.ty != TEXT or v.binds:
                    raise Problem('`in` on a %s: %s' % (v.ty, u(n)))
                a = ('atom', 'memN %d %s' % (ord(l.value), par(v.term)), None)
                return ('not', a) if isinstance(op, ast.NotIn) else a
            raise Problem('comparison operator outside the table: %s' % u(n))
        if isinstance(n, ast.Call) and isinstance(n.func, ast.Name):
            if n.func.id == 'is_nonstr_iter' and len(n.args) == 1 and not n.keywords:
                v = self.ev(n.args[0], env, known)
                if v.ty != QVAL:
                    raise Problem('is_nonstr_iter of a %s: %s' % (v.ty, u(n)))
                return ('atom', 'qv_iter %s' % par(v.term), None)
            if n.func.id == 'isinstance' and len(n.args) == 2 and isinstance(n.args[1], ast.Name) and n.args[1].id == 'str':
                v = self.ev(n.args[0], env, known)
                if v.ty != QUERY:
                    raise Problem('isinstance(.., str) of a %s: %s' % (v.ty, u(n)))
                return ('atom', 'q_is_str %s' % par(v.term), None)
        # truth value
        v = self.ev(n, env, known)
        if v.binds:
            raise Problem('fallible operand in a test: %s' % u(n))
        if v.ty == BOOL:
            return ('atom', v.term, None)
        fn = {OTEXT: 'otruthy', TEXT: 'ttruthy', PVAL: 'truthy', QUERY: 'query_truthy', BYTES: 'ttruthy',
              ELS: 'c17_els_truthy'}.get(v.ty)
        if fn is None:
            raise Problem('truth value of a %s is outside the table: %s' % (v.ty, u(n)))
        return ('atom', '%s %s' % (fn, par(v.term)), (n.id, 'truthy') if isinstance(n, ast.Name) and v.ty == OTEXT else None)

    # ------------------------------------------------------------ expressions
    def ev(self, n, env, known):
        if isinstance(n, ast.Constant):
            if isinstance(n.value, str):
                return Val(lit(n.value), TEXT)
            if n.value is None:
                return Val('None', OTEXT)
            raise Problem('constant outside the table: %s' % u(n))
        if isinstance(n, ast.Name):
            if n.id in env:
                v = env[n.id]
                if v.ty == 'conflict':
                    raise Problem('%s is read after an if that left it with two types (%s)' % (n.id, v.term))
                return Val(v.term, v.ty, v.binds, v.aux)
            if n.id in SAFES:
                return Val(SAFES[n.id], TEXT)
            raise Problem('name %s is unbound here or outside the table' % n.id)
        if isinstance(n, ast.Tuple):
            vs = [self.ev(e, env, known) for e in n.elts]
            if len(vs) == 2 and vs[0].ty == ELS and vs[1].ty == KWD and not vs[0].binds and vs[0].term == 'els' \
                    and not kaux(vs[1])['popped']:
                return Val(vs[1].term, OVR, vs[1].binds, vs[1].aux)       # (elements unchanged, kw)
            if len(vs) != 3 or any(v.ty != TEXT for v in vs):
                raise Problem('tuple outside the table: %s' % u(n))
            return Val('(%s, %s, %s)' % tuple(v.term for v in vs), TUP, sum((v.binds for v in vs), []), aux=3)
        if isinstance(n, ast.BinOp):
            if isinstance(n.op, ast.Add):
                a, b = self.ev(n.left, env, known), self.ev(n.right, env, known)
                if a.ty != TEXT or b.ty != TEXT:
                    raise Problem('+ between a %s and a %s: %s' % (a.ty, b.ty, u(n)))
                return Val(self.cat(a.term, b.term), TEXT, a.binds + b.binds)
            if isinstance(n.op, ast.Mod) and isinstance(n.left, ast.Constant) and isinstance(n.left.value, str) \
                    and n.left.value.endswith('%s') and '%' not in n.left.value[:-2]:
                b = self.ev(n.right, env, known)
                if b.ty != TEXT:
                    raise Problem('%% formatting of a %s: %s' % (b.ty, u(n)))
                return Val(self.cat(lit(n.left.value[:-2]), b.term), TEXT, b.binds)
            raise Problem('operator outside the table: %s' % u(n))
        if isinstance(n, ast.JoinedStr):
            term, binds = None, []
            for part in n.values:
                if isinstance(part, ast.Constant) and isinstance(part.value, str):
                    t = lit(part.value)
                elif isinstance(part, ast.FormattedValue) and part.conversion == -1 and part.format_spec is None:
                    v = self.ev(part.value, env, known)
                    if v.ty != TEXT:
                        raise Problem('f-string field of type %s: %s' % (v.ty, u(n)))
                    t, binds = v.term, binds + v.binds
                else:
                    raise Problem('f-string outside the subset: %s' % u(n))
                term = t if term is None else self.cat(term, t)
            return Val(term if term is not None else '[]', TEXT, binds)
        if isinstance(n, ast.Subscript) and isinstance(n.slice, ast.Constant):
            o = self.ev(n.value, env, known)
            if o.ty == ENVIRON and n.slice.value in ENV_KEYS:
                return Val('%s %s' % (ENV_KEYS[n.slice.value], o.term), TEXT)
            if o.ty == KWD and n.slice.value == '_scheme' and not kaux(o)['popped'] and not o.binds:
                t = 'o_scheme %s' % par(o.term)
                if known.get('onone %s' % par(t)) is not False:
                    raise Problem("%s is not dominated by a true `'_scheme' in kw` test" % u(n))
                return Val('oget %s' % par(t), TEXT)
            raise Problem('subscript outside the table: %s' % u(n))
        if isinstance(n, ast.Attribute):
            o = self.ev(n.value, env, known)
            if o.ty == SELF and n.attr == 'environ':
                return Val(o.term, ENVIRON)
            if o.ty == SELF and n.attr == 'script_name':
                return Val('e_script %s' % o.term, TEXT)
            if o.ty == REQ and n.attr == 'application_url':
                x = self.fresh('app')
                return Val(x, TEXT, [(x, 'application_url %s' % o.term)])
            if o.ty == PVAL and n.attr == '__class__':
                return Val(o.term, CLS)
            if o.ty == PARSEDURL and n.attr == 'scheme':
                return Val('c17_ext_scheme %s' % o.term, TEXT)
            if o.ty == PARSEDURL and n.attr == 'netloc':
                return Val('snd %s' % o.term, TEXT)
            if o.ty == REQ and n.attr == 'scheme':
                return Val('e_scheme %s' % o.term, TEXT)
            if o.ty == OROUTE and n.attr == 'pregenerator':
                if known.get('onone %s' % par(o.term)) is not False:
                    raise Problem('%s where the route may be None' % u(n))
                return Val('assoc %s xs' % par(o.aux), OPREGEN, aux=o.aux)
            if o.ty == SELF and n.attr == 'GET' and self.spec.get('query_default'):
                return Val('gt', GETDICT)
            if o.ty == SELF and n.attr == 'matchdict' and self.spec.get('query_default'):
                return Val('md', MATCHDICT)
            raise Problem('attribute outside the table: %s' % u(n))
        if isinstance(n, ast.Call):
            return self.call(n, env, known)
        raise Problem('expression outside the table: %s' % u(n))

    @staticmethod
    def cat(a, b):
        return '%s ++ %s' % (par(a) if ' ' in a and not a.startswith('[') else a, b if '++' in b and not b.startswith('(') else par(b))

    def call(self, n, env, known):
        f = n.func
        kws = {k.arg: k.value for k in n.keywords}
        if None in kws and not (isinstance(f, ast.Attribute) and (f.attr in HELPERS or f.attr == 'generate')):
            raise Problem('**kwargs call outside the table: %s' % u(n))
        if isinstance(f, ast.Name):
            if f.id == 'str' and len(n.args) == 1 and not kws:
                v = self.ev(n.args[0], env, known)
                if v.ty == TEXT:
                    return v
                if v.ty == PVAL and known.get('is_str %s' % par(v.term)) is False and known.get('is_bytes %s' % par(v.term)) is False:
                    return Val('pstr %s' % par(v.term), TEXT, v.binds)
                raise Problem('str() of a %s (for a pval: only where it is known to be neither str nor bytes): %s' % (v.ty, u(n)))
            if f.id in ('_url_quote', '_quote_plus') and len(n.args) == 1 and list(kws) == ['safe']:
                b, s = self.ev(n.args[0], env, known), self.ev(kws['safe'], env, known)
                if b.ty != BYTES or s.ty != TEXT:
                    raise Problem('%s of a %s: %s' % (f.id, b.ty, u(n)))
                fn = 'quote' if f.id == '_url_quote' else 'quote_plus_bytes'
                return Val('%s %s %s' % (fn, par(s.term), par(b.term)), TEXT, b.binds + s.binds)
            if f.id in env and env[f.id].ty == FUNC and len(n.args) == 1 and not kws:
                v = self.ev(n.args[0], env, known)
                if v.ty == QVAL:
                    if not (known.get('qv_iter %s' % par(v.term)) is False and known.get('qv_none %s' % par(v.term)) is False):
                        raise Problem('%s of a query value that may be a sequence or None: %s' % (f.id, u(n)))
                    arg = 'qv_scalar %s' % par(v.term)
                elif v.ty == PVAL:
                    arg = v.term
                else:
                    raise Problem('%s of a %s: %s' % (f.id, v.ty, u(n)))
                x = self.fresh('q')
                return Val(x, TEXT, v.binds + [(x, '%s %s' % (env[f.id].term, par(arg)))])
            if f.id == 'url_quote' and len(n.args) == 2 and not kws:
                v, s = self.ev(n.args[0], env, known), self.ev(n.args[1], env, known)
                if s.ty != TEXT or s.binds:
                    raise Problem('safe set of %s' % u(n))
                if v.ty == QUERY:
                    if known.get('q_is_str %s' % par(v.term)) is not True:
                        raise Problem('url_quote of a query that is not known to be a str: %s' % u(n))
                    arg = 'PStr (q_text %s)' % par(v.term)
                elif v.ty == PVAL:
                    arg = v.term
                else:
                    raise Problem('url_quote of a %s: %s' % (v.ty, u(n)))
                x = self.fresh('q')
                return Val(x, TEXT, v.binds + [(x, 'url_quote %s %s' % (par(s.term), par(arg)))])
            if f.id == 'urlencode' and len(n.args) == 1 and list(kws) == ['doseq'] and \
                    isinstance(kws['doseq'], ast.Constant) and kws['doseq'].value is True:
                v = self.ev(n.args[0], env, known)
                if v.ty != QUERY or known.get('q_is_str %s' % par(v.term)) is not False:
                    raise Problem('urlencode of a %s / of a query that may be a str: %s' % (v.ty, u(n)))
                x = self.fresh('q')
                return Val(x, TEXT, v.binds + [(x, 'urlencode (q_pairs %s)' % par(v.term))])
            if f.id == '_join_elements' and len(n.args) == 1 and not kws:
                v = self.ev(n.args[0], env, known)
                if v.ty != ELS:
                    raise Problem('_join_elements of a %s: %s' % (v.ty, u(n)))
                x = self.fresh('s')
                return Val(x, TEXT, [(x, 'join_elements_c c %s' % par(v.term))])
            if f.id == 'getattr' and len(n.args) == 3 and not kws and isinstance(n.args[1], ast.Constant) \
                    and isinstance(n.args[2], ast.Constant) and n.args[2].value is None and self.spec.get('query_default'):
                v = self.ev(n.args[0], env, known)
                if v.ty == SELF and n.args[1].value == 'matched_route':
                    return Val('matched', MROUTE)
                if v.ty == MROUTE and n.args[1].value == 'name':
                    return Val(v.term, ONAME)          # the name of the matched route, None when there is none
                raise Problem('getattr outside the table: %s' % u(n))
            raise Problem('call outside the table: %s' % u(n))
        if isinstance(f, ast.Attribute):
            o = self.ev(f.value, env, known)
            if o.ty == REGISTRY and f.attr == 'getUtility' and len(n.args) == 1 and not kws and ast.unparse(n.args[0]) == 'IRoutesMapper':
                return Val(o.term, MAPPER)
            if o.ty == REGISTRY and f.attr == 'queryUtility' and len(n.args) == 1 and not kws \
                    and ast.unparse(n.args[0]) == 'IStaticURLInfo':
                return Val('regs', STATICINFO)
            if o.ty == MAPPER and f.attr == 'get_route' and len(n.args) == 1 and not kws:
                v = self.ev(n.args[0], env, known)
                if v.ty != NAME or v.binds:
                    raise Problem('get_route of a %s: %s' % (v.ty, u(n)))
                return Val('assoc %s rs' % par(v.term), OROUTE, aux=v.term)
            if o.ty == OROUTE and f.attr == 'generate' and len(n.args) == 1 and not kws:
                k = self.ev(n.args[0], env, known)
                if known.get('onone %s' % par(o.term)) is not False:
                    raise Problem('%s where the route may be None' % u(n))
                if k.ty != KWD or k.binds or not kaux(k)['popped']:
                    raise Problem('%s: the dictionary still holds the override keys (or is not the keyword dictionary)' % u(n))
                x = self.fresh('path')
                return Val(x, TEXT, [(x, 'generate (c17_route_of %s) %s' % (par(o.term), par(kaux(k)['kw'])))])
            if o.ty == TEXT and f.attr == 'endswith' and len(n.args) == 1 and not kws and isinstance(n.args[0], ast.Constant) \
                    and isinstance(n.args[0].value, str) and len(n.args[0].value) == 1 and not o.binds:
                return Val('endswith_char %d %s' % (ord(n.args[0].value), par(o.term)), BOOL)
            if o.ty == KWD and f.attr == 'pop' and len(n.args) == 1 and not kws and isinstance(n.args[0], ast.Constant) \
                    and n.args[0].value == '_route_name' and self.spec.get('query_default'):
                if known.get('onone rname') is not False:
                    raise Problem("%s is not dominated by a true `'_route_name' in kw` test" % u(n))
                return Val('oget rname', NAME)
            if o.ty == STATICINFO and f.attr == 'generate' and len(n.args) == 2:
                if known.get('c17_no_static_info %s' % par(o.term)) is not False:
                    raise Problem('%s where the static URL info may be None' % u(n))
                p, r = self.ev(n.args[0], env, known), self.ev(n.args[1], env, known)
                kk = [k for k in n.keywords if k.arg is None]
                if p.ty != NAME or r.ty != SELF or len(kk) != 1 or len(n.keywords) != 1 or not isinstance(kk[0].value, ast.Name):
                    raise Problem('arguments of %s' % u(n))
                k = self.ev(kk[0].value, env, known)
                if k.ty != KWD or kaux(k)['popped']:
                    raise Problem('arguments of %s' % u(n))
                x = self.fresh('u')
                return Val(x, TEXT, k.binds + [(x, 'c17_static_generate %s rs %s %s %s %s'
                                                % (r.term, par(o.term), par(p.term), par(k.term), par(kaux(k)['kw'])))])
            if o.ty == ENVIRON and f.attr == 'get' and len(n.args) == 1 and not kws and isinstance(n.args[0], ast.Constant) \
                    and n.args[0].value == 'HTTP_HOST':
                return Val('e_http_host %s' % o.term, OTEXT)
            if o.ty == KWD and f.attr == 'pop' and len(n.args) == 2 and not kws and isinstance(n.args[0], ast.Constant) \
                    and n.args[0].value in POPS and isinstance(n.args[1], ast.Constant):
                fn, ty, dflt = POPS[n.args[0].value]
                if n.args[1].value != dflt:
                    raise Problem('%s: the default is not %r' % (u(n), dflt))
                return Val('%s %s' % (fn, par(o.term)), ty)
            if o.ty == SELF and f.attr == '_quoted_script_name' and not n.args and not kws:
                x = self.fresh('sn')
                return Val(x, TEXT, [(x, 'quoted_script_name %s' % o.term)])
            if o.ty == REQ and f.attr == '_partial_application_url' and len(n.args) == 3 and not kws:
                vs = [self.ev(a, env, known) for a in n.args]
                if any(v.ty != OTEXT or v.binds for v in vs):
                    raise Problem('arguments of %s' % u(n))
                x = self.fresh('app')
                return Val(x, TEXT, [(x, 'partial_application_url %s %s' % (o.term, ' '.join(par(v.term) for v in vs)))])
            if f.attr == 'encode' and len(n.args) == 1 and not kws and isinstance(n.args[0], ast.Constant) and n.args[0].value == 'utf-8':
                if o.ty == TEXT:
                    arg = o.term
                elif o.ty == PVAL and known.get('is_str %s' % par(o.term)) is True:
                    arg = 'str_text %s' % par(o.term)
                else:
                    raise Problem('.encode of a %s (for a pval: only where it is known to be a str): %s' % (o.ty, u(n)))
                x = self.fresh('b')
                return Val(x, BYTES, o.binds + [(x, 'utf8_enc %s' % par(arg))])
            if o.ty in (SELF, REQ) and f.attr in HELPERS:
                fmt, want = HELPERS[f.attr]
                got = []
                for a in n.args:
                    got.append('*' + a.value.id if isinstance(a, ast.Starred) and isinstance(a.value, ast.Name)
                               else a.id if isinstance(a, ast.Name) else '?')
                kwv = None
                for k in n.keywords:
                    if k.arg is None and isinstance(k.value, ast.Name) and k.value.id in env and env[k.value.id].ty == KWD:
                        got.append('**kw')
                        kwv = env[k.value.id]
                    else:
                        got.append('?')
                # positional names are checked by TYPE (parameters may be renamed)
                shape, name = [], None
                for g in got:
                    if g == '**kw':
                        shape.append('**kw')
                    elif g.startswith('*') and g[1:] in env and env[g[1:]].ty == ELS:
                        shape.append('*elements')
                    elif g in env and env[g].ty == NAME:
                        shape.append('NAME')
                        name = env[g]
                    else:
                        shape.append('?')
                if shape != want or kwv is None or kaux(kwv)['popped'] or (name is not None and name.binds):
                    raise Problem('%s: arguments %s, expected %s' % (u(n), shape, want))
                x = self.fresh('u')
                return Val(x, TEXT, kwv.binds + [(x, fmt % {'o': par(kwv.term), 'kw': par(kaux(kwv)['kw']),
                                                           'name': par(name.term) if name is not None else ''})])
            raise Problem('method call outside the table: %s' % u(n))
        raise Problem('call outside the table: %s' % u(n))


# ---- static_path's prelude: if not os.path.isabs(path): if ':' not in path: package = caller_package(); path = f'..'
def static_prelude(s):
    return ast.unparse(s.test) == 'not os.path.isabs(path)' and not s.orelse and len(s.body) == 1 and \
        isinstance(s.body[0], ast.If) and ast.unparse(s.body[0].test) == "':' not in path" and not s.body[0].orelse and \
        [ast.unparse(x) for x in s.body[0].body] == ['package = caller_package()', "path = f'{package.__name__}:{path}'"]


def no_user_pregenerator(s):
    """ASSUMPTION of the check: add_route is never given a pregenerator of the application's own"""
    return ast.unparse(s.test) == 'original_pregenerator' and not s.orelse and \
        [ast.unparse(x) for x in s.body] == ['elements, kw = original_pregenerator(request, elements, kw)']


# every source function whose control flow is regenerated on every run (coverage map, tools/coverage_map.py)
TRANSLATED = ['pyramid/url.py:URLMethodsMixin._partial_application_url', 'pyramid/url.py:parse_url_overrides',
              'pyramid/encode.py:url_quote', 'pyramid/encode.py:quote_plus', 'pyramid/encode.py:urlencode',
              'pyramid/url.py:URLMethodsMixin.route_path', 'pyramid/url.py:URLMethodsMixin.resource_path',
              'pyramid/url.py:URLMethodsMixin.static_path', 'pyramid/url.py:URLMethodsMixin.current_route_path',
              'pyramid/url.py:URLMethodsMixin.route_url', 'pyramid/url.py:URLMethodsMixin.current_route_url',
              'pyramid/url.py:URLMethodsMixin.static_url',
              'pyramid/url.py:route_url', 'pyramid/url.py:route_path', 'pyramid/url.py:resource_url',
              'pyramid/url.py:static_url', 'pyramid/url.py:static_path', 'pyramid/url.py:current_route_url',
              'pyramid/url.py:current_route_path',
              'pyramid/config/routes.py:RoutesConfiguratorMixin.add_route.external_url_pregenerator']

RES_T = 'res text'

GLUE_SIG = '(c : jcache) (e : env) (rs : list (text * pattern))'
GLUE_SIG_X = '(c : jcache) (e : env) (xs : extinfo) (rs : list (text * pattern))'
STATIC_SIG = ('(e : env) (rs : list (text * pattern)) (regs : list reg) (path : text) (o : overrides)'
              ' (kw : list (text * kwval)) : res text')
FUNCS = [
    dict(mod='pyramid/url.py', qual='URLMethodsMixin._partial_application_url', gen='gen_partial_application_url', ret=TEXT,
         coqret=RES_T, sig='(e : env) (scheme host port : option text) : res text',
         params=[('e', SELF, 'nodefault'), ('scheme', OTEXT, None), ('host', OTEXT, None), ('port', OTEXT, None)]),
    dict(mod='pyramid/url.py', qual='parse_url_overrides', gen='gen_parse_url_overrides', ret=TUP, coqret='res (text * text * text)',
         sig='(e : env) (o : overrides) : res (text * text * text)', kw_positional=True,
         params=[('e', REQ, 'nodefault'), ('o', KWD, 'nodefault')]),
    dict(mod='pyramid/encode.py', qual='url_quote', gen='gen_url_quote', ret=TEXT, coqret=RES_T,
         sig='(safe : text) (val : pval) : res text', params=[('val', PVAL, 'nodefault'), ('safe', TEXT, Ellipsis)]),
    dict(mod='pyramid/encode.py', qual='quote_plus', gen='gen_quote_plus', ret=TEXT, coqret=RES_T,
         sig='(safe : text) (val : pval) : res text', params=[('val', PVAL, 'nodefault'), ('safe', TEXT, Ellipsis)]),
    dict(mod='pyramid/encode.py', qual='urlencode', gen='gen_urlencode', ret=TEXT, coqret=RES_T,
         sig='(query : list (pval * qval)) : res text',
         params=[('query', PAIRS, 'nodefault'), (None, ERASED, True), ('quote_via', FUNC, 'quote_plus')]),
    dict(mod='pyramid/url.py', qual='URLMethodsMixin.route_path', argnames=['self', 'route_name'], gen='gen_route_path', ret=TEXT, coqret=RES_T,
         sig=GLUE_SIG_X + ' (name : text) (els : list pval) (o : overrides) (kw : list (text * kwval)) : res text',
         app_url_key='_app_url',
         params=[('e', SELF, 'nodefault'), ('name', NAME, 'nodefault'), ('els', ELS, Ellipsis), ('o', KWD, Ellipsis)]),
    dict(mod='pyramid/url.py', qual='URLMethodsMixin.resource_path', argnames=['self', 'resource'], gen='gen_resource_path', ret=TEXT, coqret=RES_T,
         sig=GLUE_SIG + ' (names els : list pval) (o : overrides) (vroot : option text)'
             ' (rn : option (text * text * option (list (text * kwval)))) : res text',
         app_url_key='app_url',
         params=[('e', SELF, 'nodefault'), ('resource', NAME, 'nodefault'), ('els', ELS, Ellipsis), ('o', KWD, Ellipsis)]),
    dict(mod='pyramid/url.py', qual='URLMethodsMixin.static_path', argnames=['self', 'path'], gen='gen_static_path', ret=TEXT, coqret=RES_T,
         sig='(e : env) (rs : list (text * pattern)) (regs : list reg) (path : text) (o : overrides)'
             ' (kw : list (text * kwval)) : res text',
         app_url_key='_app_url', prelude=static_prelude,
         params=[('e', SELF, 'nodefault'), ('path', NAME, 'nodefault'), ('o', KWD, Ellipsis)]),
    dict(mod='pyramid/url.py', qual='URLMethodsMixin.current_route_path', argnames=['self'], gen='gen_current_route_path', ret=TEXT, coqret=RES_T,
         sig=GLUE_SIG_X + ' (rname matched : option text) (md : list (text * kwval)) (gt : list (pval * qval))'
             ' (els : list pval) (o : overrides) (kw : list (text * kwval)) : res text',
         app_url_key='_app_url',
         params=[('e', SELF, 'nodefault'), ('els', ELS, Ellipsis), ('o', KWD, Ellipsis)]),
    # ---- round 5: the helpers themselves and the function forms of pyramid.url
    dict(mod='pyramid/url.py', qual='URLMethodsMixin.route_url', argnames=['self', 'route_name'], gen='gen_route_url', ret=TEXT, coqret=RES_T,
         sig=GLUE_SIG_X + ' (name : text) (els : list pval) (o : overrides) (kw : list (text * kwval)) : res text',
         params=[('e', SELF, 'nodefault'), ('name', NAME, 'nodefault'), ('els', ELS, Ellipsis), ('o', KWD, Ellipsis)]),
    dict(mod='pyramid/url.py', qual='URLMethodsMixin.current_route_url', argnames=['self'], gen='gen_current_route_url', ret=TEXT, coqret=RES_T,
         sig=GLUE_SIG_X + ' (rname matched : option text) (md : list (text * kwval)) (gt : list (pval * qval))'
             ' (els : list pval) (o : overrides) (kw : list (text * kwval)) : res text',
         query_default=True, kw_keys={'_route_name': 'rname', '_query': 'o_query %(o)s'},
         params=[('e', SELF, 'nodefault'), ('els', ELS, Ellipsis), ('o', KWD, Ellipsis)]),
    dict(mod='pyramid/url.py', qual='URLMethodsMixin.static_url', argnames=['self', 'path'], gen='gen_static_url', ret=TEXT, coqret=RES_T,
         sig=STATIC_SIG, prelude=static_prelude,
         params=[('e', SELF, 'nodefault'), ('path', NAME, 'nodefault'), ('o', KWD, Ellipsis)]),
    dict(mod='pyramid/url.py', qual='route_url', argnames=['route_name', 'request'], gen='gen_fn_route_url', ret=TEXT, coqret=RES_T,
         sig=GLUE_SIG_X + ' (name : text) (els : list pval) (o : overrides) (kw : list (text * kwval)) : res text',
         params=[('name', NAME, 'nodefault'), ('e', REQ, 'nodefault'), ('els', ELS, Ellipsis), ('o', KWD, Ellipsis)]),
    dict(mod='pyramid/url.py', qual='route_path', argnames=['route_name', 'request'], gen='gen_fn_route_path', ret=TEXT, coqret=RES_T,
         sig=GLUE_SIG_X + ' (name : text) (els : list pval) (o : overrides) (kw : list (text * kwval)) : res text',
         params=[('name', NAME, 'nodefault'), ('e', REQ, 'nodefault'), ('els', ELS, Ellipsis), ('o', KWD, Ellipsis)]),
    dict(mod='pyramid/url.py', qual='resource_url', argnames=['resource', 'request'], gen='gen_fn_resource_url', ret=TEXT, coqret=RES_T,
         sig=GLUE_SIG + ' (names els : list pval) (o : overrides) (vroot : option text)'
             ' (rn : option (text * text * option (list (text * kwval)))) : res text',
         params=[('resource', NAME, 'nodefault'), ('e', REQ, 'nodefault'), ('els', ELS, Ellipsis), ('o', KWD, Ellipsis)]),
    dict(mod='pyramid/url.py', qual='static_url', argnames=['path', 'request'], gen='gen_fn_static_url', ret=TEXT, coqret=RES_T, sig=STATIC_SIG,
         prelude=static_prelude, params=[('path', NAME, 'nodefault'), ('e', REQ, 'nodefault'), ('o', KWD, Ellipsis)]),
    dict(mod='pyramid/url.py', qual='static_path', argnames=['path', 'request'], gen='gen_fn_static_path', ret=TEXT, coqret=RES_T, sig=STATIC_SIG,
         prelude=static_prelude, params=[('path', NAME, 'nodefault'), ('e', REQ, 'nodefault'), ('o', KWD, Ellipsis)]),
    dict(mod='pyramid/url.py', qual='current_route_url', argnames=['request'], gen='gen_fn_current_route_url', ret=TEXT, coqret=RES_T,
         sig=GLUE_SIG_X + ' (rname matched : option text) (md : list (text * kwval)) (gt : list (pval * qval))'
             ' (els : list pval) (o : overrides) (kw : list (text * kwval)) : res text',
         params=[('e', REQ, 'nodefault'), ('els', ELS, Ellipsis), ('o', KWD, Ellipsis)]),
    dict(mod='pyramid/url.py', qual='current_route_path', argnames=['request'], gen='gen_fn_current_route_path', ret=TEXT, coqret=RES_T,
         sig=GLUE_SIG_X + ' (rname matched : option text) (md : list (text * kwval)) (gt : list (pval * qval))'
             ' (els : list pval) (o : overrides) (kw : list (text * kwval)) : res text',
         params=[('e', REQ, 'nodefault'), ('els', ELS, Ellipsis), ('o', KWD, Ellipsis)]),
    # the pregenerator closure add_route installs for a route whose pattern is a full URL
    dict(mod='pyramid/config/routes.py', qual='RoutesConfiguratorMixin.add_route.external_url_pregenerator', gen='gen_ext_pregen',
         ret=OVR, coqret='res overrides', sig='(e : env) (els : list pval) (o : overrides) (x : option text * text) : res overrides',
         kw_positional=True, app_url_key='_app_url', prelude=no_user_pregenerator,
         kw_keys={'_app_url': 'o_app_url %(o)s', '_scheme': 'o_scheme %(o)s'},
         closure={'parsed': ('x', PARSEDURL)},
         params=[('e', REQ, 'nodefault'), ('els', ELS, 'nodefault'), ('o', KWD, 'nodefault')]),
]


def find(tree, qual):
    node = tree
    parts = qual.split('.')
    for i, part in enumerate(parts):
        nxt = [c for c in node.body if isinstance(c, (ast.FunctionDef, ast.ClassDef)) and c.name == part]
        if len(nxt) != 1 and i == len(parts) - 1 and isinstance(node, ast.FunctionDef):
            # a closure defined somewhere inside the enclosing function
            nxt = [c for c in ast.walk(node) if isinstance(c, ast.FunctionDef) and c.name == part and c is not node]
        if len(nxt) != 1:
            return None
        node = nxt[0]
    return node


def load_fallback():
    try:
        with open(FALLBACK) as f:
            return json.load(f)
    except (OSError, ValueError):
        return {}


def translate_tree(src_root, write_fallback=False):
    """-> (coq text, problems, summary)"""
    problems, out, summary, fb, new_fb = [], [], {}, load_fallback(), {}
    trees = {}
    for spec in FUNCS:
        gen, body = spec['gen'], None
        if spec['mod'] not in trees:
            try:
                with open(os.path.join(src_root, spec['mod'])) as f:
                    trees[spec['mod']] = ast.parse(f.read())
            except (OSError, SyntaxError) as e:
                trees[spec['mod']] = None
                problems.append('translator: cannot read %s: %s' % (spec['mod'], e))
        tree = trees[spec['mod']]
        if tree is not None:
            fn = find(tree, spec['qual'])
            if fn is None:
                problems.append('translator: %s not found (exactly once)' % spec['qual'])
            else:
                sp = dict(spec)
                # the positional names of NAME parameters are the python names (they may be renamed): map by position
                try:
                    body = Fn(fn, sp).translate()
                except Problem as e:
                    problems.append('translator: %s: %s' % (spec['qual'], e))
                except RecursionError:
                    problems.append('translator: %s: nesting too deep' % spec['qual'])
        if body is None:
            summary[gen] = 'FALLBACK (stored translation of the reference text)'
            body = fb.get(gen)
            if body is None:
                problems.append('translator: no stored fallback for %s' % gen)
                body = 'Err EVal'
        else:
            summary[gen] = 'translated from source (%d characters of Gallina)' % len(body)
            new_fb[gen] = body
        out.append('Definition %s %s :=\n  %s.\n' % (gen, spec['sig'], body))
    if write_fallback:
        with open(FALLBACK, 'w') as f:
            json.dump(new_fb, f, indent=1, sort_keys=True)
    return '\n'.join(out), problems, summary


HEADER = '''(* GENERATED on every run by harness/c17/translate.py from the source under test -- do not edit.
   Control flow translated mechanically; leaves through the primitive table of that file. *)
From Coq Require Import List NArith ZArith Bool.
Import ListNotations.
Require Import Verif.Lib.Wire Verif.Lib.Text Verif.Lib.Utf8 Verif.Lib.Percent Verif.Gen.Facts_C17 Verif.Model.C17 Verif.Model.C17_glue.
Open Scope N_scope.

'''

if __name__ == '__main__':
    import sys
    root = sys.argv[1] if len(sys.argv) > 1 and not sys.argv[1].startswith('--') else '/repo/src'
    coq, problems, summary = translate_tree(root, '--write-fallback' in sys.argv)
    print(coq)
    for p in problems:
        print('PROBLEM:', p)
    print(summary)
