"""C11 -- the public entry points through which an application reaches ACLHelper, other than ACLHelper itself:

  ACLAuthorizationPolicy.permits / .principals_allowed_by_permission   (translated: harness/c11/translate.py)
  request.has_permission -> _get_security_policy -> LegacySecurityPolicy.permits -> (_get_authn_policy,
      _get_authz_policy) -> IAuthorizationPolicy.permits
  pyramid.security.principals_allowed_by_permission -> IAuthorizationPolicy.principals_allowed_by_permission
  pyramid.security.view_execution_permitted -> view.__permitted__ -> policy.permits

The functions of pyramid/security.py on these paths are straight-line registry lookups and delegations.  They are
tied by (a) NAME-BLANKED shape pins (pins_entry.json: parameters and locals are renamed to v0, v1, .. before hashing,
so a harmless rename keeps the pin, any other edit breaks it) and (b) the differential run: every case is also decided
through each of these entry points in a real registry (legacy authentication + ACLAuthorizationPolicy), and each
answer is compared with the regenerated program and judged by the spec.
"""
import ast
import hashlib
import json
import os
import warnings

from harness.common import facts as F

HERE = os.path.dirname(os.path.abspath(__file__))
PINS = os.path.join(HERE, 'pins_entry.json')
# (the security.py routes themselves are TRANSLATED since round 7: harness/c11/translate_entry.py)
ENTRY = {
         # outside the anchor files: what view_execution_permitted finds as view.__permitted__ is made here (the closure
         # `permitted` hands request, context and the view's permission to policy.permits) and copied by preserve_view_attrs
         'pyramid/viewderivers.py': ['secured_view', '_secured_view', 'preserve_view_attrs'],
         # a name with several views: the MultiView's __permitted__ asks the first sub-view whose predicates hold
         'pyramid/config/views.py': ['MultiView.match', 'MultiView.get_views', 'MultiView.__permitted__']}


def blank_shape(node):
    """hash of the docstring-free AST with parameters and assigned locals renamed in order of first occurrence"""
    node = F.strip_doc(node)
    fn = node.body[0]
    local = set()
    for n in ast.walk(fn):
        if isinstance(n, ast.arg):
            local.add(n.arg)
        elif isinstance(n, ast.Name) and isinstance(n.ctx, ast.Store):
            local.add(n.id)
        elif isinstance(n, ast.alias):                  # `from x import Y` inside the function binds Y: keep its name
            local.discard(n.asname or n.name)
    ren = {}

    class R(ast.NodeTransformer):
        def visit_arg(self, n):
            n.arg = ren.setdefault(n.arg, 'v%d' % len(ren))
            return n

        def visit_Name(self, n):
            if n.id in local:
                n.id = ren.setdefault(n.id, 'v%d' % len(ren))
            return n
    R().visit(fn)
    return hashlib.sha1(ast.dump(node).encode()).hexdigest()[:16]


def compute():
    out = {}
    for rel, quals in ENTRY.items():
        m = F.Module('/repo/src', rel)
        out[rel] = {q: blank_shape(m.find(q)) for q in quals}
    return out


def check(src_root, problems):
    with open(PINS) as f:
        pins = json.load(f)
    summary = {}
    for rel, quals in pins.items():
        try:
            m = F.Module(src_root, rel)
        except (OSError, SyntaxError) as e:
            problems.append('cannot parse %s: %s' % (rel, e))
            continue
        for q, want in quals.items():
            node = m.find(q)
            if node is None:
                problems.append('entry point %s:%s no longer exists' % (rel, q))
                continue
            got = blank_shape(node)
            summary['%s:%s (names blanked)' % (rel, q)] = got
            if got != want:
                problems.append('entry point %s:%s changed (%s -> %s, names blanked): it is on the path from the public '
                                'API to the ACL decision' % (rel, q, want, got))
    return summary


# ------------------------------------------------------------ the registry the cases are decided in
class _Authn:
    """legacy authentication policy: the principals are those of the case"""

    def effective_principals(self, request):
        return request._c11_principals            # the container of the case, as it is

    def authenticated_userid(self, request):
        return None

    unauthenticated_userid = authenticated_userid

    def remember(self, request, userid, **kw):
        return []

    def forget(self, request):
        return []


DEFAULT_VIEW_PERM = 'view'       # the permission of the default view (name '') of the World


def _view(context, request):
    return 'ok'


class World:
    def __init__(self, perms, policies=True):
        """policies=False: a registry WITHOUT any security / authentication / authorization policy"""
        with warnings.catch_warnings():
            warnings.simplefilter('ignore')
            from pyramid.config import Configurator
            from pyramid.authorization import ACLAuthorizationPolicy
            from pyramid.request import Request
            from pyramid.threadlocal import manager
            from pyramid import security
            self.policy = ACLAuthorizationPolicy()
            config = Configurator()
            if policies:
                config.set_authentication_policy(_Authn())
                config.set_authorization_policy(self.policy)
            self.config, self.views = config, set()
            config.commit()
            for p in (perms if policies else ()):
                self.ensure_view(p)
            if policies:
                config.add_view(_view, name='', permission=DEFAULT_VIEW_PERM)      # the default view
                config.commit()
        self.registry = config.registry
        self.Request, self.manager, self.security = Request, manager, security

    def ensure_view(self, p):
        """one view named after, and protected by, the permission p"""
        p = str(p)
        if p not in self.views:
            with warnings.catch_warnings():
                warnings.simplefilter('ignore')
                self.config.add_view(_view, name=p, permission=p)
                self.config.commit()
            self.views.add(p)

    def request(self, principals):
        r = self.Request.blank('/')
        r.registry = self.registry
        r._c11_principals = principals
        return r

    def has_permission(self, context, principals, permission):
        return self.request(principals).has_permission(permission, context)

    def has_permission_default(self, context, principals, permission):
        """request.has_permission(permission) WITHOUT a context argument: the request's own context is used"""
        r = self.request(principals)
        r.context = context
        return r.has_permission(permission)

    def view_execution_permitted(self, context, principals, permission, vep=None):
        """vep None: one view protected by `permission`; 'none': a name without any view; 'plain': a view without
        permission; 'multi': a MultiView whose sub-views have request_param predicates (a, b, c) and own permissions"""
        request = self.request(principals)
        if vep is None:
            self.ensure_view(permission)
            name = permission
        elif vep['kind'] == 'default':
            # the `name` argument omitted: the default view ''
            return self.security.view_execution_permitted(context, request)
        elif vep['kind'] == 'none':
            name = 'no-such-view'
        elif vep['kind'] == 'plain':
            name = self.ensure_named('plain-view', [(None, None)])
        else:
            subs = vep['subs']
            name = self.ensure_named('m|' + '|'.join(str(q) for _, q in subs),
                                     [('abc'[i], q) for i, (_, q) in enumerate(subs)])
            qs = '&'.join('%s=1' % 'abc'[i] for i, (ok, _) in enumerate(subs) if ok)
            request = self.Request.blank('/?' + qs)
            request.registry = self.registry
            request._c11_principals = principals
        return self.security.view_execution_permitted(context, request, name=name)

    def ensure_named(self, name, subs):
        """views (request_param, permission) registered under one name, in this order"""
        if name not in self.views:
            with warnings.catch_warnings():
                warnings.simplefilter('ignore')
                for param, perm in subs:
                    kw = {}
                    if param is not None:
                        kw['request_param'] = param
                    if perm is not None:
                        kw['permission'] = perm
                    self.config.add_view(_view, name=name, **kw)
                self.config.commit()
            self.views.add(name)
        return name

    def principals_allowed(self, context, permission):
        self.manager.push({'registry': self.registry, 'request': None})
        try:
            with warnings.catch_warnings():
                warnings.simplefilter('ignore')
                return self.security.principals_allowed_by_permission(context, permission)
        finally:
            self.manager.pop()


class BrokenWorld:
    """stands in for a World whose construction raised: the direct policy object still works, every registry route raises"""

    def __init__(self, exc, policy):
        self.exc, self.policy = exc, policy

    def _fail(self, *a, **kw):
        raise RuntimeError('registry could not be configured: %r' % (self.exc,))

    has_permission = has_permission_default = view_execution_permitted = principals_allowed = ensure_view = _fail


if __name__ == '__main__':
    with open(PINS, 'w') as f:
        json.dump(compute(), f, indent=1, sort_keys=True)
    print(open(PINS).read())
