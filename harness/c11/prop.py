"""C11 -- ACL authorization: first match wins over the lineage, default deny."""
import os
from harness.common import facts as F
from harness.c11 import translate, entry

ID = 'C11'
HERE = os.path.dirname(os.path.abspath(__file__))
CASES = {'quick': 20000, 'thorough': 400000}
PARALLEL = True
RULE = ('random lineages (depth<=6, ACL length<=6, missing/empty ACLs; ACL objects as list/tuple/callable returning a list/'
        'generator method returning a one-shot iterator; permission names incl. proper substrings of each other and every string '
        'constant the anchored code mentions; str-subclass instances as ACE permission / requested permission / principals; permission forms name/list/'
        'tuple/ALL_PERMISSIONS/empty) x principal subsets x permission; non-trivial = at least one ACE in the '
        'lineage matches principal AND permission (so the decision is not the default deny); distinct by full case')
ASSUMPTIONS = ['ACE actions are compared with == against the Allow/Deny constants; principals and permissions are str',
               'a callable __acl__ is modelled by the list it returns (also when it returns a one-shot iterator: the translator '
               'admits at most one iteration over an __acl__ value per path); lineage() is modelled as the __parent__ chain',
               'ACLs are well-formed (every ACE a 3-tuple, permissions a str / iterable of str / ALL_PERMISSIONS): exceptions '
               'raised on malformed ACLs are outside the translated fragment']
TRUSTED = ['translator harness/c11/translate.py: its PRIMITIVE TABLE (which Python leaf expression / idiom / result constructor '
           'means which primitive of coq/Model/C11_base.v) and its mechanical statement-to-term rules; the control flow of '
           'ACLHelper.permits / principals_allowed_by_permission is NOT hand-modelled any more: it is regenerated from the '
           'source on every run and proved equal to the reference model (C11_generated_*_is_model)',
           'primitives of coq/Model/C11_base.v (sets as duplicate-free lists, perm_in, is_allow/is_deny, decision) as models of '
           'the Python operations the table maps to them',
           'public entry points: ACLAuthorizationPolicy is translated (delegation); request.has_permission, LegacySecurityPolicy.permits, '
           'security.principals_allowed_by_permission / view_execution_permitted are name-blanked shape pins + exercised in a real '
           'registry by every case (harness/c11/entry.py)',
           'pyramid.location.lineage, is_nonstr_iter, AllPermissionsList.__contains__, ACLPermitsResult/ACLAllowed/ACLDenied '
           '(shape-pinned, modelled by hand / by the table)']

PRINCIPALS = ['system.Everyone', 'system.Authenticated', 'alice', 'bob', 'g:ed']
PERMS = ['view', 'edit', 'del', 'vi', 'edit_own']      # with proper substrings of each other ('vi' < 'view', 'edit' < 'edit_own')
_POOL = []
# a view registered with this permission is unprotected by design (viewderivers, C05): view_execution_permitted then
# does not consult the ACL decision at all, so that route is not applicable for this one permission name
RESERVED = '__no_permission_required__'
NA = ['not-applicable']


def harvest(src):
    """every short string the anchored code itself knows: module-level NAME = 'literal' of pyramid/security.py and the
    string literals (docstrings excluded) inside the modelled functions/classes.  A name the code could treat specially
    must occur there, so these are used as permission names (requested and inside ACEs) next to the ordinary ones."""
    import ast
    out = []
    try:
        m = F.Module(src, 'pyramid/security.py')
        for st in m.tree.body:
            if isinstance(st, ast.Assign) and isinstance(st.value, ast.Constant) and isinstance(st.value.value, str):
                out.append(st.value.value)
        nodes = [m.find('AllPermissionsList')]
        nodes += [F.Module(src, 'pyramid/util.py').find('is_nonstr_iter')]
        ma = F.Module(src, 'pyramid/authorization.py')
        nodes += [ma.find('ACLHelper'), ma.find('ACLAuthorizationPolicy')]
        for nd in nodes:
            if nd is None:
                continue
            for n in ast.walk(F.strip_doc(nd)):
                if isinstance(n, ast.Constant) and isinstance(n.value, str):
                    out.append(n.value)
    except Exception:
        pass
    res = []
    for x in out:
        if x and len(x) <= 48 and x not in res and x not in PERMS:
            res.append(x)
    return res


def pool():
    if not _POOL:
        from harness.common import build
        _POOL.extend(harvest(build.SRC) or ['__no_permission_required__'])
    return _POOL


def pick_perm(rng):
    return rng.choice(pool()) if rng.random() < 0.12 else rng.choice(PERMS)
FORMS = (False, True, 'gen', 'tuple')     # values of loc['callable']: list / callable->list / generator method / tuple


def facts(src):
    problems = []
    summary = F.check_shapes(src, os.path.join(HERE, 'pins.json'), problems)
    summary.update(entry.check(src, problems))          # name-blanked pins of the pyramid.security entry points
    vals = {}
    try:
        m = F.Module(src, 'pyramid/security.py')
        for n in ('Everyone', 'Authenticated', 'Allow', 'Deny'):
            vals[n] = m.const(n)
            if not isinstance(vals[n], str):
                raise ValueError('%s is not a str literal' % n)
    except Exception as e:
        problems.append('security constants unrecognised: %r' % e)
        vals = {'Everyone': 'system.Everyone', 'Authenticated': 'system.Authenticated', 'Allow': 'Allow', 'Deny': 'Deny'}
    coq = F.HEADER + ''.join('Definition %s : text := %s.\n' % (k.lower(), F.coq_text(v))
                             for k, v in sorted(vals.items()))
    summary.update(vals)
    # the control flow of the two methods, regenerated from the source (harness/c11/translate.py)
    gen, tproblems, tsummary = translate.translate_tree(src)
    problems += tproblems
    summary.update(tsummary)
    coq += ('\n(* ---- regenerated from src/pyramid/authorization.py by harness/c11/translate.py: control flow\n'
            '   translated mechanically, leaves through the primitive table (see that file) ---- *)\n'
            'Require Import Verif.Model.C11_base.\n\n' + gen)
    return {'coq': coq, 'summary': summary, 'problems': problems}


# ------------------------------------------------------------ generation
def gen_perms(rng):
    r = rng.random()
    if r < 0.15:
        return 'ALL'
    if r < 0.40:
        return pick_perm(rng)                         # bare string
    if r < 0.50:
        return {'kind': 'strsub', 'names': [pick_perm(rng)]}      # a single name that is an instance of a str SUBCLASS
    k = rng.choice([0, 1, 1, 2, 2, 3])
    return {'kind': rng.choice(['list', 'tuple']), 'names': [pick_perm(rng) for _ in range(k)]}


def gen_case(rng):
    depth = rng.choice([1, 1, 2, 2, 3, 3, 4, 5, 6])
    lin = []
    for _ in range(depth):
        r = rng.random()
        if r < 0.15:
            lin.append(None)
            continue
        n = rng.choice([0, 1, 1, 2, 2, 3, 4, 6])
        aces = []
        for _ in range(n):
            act = rng.choice(['Allow', 'Allow', 'Deny', 'Deny', 'Deny', 'Allow', 'Other'] if rng.random() < 0.05
                             else ['Allow', 'Deny'])
            aces.append([act, rng.choice(PRINCIPALS), gen_perms(rng)])
        # form of the ACL object: a list, a tuple, a callable returning the list, or a callable written as a
        # generator (returns a fresh ONE-SHOT iterator on every call)
        r = rng.random()
        lin.append({'callable': True if r < 0.15 else 'gen' if r < 0.33 else 'tuple' if r < 0.40 else False, 'aces': aces})
    k = rng.choice([0, 1, 1, 2, 2, 3, 5])
    principals = rng.sample(PRINCIPALS, k)
    # resources that are falsy (an empty dict-like folder): truthiness must not matter
    falsy = [rng.random() < 0.15 for _ in lin]
    # arguments passed as instances of a str subclass (equal to, but not of the exact type of, the plain strings)
    sub = [w for w in ('permission', 'principals') if rng.random() < 0.1]
    return {'lineage': lin, 'principals': principals, 'permission': pick_perm(rng), 'falsy': falsy, 'sub': sub}


def _small_scope():
    """every lineage of depth 1 with an ACL of length <= 2, and of depth 2 with ACLs of length <= 1 (or no
    __acl__), over actions {Allow, Deny} x principals {Everyone, alice} x permission forms {ALL, 'view', [],
    ['view']}, x every subset of {Everyone, alice} as principals, permission 'view'"""
    import itertools
    forms = ['ALL', 'view', {'kind': 'list', 'names': []}, {'kind': 'list', 'names': ['view']}]
    aces = [[a, p, f] for a in ('Allow', 'Deny') for p in ('system.Everyone', 'alice') for f in forms]
    acls1 = [None, []] + [[e] for e in aces]
    acls2 = acls1 + [[e1, e2] for e1 in aces for e2 in aces]
    subsets = [[], ['system.Everyone'], ['alice'], ['alice', 'system.Everyone']]

    def loc(a):
        return None if a is None else {'callable': False, 'aces': a}
    for a in acls2:
        for ps in subsets:
            yield {'lineage': [loc(a)], 'principals': ps, 'permission': 'view', 'falsy': [False]}
    for a in acls1:
        for b in acls1:
            for ps in subsets:
                yield {'lineage': [loc(a), loc(b)], 'principals': ps, 'permission': 'view', 'falsy': [False, False]}


_SCOPE = {'n': 0}


def generate(rng, tier, n):
    if tier == 'thorough':
        for c in _small_scope():
            _SCOPE['n'] += 1
            yield c
    for _ in range(n):
        yield gen_case(rng)


def evidence_extra(stats, tier):
    if tier == 'thorough' and _SCOPE['n'] and not stats.get('violations') and not stats.get('disagreements'):
        return {'exhaustive_subruns': [{'what': _small_scope.__doc__.strip(), 'cases': _SCOPE['n'], 'exhaustive': True}]}
    return {}


def valid(case):
    try:
        if not case['lineage']:
            return False
        if 'falsy' in case and (len(case['falsy']) != len(case['lineage']) or
                                not all(isinstance(b, bool) for b in case['falsy'])):
            return False
        for loc in case['lineage']:
            if loc is None:
                continue
            if loc['callable'] not in FORMS:
                return False
            for a in loc['aces']:
                if len(a) != 3 or not isinstance(a[1], str) or a[1] == '' or a[0] not in ('Allow', 'Deny', 'Other'):
                    return False
                if not (isinstance(a[2], str) and a[2] != '' or isinstance(a[2], dict)):
                    return False
                if isinstance(a[2], dict):
                    if a[2]['kind'] not in ('list', 'tuple', 'strsub') or not all(isinstance(x, str) and x for x in a[2]['names']):
                        return False
                    if a[2]['kind'] == 'strsub' and len(a[2]['names']) != 1:
                        return False
        if not all(w in ('permission', 'principals') for w in case.get('sub', [])):
            return False
        return isinstance(case['permission'], str) and case['permission'] != '' and \
            all(isinstance(p, str) and p for p in case['principals'])
    except Exception:
        return False


# ------------------------------------------------------------ wire
def _perm_wire(p):
    if p == 'ALL':
        return 0
    if isinstance(p, str):
        return [p]
    return list(p['names'])


def to_wire(case):
    lin = []
    for loc in case['lineage']:
        if loc is None:
            lin.append([])
        else:
            lin.append([[[{'Allow': 1, 'Deny': 0}.get(a[0], 2), a[1], _perm_wire(a[2])] for a in loc['aces']]])
    return [lin, list(case['principals']), case['permission']]


def from_wire(case, raw):
    if raw == [['bad']] or len(raw) != 8:
        return {'model': ['MODEL-BAD', raw], 'spec': None}
    dec, allowed, spec_granted, wf, hdec, hallowed, pdec, pallowed = raw
    # the model that is compared with the implementation is the program REGENERATED from the source;
    # the third spec component records whether the hand-written reference model answers the same
    # (always 1 while C11_generated_*_is_model compile)
    # [ACLHelper; ACLAuthorizationPolicy; request.has_permission + security.principals_allowed_by_permission (legacy
    #  policies in a real registry: they end in ACLAuthorizationPolicy); view_execution_permitted]
    model = [dec, sorted(allowed), pdec, sorted(pallowed), pdec, sorted(pallowed),
             NA if case['permission'] == RESERVED else pdec]
    same = 1 if (dec == hdec and sorted(allowed) == sorted(hallowed)) else 0
    return {'model': model, 'spec': [spec_granted, wf, same]}


# ------------------------------------------------------------ implementation
_impl = {}


def setup(tier):
    from pyramid.authorization import ACLHelper, ALL_PERMISSIONS, Allow, Deny
    from pyramid.security import NO_PERMISSION_REQUIRED
    global RESERVED
    RESERVED = NO_PERMISSION_REQUIRED
    _impl.update(helper=ACLHelper(), ALL=ALL_PERMISSIONS, Allow=Allow, Deny=Deny, world=entry.World(PERMS))


class _Loc:
    pass


class _S(str):
    """a str subclass (like a member of a str-mixin Enum): equal to the plain string, of another exact type"""


def _args(case):
    sub = case.get('sub') or []
    ps = [(_S(x) if 'principals' in sub else x) for x in case['principals']]
    p = _S(case['permission']) if 'permission' in sub else case['permission']
    return ps, p


class _EmptyFolder(dict):
    """a container resource without children: falsy, like any empty mapping"""
    __hash__ = object.__hash__


def _build(case):
    locs = []
    falsy = case.get('falsy') or []
    for k, loc in enumerate(case['lineage']):
        o = _EmptyFolder() if (k < len(falsy) and falsy[k]) else _Loc()
        if loc is not None:
            aces = []
            for a in loc['aces']:
                act = {'Allow': _impl['Allow'], 'Deny': _impl['Deny']}.get(a[0], 'Perhaps')
                p = a[2]
                if p == 'ALL':
                    pv = _impl['ALL']
                elif isinstance(p, str):
                    pv = p
                elif p['kind'] == 'strsub':
                    pv = _S(p['names'][0])
                elif p['kind'] == 'tuple':
                    pv = tuple(p['names'])
                else:
                    pv = list(p['names'])
                aces.append(tuple([act, a[1], pv]))
            o._aces = aces
            form = loc['callable']
            if form == 'gen':
                o.__acl__ = (lambda aces=aces: (e for e in aces))     # a fresh one-shot iterator per call
            elif form == 'tuple':
                o.__acl__ = tuple(aces)
            elif form:
                o.__acl__ = (lambda aces=aces: aces)
            else:
                o.__acl__ = aces
        locs.append(o)
    for i, o in enumerate(locs):
        o.__parent__ = locs[i + 1] if i + 1 < len(locs) else None
    return locs


def _dec(r, locs):
    """canonical form of a permits result: [granted] for the default deny, [granted, location index, ACE index]"""
    if not hasattr(r, 'ace'):
        return [1 if r else 0, 'not-an-acl-result']
    if isinstance(r.ace, str):
        return [1 if r else 0]
    d = [i for i, o in enumerate(locs) if o is r.context][0]
    i = [k for k, e in enumerate(locs[d]._aces) if e is r.ace][0]
    return [1 if r else 0, d, i]


def _deciders():
    h, w = _impl['helper'], _impl['world']
    return [lambda c, ps, p: h.permits(c, ps, p),
            lambda c, ps, p: w.policy.permits(c, ps, p),
            lambda c, ps, p: w.has_permission(c, ps, p),
            lambda c, ps, p: w.view_execution_permitted(c, ps, p)]


def _reporters():
    h, w = _impl['helper'], _impl['world']
    return [lambda c, p: h.principals_allowed_by_permission(c, p),
            lambda c, p: w.policy.principals_allowed_by_permission(c, p),
            lambda c, p: w.principals_allowed(c, p)]


def run_impl(case):
    if not _impl:
        setup('quick')
    locs = _build(case)
    decs, sets = [], []
    ps, p = _args(case)
    for f in _deciders():
        try:
            decs.append(_dec(f(locs[0], list(ps), p), locs))
        except Exception as e:
            decs.append(['EXC', type(e).__name__])
    for f in _reporters():
        try:
            sets.append(sorted(str(x) for x in f(locs[0], p)))
        except Exception as e:
            sets.append(['EXC', type(e).__name__])
    if case['permission'] == RESERVED:
        decs[3] = NA
    return [decs[0], sets[0], decs[1], sets[1], decs[2], sets[2], decs[3]]


# ------------------------------------------------------------ judging
def spec_holds(case, obs, spec):
    """Property, for every public entry point: decision = first matching ACE (spec_granted); every reported principal,
    presented with Everyone, is granted (checked against the same entry point of the implementation)."""
    if spec is None:
        return None
    spec_granted, wf = spec[0], spec[1]
    for dec in (obs[0], obs[2], obs[4], obs[6]):
        if dec == NA:
            continue
        if dec and dec[0] == 'EXC':
            return False
        if (dec[0] == 1) != (spec_granted == 1):
            return False
    if wf:
        deciders = _deciders()
        locs = None
        for k, allowed in enumerate((obs[1], obs[3], obs[5])):
            if allowed and allowed[0] == 'EXC':
                return False
            for q in allowed:
                locs = locs or _build(case)
                if not deciders[k](locs[0], [q, 'system.Everyone'], _args(case)[1]):
                    return False
    return True


def nontrivial(case, obs):
    return len(obs[0]) == 3


def kinds(case, obs):
    d = obs[0]
    k = ['allowed' if d[0] == 1 and len(d) == 3 else 'denied-by-ace' if len(d) == 3 else 'default-deny' if d[0] == 0 else 'exc']
    k.append('depth%d' % len(case['lineage']))
    if any(case.get('falsy') or []):
        k.append('has-falsy-resource')
    if case.get('sub'):
        k.append('str-subclass-argument')
    if any(isinstance(a[2], dict) and a[2]['kind'] == 'strsub' for loc in case['lineage'] if loc for a in loc['aces']):
        k.append('has-str-subclass-permission')
    if case['permission'] not in PERMS:
        k.append('permission-name-from-source')
    forms = {loc['callable'] for loc in case['lineage'] if loc is not None}
    for f, name in ((True, 'has-callable-acl'), ('gen', 'has-generator-acl'), ('tuple', 'has-tuple-acl')):
        if f in forms:
            k.append(name)
    k.append('allowed-set-%s' % ('empty' if not obs[1] else 'nonempty'))
    return k


def describe(case):
    return case

TECHNIQUE = ('Coq proof (induction over lineage and ACL) about a Gallina program whose control flow is translated from the Python '
             'source on every run (fail-closed ast translator, leaves through a small primitive table), proved equal to a '
             'hand-written reference model + extracted-program differential correspondence')
LEVEL_TEXT = ('Machine-checked theorems, for lineages and ACLs of any size, stated literally about the program regenerated from '
              'src/pyramid/authorization.py on this run (gen_permits, gen_principals_allowed in coq/Gen/Facts_C11.v): the loop of '
              'ACLHelper.permits equals the declarative first-matching-ACE decision (incl. which ACE decided, default deny, '
              'child-before-ancestor), and every principal in principals_allowed_by_permission is granted when presented with '
              'Everyone. C11_generated_permits_is_model / C11_generated_principals_allowed_is_model prove, by one induction per '
              'loop, that the regenerated program is the hand-written reference model; a semantics-preserving rewrite of the '
              'methods (renamed locals, `if a: if b:` vs `if a and b:`, elif vs nested if, independent tests/statements moved) '
              'regenerates a different term and the same proofs go through, a change of meaning makes them fail. The extracted '
              'regenerated program is run differentially against ACLHelper, through ACLHelper, ACLAuthorizationPolicy, request.has_permission (legacy '
              'policies), security.principals_allowed_by_permission and view_execution_permitted, with ACL objects given as lists, tuples, callables '
              'and generator methods (one-shot iterators).')
LEVEL_NOTE = ('Trusted: Coq kernel; the translator (mechanical control-flow rules + the primitive table in the docstring of '
              'harness/c11/translate.py -- the table is the trusted part; anything outside subset/table is a broken tie, never a '
              'guess); the primitives of Model/C11_base.v; Python harness; lineage(), is_nonstr_iter, AllPermissionsList, the '
              'ACLPermitsResult classes are shape-pinned and modelled (lineage as the __parent__ chain built by the harness). '
              'Callable ACLs are represented by the list they return. The consistency theorem assumes ACE actions are Allow or Deny.')
