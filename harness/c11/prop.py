"""C11 -- ACL authorization: first match wins over the lineage, default deny."""
import os
from harness.common import facts as F
from harness.c11 import translate, entry, skeleton

ID = 'C11'
HERE = os.path.dirname(os.path.abspath(__file__))
CASES = {'quick': 20000, 'thorough': 400000}
PARALLEL = True
RULE = ('random lineages (depth<=6, and 1.5 % deep ones: 120, 1100 and around every integer constant location.py / authorization.py '
        'mention; ACL length<=6, missing/empty ACLs; __acl__ as list/tuple/callable returning a list/generator method '
        'returning a one-shot iterator/callable that calls back into the same helper, policy and registry with other arguments '
        '(also a nested call that fails) while it computes the ACL; the very same ACL object at several levels of one lineage; '
        'found on the instance, on the class or through a property (also a property raising AttributeError); ACEs as tuples or lists, the DENY_ALL constants themselves; the permission field of an ACE as bare str, '
        'str-subclass instance, list/tuple/set/frozenset/dict/keys view/iterable-only object/one-shot generator, the all-permissions '
        'marker of pyramid.authorization, of legacy pyramid.security, a fresh instance, an application subclass, or an object without '
        '__iter__ (int, None, object) or an application object whose __eq__ equals one permission name; permission names incl. proper substrings of each other and every string constant the anchored '
        'code mentions; str-subclass instances as requested permission / principals; principals as list/tuple/set/frozenset; root with '
        '__parent__ = None or without the attribute; falsy resources) x principal subsets x permission, each decided through ACLHelper, '
        'ACLAuthorizationPolicy, request.has_permission (with and without context argument, with and without a security policy), '
        'security.principals_allowed_by_permission (with / without authorization policy), view_execution_permitted (one secured view / '
        'a view without permission / no view / the default view '' with the name argument omitted / a MultiView of sub-views with predicates and permissions of their own); 4 % of the '
        'cases carry one malformed item (__acl__ = None, a falsy callable, an ACE that is not a 3-sequence); 3 % run as a LABELLED TEST with '
        'a second thread using the same helper / policy meanwhile (one GIL schedule each, no proof of thread safety); non-trivial = at '
        'least one ACE in the lineage matches principal AND permission (so the decision is not the default deny); distinct by full case')
ASSUMPTIONS = ['ACE actions are compared with == against the Allow/Deny constants; principals and requested permissions are str',
               'a callable __acl__ is modelled by the list it returns (also when it returns a one-shot iterator: the translator '
               'admits at most one iteration over an __acl__ value per path, and at most one membership test in an ACE permission '
               'field per path); resources are indices into a world of __parent__ pointers (missing / None / resource), lineage() is '
               'regenerated from the source (gen_lineage, fuelled while loop); __parent__ cycles (an infinite generator) are excluded '
               'by the fuel premise of the theorems',
               'ACLs are well-formed (every ACE a 3-sequence; the permission field a str, an iterable of str, an all-permissions '
               'marker or an object without __iter__): exceptions raised on other malformed ACLs (e.g. __acl__ = None) are outside '
               'the translated fragment',
               'membership of a str permission in the one-element list [v] is modelled as: equal str, else False '
               '(AllPermissionsList.__eq__ is an isinstance test; pinned)']
TRUSTED = ['translator harness/c11/translate.py: its PRIMITIVE TABLE (which Python leaf expression / idiom / result constructor '
           'means which primitive of coq/Model/C11_base.v) and its mechanical statement-to-term rules; the control flow of '
           'ACLHelper.permits / principals_allowed_by_permission, of util.is_nonstr_iter, of AllPermissionsList.__contains__ and of '
           'location.lineage (harness/c11/translate_lineage.py: generator with a while loop) is regenerated from the source on '
           'every run (C11_generated_*_is_model, C11_permission_test_is_containment, C11_generated_lineage_is_model)',
           'primitives of coq/Model/C11_base.v (sets as duplicate-free lists; is_str / has_iter / normalise / contains on the four '
           'kinds of permission-field objects; is_allow/is_deny; decision) as models of the Python operations the table maps to them',
           'public entry points: ACLAuthorizationPolicy (delegation), request.has_permission, LegacySecurityPolicy.permits, '
           'security.principals_allowed_by_permission and view_execution_permitted are TRANSLATED (harness/c11/translate_entry.py: '
           'straight-line code over an abstract registry; table in its docstring) and run in real registries by every case '
           '(harness/c11/entry.py); MultiView.match/get_views/__permitted__ are name-blanked pins modelled by view_permitted',
           'malformed inputs (permits_x, principals_allowed_x in Model/C11.v): hand-written extension, related to the regenerated '
           'loops by C11_malformed_*_vs_generated and validated by a correspondence stream on every route',
           'AllPermissionsList.__iter__/__eq__, ACLPermitsResult/ACLAllowed/ACLDenied (shape-pinned); viewderivers.secured_view / '
           '_secured_view / preserve_view_attrs (name-blanked pins: they make the __permitted__ view_execution_permitted calls); '
           'module- and class-level statements of authorization.py, security.py, location.py (skeleton pin, harness/c11/skeleton.py)']

PRINCIPALS = ['system.Everyone', 'system.Authenticated', 'alice', 'bob', 'g:ed']
PERMS = ['view', 'edit', 'del', 'vi', 'edit_own']      # with proper substrings of each other ('vi' < 'view', 'edit' < 'edit_own')
_POOL = []
# a view registered with this permission is unprotected by design (viewderivers, C05): view_execution_permitted then
# does not consult the ACL decision at all, so that route is not applicable for this one permission name
RESERVED = '__no_permission_required__'
NA = ['not-applicable']


def harvest(src):
    """every short string the anchored code itself knows: module-level NAME = 'literal' of pyramid/security.py and the
    string literals (docstrings excluded) inside the modelled functions/classes.  A name the code could treat specially
    must occur there, so these are used as permission names (requested and inside ACEs) next to the ordinary ones."""
    import ast
    out = []
    try:
        m = F.Module(src, 'pyramid/security.py')
        for st in m.tree.body:
            if isinstance(st, ast.Assign) and isinstance(st.value, ast.Constant) and isinstance(st.value.value, str):
                out.append(st.value.value)
        nodes = [m.find('AllPermissionsList')]
        nodes += [F.Module(src, 'pyramid/util.py').find('is_nonstr_iter')]
        ma = F.Module(src, 'pyramid/authorization.py')
        nodes += [ma.find('ACLHelper'), ma.find('ACLAuthorizationPolicy')]
        for nd in nodes:
            if nd is None:
                continue
            for n in ast.walk(F.strip_doc(nd)):
                if isinstance(n, ast.Constant) and isinstance(n.value, str):
                    out.append(n.value)
    except Exception:
        pass
    res = []
    for x in out:
        if x and len(x) <= 48 and x not in res and x not in PERMS:
            res.append(x)
    return res


def harvest_ints(src):
    """every integer constant >= 8 the lineage / ACL code itself mentions (pyramid/location.py, pyramid/authorization.py):
    a bound the code could apply to the depth of a lineage or the length of an ACL must occur there"""
    import ast
    out = []
    for rel in ('pyramid/location.py', 'pyramid/authorization.py'):
        try:
            tree = F.Module(src, rel).tree
        except Exception:
            continue
        for n in ast.walk(tree):
            if isinstance(n, ast.Constant) and type(n.value) is int and 8 <= n.value <= 3000 and n.value not in out:
                out.append(n.value)
    return out


_DEPTHS = []


def deep_depths():
    """lineage depths far beyond the usual ones: around every integer the code mentions, 120, and 1100 (beyond the
    interpreter's default recursion limit)"""
    if not _DEPTHS:
        from harness.common import build
        ds = [120, 1100]
        for k in harvest_ints(build.SRC):
            ds += [k - 1, k, k + 1, 2 * k + 3]
        _DEPTHS.extend(sorted(set(d for d in ds if 8 <= d <= 3000)))
    return _DEPTHS


def pool():
    if not _POOL:
        from harness.common import build
        _POOL.extend(harvest(build.SRC) or ['__no_permission_required__'])
    return _POOL


def pick_perm(rng):
    return rng.choice(pool()) if rng.random() < 0.12 else rng.choice(PERMS)
BAD_KINDS = ('aclnone', 'falsycallable', 'falsyiterable', 'ace2', 'aceint')
PFORMS = ('list', 'tuple', 'set', 'frozenset')
# values of loc['callable']: list / callable->list / generator method / tuple / a callable that, while it computes the ACL,
# calls back into the same long-lived helper and policy objects with OTHER arguments (re-entrancy)
FORMS = (False, True, 'gen', 'tuple', 'reenter')


def facts(src):
    problems = []
    summary = F.check_shapes(src, os.path.join(HERE, 'pins.json'), problems)
    summary.update(entry.check(src, problems))          # name-blanked pins of the pyramid.security entry points
    summary.update(skeleton.check(src, problems))       # module- and class-level statements of the anchor files
    vals = {}
    try:
        m = F.Module(src, 'pyramid/security.py')
        for n in ('Everyone', 'Authenticated', 'Allow', 'Deny'):
            vals[n] = m.const(n)
            if not isinstance(vals[n], str):
                raise ValueError('%s is not a str literal' % n)
        if vals['Allow'] == vals['Deny']:
            # the translator resolves `a == Deny` under a true `a == Allow` (and vice versa)
            raise ValueError('the Allow and Deny constants are equal')
    except Exception as e:
        problems.append('security constants unrecognised: %r' % e)
        vals = {'Everyone': 'system.Everyone', 'Authenticated': 'system.Authenticated', 'Allow': 'Allow', 'Deny': 'Deny'}
    coq = F.HEADER + ''.join('Definition %s : text := %s.\n' % (k.lower(), F.coq_text(v))
                             for k, v in sorted(vals.items()))
    summary.update(vals)
    # the control flow of the two methods, regenerated from the source (harness/c11/translate.py)
    gen, tproblems, tsummary = translate.translate_tree(src)
    problems += tproblems
    summary.update(tsummary)
    coq += ('\n(* ---- regenerated from src/pyramid/authorization.py by harness/c11/translate.py: control flow\n'
            '   translated mechanically, leaves through the primitive table (see that file) ---- *)\n'
            'Require Import Verif.Model.C11_base.\n\n' + gen)
    return {'coq': coq, 'summary': summary, 'problems': problems}


# ------------------------------------------------------------ generation
ALL_FORMS = ('ALL', 'ALL_LEGACY', 'ALL_FRESH', 'ALL_SUB')
# forms of an ACE's permission field other than a bare str (a[2] = {'kind': K, 'names': [..]}):
#   list / tuple / set / frozenset / dict (keys) / dictkeys (a keys view) / iter (an object that only has __iter__) /
#   gen (a ONE-SHOT generator) / strsub (one name, an instance of a str subclass)
CONTAINERS = ('list', 'tuple', 'set', 'frozenset', 'dict', 'dictkeys', 'iter', 'gen')
# objects without __iter__ that are no str: an int, None (falsy), a plain object
ATOMS = ('atom-int', 'atom-none', 'atom-object')
# an application object (no str, no __iter__) whose __eq__ says it equals ONE permission name: {'kind': 'eqstr', 'names': [name]}


def gen_perms(rng):
    r = rng.random()
    if r < 0.09:
        return 'ALL'                                  # pyramid.authorization.ALL_PERMISSIONS
    if r < 0.15:
        # other objects that ARE an all-permissions marker: the legacy pyramid.security.ALL_PERMISSIONS (an instance of
        # the base class), a fresh instance, an instance of an application subclass
        return rng.choice(ALL_FORMS[1:])
    if r < 0.38:
        return pick_perm(rng)                         # bare string
    if r < 0.47:
        return {'kind': 'strsub', 'names': [pick_perm(rng)]}      # a single name that is an instance of a str SUBCLASS
    if r < 0.51:
        return {'kind': rng.choice(ATOMS), 'names': []}
    if r < 0.55:
        return {'kind': 'eqstr', 'names': [pick_perm(rng)]}
    k = rng.choice([0, 1, 1, 2, 2, 3])
    kind = rng.choice(['list', 'tuple']) if rng.random() < 0.6 else rng.choice(CONTAINERS[2:])
    return {'kind': kind, 'names': [pick_perm(rng) for _ in range(k)]}


def gen_case(rng):
    depth = rng.choice([1, 1, 2, 2, 3, 3, 4, 5, 6])
    deep = rng.random() < 0.015
    if deep:
        depth = rng.choice(deep_depths())
    lin = []
    for k in range(depth):
        r = rng.random()
        if (deep and 3 <= k < depth - 3) or r < 0.15:
            lin.append(None)                          # (a deep lineage carries its ACLs at both ends)
            continue
        if r < 0.27 and any(x is not None for x in lin[-6:]):
            # the VERY SAME ACL object as a location further down (an ACL shared through a class attribute or a module-
            # level list): not a copy
            j = rng.choice([i for i in range(max(0, k - 6), k) if lin[i] is not None])
            lin.append({'callable': False, 'aces': [], 'share': j})
            continue
        n = rng.choice([0, 1, 1, 2, 2, 3, 4, 6])
        aces = []
        for _ in range(n):
            act = rng.choice(['Allow', 'Allow', 'Deny', 'Deny', 'Deny', 'Allow', 'Other'] if rng.random() < 0.05
                             else ['Allow', 'Deny'])
            aces.append([act, rng.choice(PRINCIPALS), gen_perms(rng)])
        # form of the ACL object: a list, a tuple, a callable returning the list, or a callable written as a
        # generator (returns a fresh ONE-SHOT iterator on every call)
        r = rng.random()
        loc = {'callable': True if r < 0.13 else 'gen' if r < 0.30 else 'tuple' if r < 0.37 else 'reenter' if r < 0.45 else False,
               'aces': aces}
        if rng.random() < 0.12:
            loc['acelist'] = True                     # every ACE a list [action, principal, permissions] instead of a tuple
        r = rng.random()
        if r < 0.16:
            loc['via'] = 'class' if r < 0.08 else 'prop'      # __acl__ found on the class / computed by a property
        lin.append(loc)
    k = rng.choice([0, 1, 1, 2, 2, 3, 5])
    principals = rng.sample(PRINCIPALS, k)
    # resources that are falsy (an empty dict-like folder): truthiness must not matter
    falsy = [rng.random() < 0.15 for _ in lin]
    # arguments passed as instances of a str subclass (equal to, but not of the exact type of, the plain strings)
    sub = [w for w in ('permission', 'principals') if rng.random() < 0.1]
    case = {'lineage': lin, 'principals': principals, 'permission': pick_perm(rng), 'falsy': falsy, 'sub': sub}
    r = rng.random()
    if r < 0.3:
        # the root has no __parent__ attribute at all (lineage() ends on AttributeError) / a location without ACL whose
        # __acl__ is a property that raises AttributeError
        case['root'] = 'missing'
    if rng.random() < 0.25:
        case['pform'] = rng.choice(PFORMS[1:])         # the principals are handed over as a tuple / set / frozenset
    if rng.random() < 0.2:
        case['noacl'] = 'raises'
    if not deep and rng.random() < 0.03:
        case['threads'] = True                        # labelled test: a second thread uses the same helper / policy meanwhile
    if rng.random() < 0.04:
        # MALFORMED input (outside the property's quantifier; modelled by permits_x): one location whose __acl__ is None, a
        # falsy callable (iterable or not), or whose ACL holds an ACE that is not a 3-sequence
        for loc in lin:
            if loc is not None:
                loc.pop('share', None)
        ks = [k for k, loc in enumerate(lin) if loc is not None]
        if ks:
            k = rng.choice(ks)
            case['bad'] = {'loc': k, 'kind': rng.choice(BAD_KINDS), 'at': rng.randrange(len(lin[k]['aces']) + 1)}
    r = rng.random()
    if r < 0.30:
        # what view_execution_permitted finds under the view name: nothing / a view without permission / a MultiView of
        # two or three sub-views with request_param predicates (holding or not) and permissions of their own (or none)
        kind = 'none' if r < 0.04 else 'plain' if r < 0.09 else 'default' if r < 0.14 else 'multi'
        case['vep'] = {'kind': kind}
        if kind == 'multi':
            case['vep']['subs'] = [[rng.random() < 0.5, rng.choice(PERMS + [None])] for _ in range(rng.choice([2, 2, 3]))]
    return case


def _small_scope():
    """every lineage of depth 1 with an ACL of length <= 2, and of depth 2 with ACLs of length <= 1 (or no
    __acl__), over actions {Allow, Deny} x principals {Everyone, alice} x permission forms {ALL, 'view', [],
    ['view']}, x every subset of {Everyone, alice} as principals, permission 'view'"""
    import itertools
    forms = ['ALL', 'view', {'kind': 'list', 'names': []}, {'kind': 'list', 'names': ['view']}]
    aces = [[a, p, f] for a in ('Allow', 'Deny') for p in ('system.Everyone', 'alice') for f in forms]
    acls1 = [None, []] + [[e] for e in aces]
    acls2 = acls1 + [[e1, e2] for e1 in aces for e2 in aces]
    subsets = [[], ['system.Everyone'], ['alice'], ['alice', 'system.Everyone']]

    def loc(a):
        return None if a is None else {'callable': False, 'aces': a}
    for a in acls2:
        for ps in subsets:
            yield {'lineage': [loc(a)], 'principals': ps, 'permission': 'view', 'falsy': [False]}
    for a in acls1:
        for b in acls1:
            for ps in subsets:
                yield {'lineage': [loc(a), loc(b)], 'principals': ps, 'permission': 'view', 'falsy': [False, False]}


_SCOPE = {'n': 0}


def generate(rng, tier, n):
    if tier == 'thorough':
        for c in _small_scope():
            _SCOPE['n'] += 1
            yield c
    for _ in range(n):
        yield gen_case(rng)


def evidence_extra(stats, tier):
    if tier == 'thorough' and _SCOPE['n'] and not stats.get('violations') and not stats.get('disagreements'):
        return {'exhaustive_subruns': [{'what': _small_scope.__doc__.strip(), 'cases': _SCOPE['n'], 'exhaustive': True}]}
    return {}


def valid(case):
    try:
        if not case['lineage']:
            return False
        if 'falsy' in case and (len(case['falsy']) != len(case['lineage']) or
                                not all(isinstance(b, bool) for b in case['falsy'])):
            return False
        for k, loc in enumerate(case['lineage']):
            if loc is None:
                continue
            if 'share' in loc and not (type(loc['share']) is int and 0 <= loc['share'] < k):
                return False
            if loc['callable'] not in FORMS or loc.get('via', 'attr') not in ('attr', 'class', 'prop') \
                    or loc.get('acelist', False) not in (False, True):
                return False
            for a in loc['aces']:
                if len(a) != 3 or not isinstance(a[1], str) or a[1] == '' or a[0] not in ('Allow', 'Deny', 'Other'):
                    return False
                if not (isinstance(a[2], str) and a[2] != '' or isinstance(a[2], dict)):
                    return False
                if isinstance(a[2], dict):
                    if a[2]['kind'] not in CONTAINERS + ATOMS + ('strsub', 'eqstr') or not all(isinstance(x, str) and x for x in a[2]['names']):
                        return False
                    if a[2]['kind'] in ('strsub', 'eqstr') and len(a[2]['names']) != 1:
                        return False
        if not all(w in ('permission', 'principals') for w in case.get('sub', [])):
            return False
        if case.get('threads', False) not in (False, True):
            return False
        if case.get('root', 'none') not in ('none', 'missing') or case.get('pform', 'list') not in PFORMS \
                or case.get('noacl', 'missing') not in ('missing', 'raises'):
            return False
        b = case.get('bad')
        if b is not None:
            if b.get('kind') not in BAD_KINDS or type(b.get('loc')) is not int or not 0 <= b['loc'] < len(case['lineage']) \
                    or case['lineage'][b['loc']] is None or type(b.get('at')) is not int \
                    or not 0 <= b['at'] <= len(case['lineage'][b['loc']]['aces']) \
                    or any('share' in loc for loc in case['lineage'] if loc):
                return False
        v = case.get('vep')
        if v is not None:
            if v.get('kind') not in ('none', 'plain', 'multi', 'default'):
                return False
            if v['kind'] == 'multi' and not (2 <= len(v['subs']) <= 3 and all(
                    len(x) == 2 and type(x[0]) is bool and (x[1] is None or x[1] in PERMS) for x in v['subs'])):
                return False
        return isinstance(case['permission'], str) and case['permission'] != '' and \
            all(isinstance(p, str) and p for p in case['principals'])
    except Exception:
        return False


# ------------------------------------------------------------ wire
def _perm_wire(p):
    if p in ALL_FORMS:
        return 0                                       # PAll
    if isinstance(p, str):
        return [0, p]                                  # PStr
    if p['kind'] == 'strsub':
        return [0, p['names'][0]]                      # PStr (an instance of a str subclass is a str)
    if p['kind'] == 'eqstr':
        return [2, p['names'][0]]                      # PEq
    if p['kind'] in ATOMS:
        return 1                                       # PAtom
    return [1, list(p['names'])]                       # PNames


def _src(case, k):
    """index of the location whose ACL object location k carries (k itself unless it shares another one's)"""
    lin = case['lineage']
    while lin[k] is not None and 'share' in lin[k] and lin[lin[k]['share']] is not None:
        k = lin[k]['share']
    return k


def _trunc(case):
    """(the well-formed part of the lineage that the walk of permits() sees before the malformed item, does it raise there)
    -- the Python twin of [trunc] in Model/C11.v"""
    b = case.get('bad')
    lin = case['lineage']
    if b is None:
        return lin, False
    k = b['loc']
    if b['kind'] in ('aclnone', 'falsycallable'):
        return lin[:k], True
    if b['kind'] == 'falsyiterable':
        return lin[:k] + [dict(lin[k], aces=[])] + lin[k + 1:], False      # never called: the empty static ACL it is
    return lin[:k] + [dict(lin[k], aces=lin[k]['aces'][:b['at']])], True


def _ace_wire(a):
    return [{'Allow': 1, 'Deny': 0}.get(a[0], 2), a[1], _perm_wire(a[2])]


def _xwire(case):
    """the malformed lineage as it is (Model/C11.v xloc / xace): 0 = no __acl__, 1 = __acl__ is None or a falsy callable
    that is not iterable, [[..]] = an ACL in which 9 stands for an ACE that is not a 3-sequence"""
    b, out = case['bad'], []
    for k, loc in enumerate(case['lineage']):
        if loc is None:
            out.append(0)
        elif k == b['loc'] and b['kind'] in ('aclnone', 'falsycallable'):
            out.append(1)
        elif k == b['loc'] and b['kind'] == 'falsyiterable':
            out.append([[]])
        else:
            aces = [_ace_wire(a) for a in loc['aces']]
            if k == b['loc']:
                aces.insert(b['at'], 9)
            out.append([aces])
    return out


def to_wire(case):
    lin = []
    orig = case
    if case.get('bad'):
        case = dict(case, lineage=_trunc(case)[0] or [None])
    for k, loc in enumerate(case['lineage']):
        if loc is not None:
            loc = case['lineage'][_src(case, k)]
        if loc is None:
            lin.append([])
        else:
            lin.append([[[{'Allow': 1, 'Deny': 0}.get(a[0], 2), a[1], _perm_wire(a[2])] for a in loc['aces']]])
    v = case.get('vep')
    # 'default': view_execution_permitted(context, request) WITHOUT a name: the default view '' (protected by DEFAULT_VIEW_PERM)
    views = case['permission'] if v is None else 0 if v['kind'] == 'none' else 1 if v['kind'] == 'plain' else \
        entry.DEFAULT_VIEW_PERM if v['kind'] == 'default' else \
        [[1 if ok else 0] + ([q] if q is not None else []) for ok, q in v['subs']]
    return [lin, list(case['principals']), case['permission'], 1 if case.get('root') == 'missing' else 0, views,
            _xwire(orig) if orig.get('bad') else 0]


def from_wire(case, raw):
    if raw == [['bad']] or len(raw) != 18:
        return {'model': ['MODEL-BAD', raw], 'spec': None}
    (dec, allowed, spec_granted, wf, hdec, hallowed, pdec, pallowed, hp_default, hp_nopolicy, pa_noauthz,
     hp_given, sec_pa, vep, vep_spec, xdec, xpa, xspec) = raw
    # the model that is compared with the implementation is the program REGENERATED from the source;
    # the third spec component records whether the hand-written reference model answers the same
    # (always 1 while C11_generated_*_is_model compile)
    # [ACLHelper; ACLAuthorizationPolicy; request.has_permission + security.principals_allowed_by_permission (legacy
    #  policies in a real registry: they end in ACLAuthorizationPolicy); view_execution_permitted]
    #  then: request.has_permission(p) WITHOUT a context argument (request.context is the context); the same in a
    #  registry without any security policy; security.principals_allowed_by_permission without authorization policy]
    #  (all routes of pyramid/security.py are answered by the REGENERATED gen_has_permission / gen_sec_principals_allowed /
    #   gen_view_execution_permitted; vep_spec = first-match decision for the permission of the view that would run)
    if case.get('bad'):
        # malformed input (outside the property): answered by the hand-written extension permits_x / principals_allowed_x
        # (C11_malformed_*); every route that ends in permits() / principals_allowed_by_permission is observed
        xs = sorted(xpa[0]) if xpa else ['EXC']
        return {'model': [xdec, xs, xdec, xs, xdec, xs, NA, xdec, NA, NA], 'spec': [xspec, wf, 1, None]}
    single = case.get('vep') is None
    model = [dec, sorted(allowed), pdec, sorted(pallowed), hp_given, sorted(sec_pa),
             NA if (single and case['permission'] == RESERVED) else vep, hp_default, hp_nopolicy, sorted(pa_noauthz)]
    same = 1 if (dec == hdec and sorted(allowed) == sorted(hallowed)) else 0
    v = vep_spec
    while isinstance(v, list) and v:
        v = v[0]
    return {'model': model, 'spec': [spec_granted, wf, same, v if isinstance(v, int) else None]}


# ------------------------------------------------------------ implementation
_impl = {}


def setup(tier):
    import warnings
    from pyramid import authorization as A
    with warnings.catch_warnings():
        warnings.simplefilter('ignore')
        from pyramid import security as S
        legacy_all, legacy_deny_all, base = S.ALL_PERMISSIONS, S.DENY_ALL, S.AllPermissionsList
    from pyramid.security import NO_PERMISSION_REQUIRED
    global RESERVED
    RESERVED = NO_PERMISSION_REQUIRED

    class AppAllPermissions(base):
        """an application's own subclass of the (legacy) all-permissions class"""

    def world(**kw):
        # a change that breaks configuration itself (e.g. in a helper the whole framework uses) must not stop the direct
        # routes (ACLHelper, ACLAuthorizationPolicy) from being judged: the registry routes then answer with an exception
        try:
            return entry.World(PERMS, **kw)
        except Exception as e:
            return entry.BrokenWorld(e, A.ACLAuthorizationPolicy())

    _impl.update(helper=A.ACLHelper(), ALL=A.ALL_PERMISSIONS, Allow=A.Allow, Deny=A.Deny, world=world(),
                 bare=world(policies=False), ALL_LEGACY=legacy_all, ALL_CLASS=A.AllPermissionsList, ALL_SUBCLASS=AppAllPermissions,
                 DENY_ALL=A.DENY_ALL, DENY_ALL_LEGACY=legacy_deny_all, Everyone=A.Everyone)


class _Loc:
    pass


class _S(str):
    """a str subclass (like a member of a str-mixin Enum): equal to the plain string, of another exact type"""


class _EqStr:
    """an application's permission constant: no str, not iterable, but its __eq__ says it equals one permission name"""

    def __init__(self, name):
        self.name = name

    def __eq__(self, other):
        return isinstance(other, str) and other == self.name

    def __hash__(self):
        return hash(self.name)


def _with_second_thread(case, fn):
    """LABELLED TEST (kind `two-threads-on-one-helper`): run fn() while a second thread keeps asking the same long-lived
    helper / policy objects about another resource, other principals and another permission (switch interval 1 us).  The GIL
    decides the interleaving: a run that agrees shows nothing broke in THIS schedule, it is no proof of thread safety."""
    import sys
    import threading
    other = _Loc()
    other.__acl__ = [(_impl['Allow'], 'zed', _impl['ALL']), (_impl['Deny'], _impl['Everyone'], _impl['ALL'])]
    other.__parent__ = None
    ps = [x for x in PRINCIPALS if x not in case['principals']] + ['zed']
    perm = [x for x in PERMS if x != case['permission']][0]
    h, w = _impl['helper'], _impl['world']
    stop, started = threading.Event(), threading.Event()

    def noise():
        started.set()
        while not stop.is_set():
            try:
                h.permits(other, ps, perm)
                w.policy.permits(other, ps, perm)
                h.principals_allowed_by_permission(other, perm)
                w.policy.principals_allowed_by_permission(other, perm)
            except Exception:
                pass
    t = threading.Thread(target=noise, daemon=True)
    old = sys.getswitchinterval()
    sys.setswitchinterval(1e-6)
    t.start()
    started.wait(1.0)
    try:
        return fn()
    finally:
        stop.set()
        t.join(2.0)
        sys.setswitchinterval(old)


class _FalsyCallable:
    """callable, falsy, not iterable: `if acl and callable(acl)` does not call it; iterating it raises TypeError"""

    def __init__(self, aces):
        self._aces = aces

    def __call__(self):
        return self._aces

    def __bool__(self):
        return False


class _FalsyIterableCallable(list):
    """an EMPTY list that is also callable (its call would return a real ACL): falsy, so never called; scanned as the
    empty static ACL it is"""

    def __init__(self, aces):
        list.__init__(self)
        self._aces = aces

    def __call__(self):
        return self._aces


class _Iter:
    """an iterable that is no container: only __iter__ (`x in it` falls back to iteration)"""

    def __init__(self, names):
        self._names = list(names)

    def __iter__(self):
        return iter(self._names)


def _args(case):
    sub = case.get('sub') or []
    ps = [(_S(x) if 'principals' in sub else x) for x in case['principals']]
    p = _S(case['permission']) if 'permission' in sub else case['permission']
    return ps, p


def _pcontainer(case, ps):
    """the principals, in the container form of the case (each call gets its own container)"""
    return {'list': list, 'tuple': tuple, 'set': set, 'frozenset': frozenset}[case.get('pform', 'list')](ps)


class _EmptyFolder(dict):
    """a container resource without children: falsy, like any empty mapping"""
    __hash__ = object.__hash__


def _raise_attr(self):
    raise AttributeError('__acl__')


def _perm_value(p):
    if p == 'ALL':
        return _impl['ALL']
    if p == 'ALL_LEGACY':
        return _impl['ALL_LEGACY']
    if p == 'ALL_FRESH':
        return _impl['ALL_CLASS']()
    if p == 'ALL_SUB':
        return _impl['ALL_SUBCLASS']()
    if isinstance(p, str):
        return p
    names, kind = list(p['names']), p['kind']
    if kind == 'strsub':
        return _S(names[0])
    if kind == 'eqstr':
        return _EqStr(names[0])
    if kind in ATOMS:
        return {'atom-int': 7, 'atom-none': None, 'atom-object': _Loc()}[kind]
    if kind == 'dict':
        return dict.fromkeys(names, 1)
    if kind == 'dictkeys':
        return dict.fromkeys(names, 1).keys()
    if kind == 'iter':
        return _Iter(names)
    if kind == 'gen':
        return (x for x in names)                       # one-shot: every call of the code under test gets fresh objects
    return {'list': list, 'tuple': tuple, 'set': set, 'frozenset': frozenset}[kind](names)


_NOACL = {}


def _noacl_class(base):
    if base not in _NOACL:
        _NOACL[base] = type('_NoAcl', (base,), {'__acl__': property(_raise_attr)})
    return _NOACL[base]


def _reenter(case):
    """what a callable __acl__ may legitimately do while it computes its ACL: ask the SAME long-lived helper / policy
    objects about another resource, other principals and another permission.  The answers are not used."""
    if _impl.get('busy'):
        return
    _impl['busy'] = True
    try:
        other = _Loc()
        other.__acl__ = [(_impl['Allow'], 'zed', _impl['ALL']), (_impl['Deny'], _impl['Everyone'], _impl['ALL'])]
        other.__parent__ = None
        ps = [x for x in PRINCIPALS if x not in case['principals']] + ['zed']
        perm = [x for x in PERMS if x != case['permission']][0]
        h, w = _impl['helper'], _impl['world']
        broken = _Loc()
        broken.__acl__ = [(_impl['Allow'], 'zed')]     # a malformed ACE: the nested call FAILS (ValueError) half-way
        broken.__parent__ = other
        for f in (lambda: h.permits(broken, ps, perm), lambda: h.principals_allowed_by_permission(broken, perm),
                  lambda: w.policy.permits(broken, ps, perm),
                  lambda: h.permits(other, ps, perm), lambda: h.principals_allowed_by_permission(other, perm),
                  lambda: w.policy.permits(other, ps, perm), lambda: w.policy.principals_allowed_by_permission(other, perm),
                  lambda: w.has_permission(other, ps, perm), lambda: w.principals_allowed(other, perm)):
            try:
                f()
            except Exception:
                pass
    finally:
        _impl['busy'] = False


def _build(case):
    """fresh resource objects for ONE call of the code under test (ACE permission fields may be one-shot iterators)"""
    locs = []
    falsy = case.get('falsy') or []
    lin = case['lineage']
    shared = {_src(case, k) for k, loc in enumerate(lin) if loc is not None and _src(case, k) != k}
    built = {}                                          # source index -> (ACL object, its ACE objects)
    for k, loc in enumerate(lin):
        base = _EmptyFolder if (k < len(falsy) and falsy[k]) else _Loc
        if loc is None:
            if case.get('noacl') == 'raises':
                # no ACL: reading __acl__ raises AttributeError from a property
                base = _noacl_class(base)
            locs.append(base())
            continue
        src = _src(case, k)
        if src in built:
            value, aces = built[src]                    # the very same object, not a copy
        else:
            sloc = lin[src]
            aces = []
            for a in sloc['aces']:
                act = {'Allow': _impl['Allow'], 'Deny': _impl['Deny']}.get(a[0], 'Perhaps')
                pf = a[2]
                if src in shared and isinstance(pf, dict) and pf['kind'] == 'gen':
                    pf = dict(pf, kind='iter')          # an ACL applied at two levels cannot hold one-shot iterators
                if sloc.get('acelist'):
                    aces.append([act, a[1], _perm_value(pf)])
                elif a[0] == 'Deny' and a[1] == _impl['Everyone'] and pf == 'ALL':
                    aces.append(_impl['DENY_ALL'])              # the constant itself
                elif a[0] == 'Deny' and a[1] == _impl['Everyone'] and pf == 'ALL_LEGACY':
                    aces.append(_impl['DENY_ALL_LEGACY'])
                else:
                    aces.append(tuple([act, a[1], _perm_value(pf)]))
            bad = case.get('bad')
            if bad and bad['loc'] == k and bad['kind'] in ('ace2', 'aceint'):
                aces.insert(bad['at'], (_impl['Allow'], 'alice') if bad['kind'] == 'ace2' else 7)
            form = sloc['callable']
            if bad and bad['loc'] == k and bad['kind'] == 'aclnone':
                value = None
            elif bad and bad['loc'] == k and bad['kind'] == 'falsycallable':
                value = _FalsyCallable(aces)
            elif bad and bad['loc'] == k and bad['kind'] == 'falsyiterable':
                value = _FalsyIterableCallable(aces)
            elif form == 'gen':
                value = (lambda aces=aces: (e for e in aces))     # a fresh one-shot iterator per call
            elif form == 'tuple':
                value = tuple(aces)
            elif form == 'reenter':
                value = (lambda aces=aces: (_reenter(case), aces)[1])
            elif form:
                value = (lambda aces=aces: aces)
            else:
                value = aces
            built[src] = (value, aces)
        via = loc.get('via', 'attr')
        if via == 'class':
            # found on the class (a function stored on a class would become a bound method: keep it a plain callable)
            o = type('_ClsAcl', (base,), {'__acl__': staticmethod(value) if callable(value) else value})()
        elif via == 'prop':
            o = type('_PropAcl', (base,), {'__acl__': property(lambda self, value=value: value)})()
        else:
            o = base()
            o.__acl__ = value
        o._aces = aces
        locs.append(o)
    for i, o in enumerate(locs):
        if i + 1 < len(locs):
            o.__parent__ = locs[i + 1]
        elif case.get('root', 'none') != 'missing':
            o.__parent__ = None
    return locs


def _dec(r, locs):
    """canonical form of a permits result: [granted] for the default deny, [granted, location index, ACE index]"""
    if r is True:
        return [1, 'true']                              # MultiView.__permitted__: the sub-view has no permission
    if not hasattr(r, 'ace'):
        if getattr(r, 'msg', None) == 'No security policy in use.':
            return [1 if r else 0, 'no-policy']
        if str(getattr(r, 'msg', '')).startswith('Allowed: view name') and str(r.msg).endswith('(no permission defined)'):
            return [1 if r else 0, 'no-perm']
        return [1 if r else 0, 'not-an-acl-result']
    if isinstance(r.ace, str):
        return [1 if r else 0]
    d = [i for i, o in enumerate(locs) if o is r.context][0]
    i = [k for k, e in enumerate(locs[d]._aces) if e is r.ace][0]
    return [1 if r else 0, d, i]


def _deciders(case=None):
    h, w = _impl['helper'], _impl['world']
    vep = (case or {}).get('vep')
    return [lambda c, ps, p: h.permits(c, ps, p),
            lambda c, ps, p: w.policy.permits(c, ps, p),
            lambda c, ps, p: w.has_permission(c, ps, p),
            lambda c, ps, p: w.view_execution_permitted(c, ps, p, vep),
            lambda c, ps, p: w.has_permission_default(c, ps, p),
            lambda c, ps, p: _impl['bare'].has_permission(c, ps, p)]


def _reporters():
    h, w = _impl['helper'], _impl['world']
    return [lambda c, p: h.principals_allowed_by_permission(c, p),
            lambda c, p: w.policy.principals_allowed_by_permission(c, p),
            lambda c, p: w.principals_allowed(c, p),
            lambda c, p: _impl['bare'].principals_allowed(c, p)]


def run_impl(case):
    if not _impl:
        setup('quick')
    decs, sets = [], []
    ps, p = _args(case)
    if case.get('bad'):
        ds = _deciders(case)
        for f in (ds[0], ds[1], ds[2], ds[4]):
            locs = _build(case)
            try:
                decs.append(_dec(f(locs[0], _pcontainer(case, ps), p), locs))
            except (TypeError, ValueError):
                decs.append(['EXC'])
            except Exception as e:
                decs.append(['EXC', type(e).__name__])
        for f in _reporters()[:3]:
            locs = _build(case)
            try:
                sets.append(sorted(str(x) for x in f(locs[0], p)))
            except (TypeError, ValueError):
                sets.append(['EXC'])
            except Exception as e:
                sets.append(['EXC', type(e).__name__])
        return [decs[0], sets[0], decs[1], sets[1], decs[2], sets[2], NA, decs[3], NA, NA]
    run = (lambda fn: _with_second_thread(case, fn)) if case.get('threads') else (lambda fn: fn())
    for f in _deciders(case):
        locs = _build(case)
        try:
            decs.append(_dec(run(lambda: f(locs[0], _pcontainer(case, ps), p)), locs))
        except Exception as e:
            decs.append(['EXC', type(e).__name__])
    for f in _reporters():
        locs = _build(case)
        try:
            sets.append(sorted(str(x) for x in run(lambda: f(locs[0], p))))
        except Exception as e:
            sets.append(['EXC', type(e).__name__])
    if case['permission'] == RESERVED and case.get('vep') is None:
        decs[3] = NA
    return [decs[0], sets[0], decs[1], sets[1], decs[2], sets[2], decs[3], decs[4], decs[5], sets[3]]


# ------------------------------------------------------------ judging
def spec_holds(case, obs, spec):
    """Property, for every public entry point: decision = first matching ACE (spec_granted); every reported principal,
    presented with Everyone, is granted (checked against the same entry point of the implementation)."""
    if spec is None:
        return None
    spec_granted, wf = spec[0], spec[1]
    if case.get('bad'):
        # outside the property's quantifier; what must still hold: no grant that is not the first-match grant of the
        # well-formed part (spec_granted was computed on it)
        return all(not (d and d[0] == 1) or spec_granted == 1 for d in (obs[0], obs[2], obs[4], obs[7]))
    for dec in (obs[0], obs[2], obs[4], obs[7]):
        if dec and dec[0] == 'EXC':
            return False
        if (dec[0] == 1) != (spec_granted == 1):
            return False
    # view_execution_permitted: when a view with a permission would run, the answer is the first-match decision for THAT
    # permission; otherwise (no permission / no view / no matching sub-view) no ACL decision may be reported
    vdec, vspec = obs[6], (spec[3] if len(spec) > 3 else None)
    if not isinstance(vspec, int):
        vspec = None                                    # (the engine's canonical form of None is [])
    if vdec != NA:
        if vspec is not None:
            if vdec[0] == 'EXC' or (vdec[0] == 1) != (vspec == 1) or len(vdec) == 2:
                return False
        elif len(vdec) == 3 or (vdec[0] == 0):
            return False
    if wf:
        deciders = _deciders(case)
        for k, allowed in enumerate((obs[1], obs[3], obs[5])):
            if allowed and allowed[0] == 'EXC':
                return False
            for q in allowed:
                if not deciders[k](_build(case)[0], [q, 'system.Everyone'], _args(case)[1]):
                    return False
    return True


def nontrivial(case, obs):
    return len(obs[0]) == 3


def kinds(case, obs):
    d = obs[0]
    k = ['allowed' if d[0] == 1 and len(d) == 3 else 'denied-by-ace' if len(d) == 3 else 'default-deny' if d[0] == 0 else 'exc']
    k.append('depth%d' % len(case['lineage']) if len(case['lineage']) <= 6 else 'depth>6')
    if any(case.get('falsy') or []):
        k.append('has-falsy-resource')
    if case.get('sub'):
        k.append('str-subclass-argument')
    if any(isinstance(a[2], dict) and a[2]['kind'] == 'strsub' for loc in case['lineage'] if loc for a in loc['aces']):
        k.append('has-str-subclass-permission')
    if case['permission'] not in PERMS:
        k.append('permission-name-from-source')
    pf = {(a[2] if isinstance(a[2], str) else a[2]['kind']) for loc in case['lineage'] if loc for a in loc['aces']}
    if pf & set(ALL_FORMS[1:]):
        k.append('has-other-all-permissions-marker')
    if pf & set(CONTAINERS[2:]):
        k.append('has-nonlist-permission-container')
    if 'gen' in pf:
        k.append('has-oneshot-permission-iterator')
    if pf & set(ATOMS):
        k.append('has-noniterable-permission-object')
    if case.get('root') == 'missing':
        k.append('root-without-__parent__')
    if case.get('noacl') == 'raises' and None in case['lineage']:
        k.append('acl-property-raises-attributeerror')
    if case.get('pform', 'list') != 'list':
        k.append('principals-not-a-list')
    if any(loc.get('via', 'attr') != 'attr' for loc in case['lineage'] if loc):
        k.append('acl-on-class-or-property')
    if any(loc.get('acelist') for loc in case['lineage'] if loc):
        k.append('ace-as-list')
    if case.get('threads'):
        k.append('two-threads-on-one-helper')
    if 'eqstr' in pf:
        k.append('has-str-equal-permission-object')
    if case.get('bad'):
        k.append('malformed-%s' % case['bad']['kind'])
    k.append('view-%s' % (case.get('vep') or {'kind': 'single'})['kind'])
    if any('share' in loc for loc in case['lineage'] if loc):
        k.append('has-shared-acl-object')
    if len(case['lineage']) > 6:
        k.append('deep-lineage')
    forms = {loc['callable'] for loc in case['lineage'] if loc is not None}
    for f, name in ((True, 'has-callable-acl'), ('gen', 'has-generator-acl'), ('tuple', 'has-tuple-acl'),
                    ('reenter', 'has-reentrant-callable-acl')):
        if f in forms:
            k.append(name)
    k.append('allowed-set-%s' % ('empty' if not obs[1] else 'nonempty'))
    return k


def describe(case):
    return case

TECHNIQUE = ('Coq proof (induction over lineage and ACL) about a Gallina program whose control flow is translated from the Python '
             'source on every run (fail-closed ast translator, leaves through a small primitive table), proved equal to a '
             'hand-written reference model + extracted-program differential correspondence through every public entry point')
LEVEL_TEXT = ('Machine-checked theorems, for lineages and ACLs of any size, stated literally about the program regenerated from '
              'src/pyramid/authorization.py, util.py (is_nonstr_iter) and security.py (AllPermissionsList.__contains__) on this run: '
              'the loop of ACLHelper.permits equals the declarative first-matching-ACE decision (incl. which ACE decided, default '
              'deny, child-before-ancestor), where "matches" is the property\'s containment (a name contains itself, an iterable its '
              'elements, the all-permissions marker everything: C11_permission_test_is_containment proves that the normalisation '
              'idiom + the regenerated leaf functions compute exactly that, and C11_unnormalised_str_is_substring_test what happens '
              'without it); every principal in principals_allowed_by_permission is granted when presented with Everyone, and the '
              'reported collection is characterised exactly (C11_principals_allowed_exact: q is reported iff the first entry speaking '
              'about q -- Allow/Deny naming q or Deny of Everyone, permission contained -- is an Allow), has no duplicates, and the '
              'Allow/Deny hypothesis of the consistency theorem is shown necessary (C11_allowed_consistent_refuted_without_wf). '
              'C11_generated_*_is_model prove, by one induction per loop, that the regenerated program is the hand-written reference '
              'model; a semantics-preserving rewrite regenerates a different term and the same proofs go through, a change of meaning '
              'makes them fail. request.has_permission and security.principals_allowed_by_permission are modelled with their '
              'no-policy branches and regenerated from pyramid/security.py like view_execution_permitted (C11_generated_*_is_model, '
              'C11_has_permission_first_match, C11_sec_principals_allowed_consistent, C11_view_execution_permitted_spec); '
              'C11_has_permission_end_to_end: with a security policy, request.has_permission(p, ctx) is granted iff the first matching '
              'ACE over the lineage of ctx for the effective principals is an Allow, every function involved regenerated. location.lineage is '
              'regenerated too (gen_lineage over a world of __parent__ pointers; tied to the reference by two one-sided theorems, so '
              'that rewrites which spend the loop fuel differently are absorbed): C11_lineage_exact proves that, for a lineage of ANY '
              'length, it yields exactly the resource, its parent, ... up to the first one whose __parent__ is None or missing; '
              'C11_world_permits_first_match / C11_world_allowed_consistent state the property end to end (lineage() then ACL scan); '
              'C11_chain_world_acls ties the world the harness builds to the ACL list of the case. Monotonicity in the ancestors '
              '(C11_permits_ancestors_irrelevant_once_decided, C11_permits_inherits_when_undecided_generated, '
              'C11_world_permits_ancestors, C11_has_permission_ancestors): a decision taken by an ACE of the lineage is unchanged by '
              'anything put above it, an undecided lineage inherits exactly the ancestors\' decision; for the reported principals '
              'C11_principals_allowed_child / _descendants_generated: q is reported below a lineage iff the first entry speaking about q '
              'in the descendants is an Allow, or there is none and q is reported for the lineage. The extracted program is '
              'run differentially against the code through ACLHelper, ACLAuthorizationPolicy, request.has_permission (explicit and '
              'default context, with and without policy), security.principals_allowed_by_permission and view_execution_permitted.')
LEVEL_NOTE = ('Trusted: Coq kernel; the translator (mechanical control-flow rules + the primitive table in the docstring of '
              'harness/c11/translate.py and translate_lineage.py -- the table is the trusted part; anything outside subset/table is '
              'a broken tie, never a guess); the primitives of Model/C11_base.v; Python harness; AllPermissionsList.__iter__/__eq__, the '
              'ACLPermitsResult classes, viewderivers._secured_view and MultiView.__permitted__/match are shape-pinned and modelled by '
              'hand; behaviour on malformed ACLs (exceptions) is a hand-written extension outside the property; module/class-level statements of the three anchor files are pinned as a '
              'skeleton. Callable ACLs are represented by the list they return. The consistency theorem assumes ACE actions are '
              'Allow or Deny (necessary: refuted without). A TypeError of `p in <non-iterable>` is modelled as False and shown '
              'unreachable under the regenerated is_nonstr_iter (C11_normalisation_wraps_exactly_the_non_iterables).')
