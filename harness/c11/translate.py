"""C11 translator: Python ast of ACLHelper.permits / ACLHelper.principals_allowed_by_permission
(src/pyramid/authorization.py) -> Gallina definitions gen_permits / gen_principals_allowed,
re-run on every check (prop.facts) and emitted into coq/Gen/Facts_C11.v.

Fail-closed: a statement outside the SUBSET, an expression outside the PRIMITIVE TABLE, a typing
surprise, a changed binding of a global name the table relies on -> Problem; the caller records it as a
broken tie and emits the stored fallback text (harness/c11/gen_fallback.json, the translation of the
text the hand-written model was written against) so that the Coq file still type-checks.

=== CONTROL FLOW (translated mechanically, continuation-passing, nothing is looked up) ==================
  block s1; s2; ...      the translation of s1 receives the translation of the rest as its continuation
  for T in E: B ; rest   (fix loopN (lN : list elem) [(iN : nat)] (c_v.. : carried) {struct lN} : ret :=
                            match lN with [] => <rest> | x :: tN => <B> end) E [0] v..
                         carried = variables assigned in B that are bound (with a modelled type) at loop
                         entry, ordered by first occurrence in B; the index iN is added iff the table maps
                         a result constructor to the loop element's position (ACLAllowed/ACLDenied)
     continue / end of B recursive call  loopN tN [(S iN)] v..   (current values of the carried variables)
     break               <rest>, with the current values of the carried variables
     return e            e
     variables first assigned in B are local to one iteration (reading them after the loop or before the
     assignment in a later iteration is a Problem); the nil case and every break get their own copy of <rest>
  if c: A else: B ; rest decision tree over the ATOMS of c:  `a and b` -> if a then (if b ..) ..,
                         `a or b` -> if a then .. else (if b ..), `not a` -> branches swapped; each branch is
                         followed by its own copy of <rest>; a test repeated on a path is resolved; an `if`
                         whose two branches are the same term disappears.  (So `if a: if b: S`, `if a and b: S`
                         and `elif` vs nested `else: if` produce the same term.)
  try: v = X.__acl__     match X with None => <H ; rest> | Some a => <rest with v := a> end
  except AttributeError: H      (X a lineage element; exactly this shape)
  v = e                  substitution: v stands for the term of e from here on (no let is emitted, so the
                         names of locals do not occur in the output; only binders carry them, for reading)
  a, b, c = ace          a := act ace, b := who ace, c := what ace   (an ACE is a 3-tuple; also as loop target)

=== PRIMITIVE TABLE (trusted: each line is a claim about Python/Pyramid semantics) ======================
  parameters (by position)   context -> the lineage value L (through lineage(context) only);
                             principals -> ps : list text ; permission -> p : text ; self: not modelled
  lineage(context)           L            (location.lineage is translated separately: translate_lineage.py -> gen_lineage,
                                           run_C11 computes L with it from the world of __parent__ pointers;
                                           only as a loop iterable or directly inside list(..): it is a generator)
  list(x)                    x            (x a lineage or an ACL; the result is a re-iterable list)
  reversed(x)                rev x        (x a list(..) result; only as a loop iterable or directly inside list(..))
  v = X.__acl__ (see above)  the ACL value MAY BE A ONE-SHOT ITERATOR (a callable __acl__ written as a generator):
                             it may be consumed (for .. in v / list(v)) at most once on a path, and only in the loop
                             iteration that read it; list(v) gives a list that may be iterated again
  set()                      []           (sets of principals = duplicate-free lists, Model/C11_base.v)
  s.add(x)                   s := add x s           s.discard(x)   s := remove x s
  s.remove(x)                s := remove x s  ONLY on a path on which `x in s` was tested true (else KeyError)
  s.update(t)                s := union s t         (s must be a set created by set() in this function: no aliasing)
  x in s / x not in s        mem_text x s / negated          (x text, s principals or a set)
  x in perms                 perm_in_with gen_is_nonstr_iter gen_all_contains x v   when perms is the value the normalisation
                             idiom (below) made of the ACE permission field v; WITHOUT the idiom the raw membership
                             contains gen_all_contains x (Self v)  (a substring test when v is a bare str)
  x == y / x != y            text_eqb x y / negated   (texts; a constant operand is written second)
  a == Allow / a == Deny     is_allow a / is_deny a   (a an ACE action; `is` is NOT in the table); the two are
                             mutually exclusive (the constants differ: checked), so a test of one under the other is resolved
  (one-shot permission fields) a membership test in the permission field of an ACE may be evaluated at most once on a
                             path (the field may be a generator); a second evaluation is a Problem, never "the same answer"
  Allow Deny Everyone Authenticated   Allow, Deny (action constants), everyone, authenticated (regenerated texts);
                             their module-level bindings in authorization.py are checked (import from pyramid.security)
  if not is_nonstr_iter(v): v = [v]     v := normalise gen_is_nonstr_iter v   (Model/C11_base.v: v itself when the
                             REGENERATED is_nonstr_iter answers true, else the one-element list [v])
  if v and callable(v): v = v()   (also without `v and`)   identity: a callable __acl__ is represented by the list
                             it returns (the harness calls it once per use; see NOTES.md)
  ACLAllowed(ace, acl, permission, principals, location)   Allowed  i_location i_ace
  ACLDenied (ace, acl, permission, principals, location)   Denied   i_location i_ace
                             ace / location must be the elements of a loop over `L` and of a loop over that
                             location's ACL; the other three arguments are stored on the result only (not observed)
  ACLDenied('<text>', acl, permission, principals, context)   DefaultDeny   (first argument a string literal)
  string literals            messages, not modelled (may only be stored in a variable or passed as above)

=== LEAF FUNCTIONS (same translator, boolean result) ====================================================
  pyramid/util.py  is_nonstr_iter(v)                      -> gen_is_nonstr_iter (v : perms) : bool
  pyramid/security.py  AllPermissionsList.__contains__(self, other)  -> gen_all_contains (p : text) : bool
  isinstance(x, str)         is_str x        (x the object in an ACE's permission field; str subclasses included)
  hasattr(x, '__iter__')     has_iter x      (exactly this attribute name)
  True / False               true / false
  other == NAME / 'literal'  text_eqb other <text>   (NAME a module-level str constant of the same file)
  the class AllPermissionsList of security.py must have exactly the members __iter__, __contains__, __eq__, no bases,
  no decorators; __iter__ and __eq__ stay shape-pinned (pins.json)

=== DELEGATION WRAPPERS (ACLAuthorizationPolicy, the deprecated public wrapper) ==========================
  def __init__(self): self.H = ACLHelper()                       (exactly this; H any attribute name)
  def permits(self, c, ps, p): return self.H.permits(c, ps, p)   gen_policy_permits L ps p := gen_permits L ps p
  def principals_allowed_by_permission(self, c, p): return self.H.principals_allowed_by_permission(c, p)
                                                                 gen_policy_principals_allowed L p := gen_principals_allowed L p
  every argument must be a parameter of the wrapper of the type the callee expects at that position (context,
  principals, permission are told apart by position in the public IAuthorizationPolicy signature), positional only.
"""
import ast
import json
import os

from harness.c11 import translate_lineage, translate_entry

HERE = os.path.dirname(os.path.abspath(__file__))

# source functions whose control flow is regenerated on every run (read by tools/coverage_map.py)
TRANSLATED = ['pyramid/authorization.py:ACLHelper.permits',
              'pyramid/authorization.py:ACLHelper.principals_allowed_by_permission',
              'pyramid/authorization.py:ACLAuthorizationPolicy.__init__',
              'pyramid/authorization.py:ACLAuthorizationPolicy.permits',
              'pyramid/authorization.py:ACLAuthorizationPolicy.principals_allowed_by_permission',
              'pyramid/util.py:is_nonstr_iter',
              'pyramid/location.py:lineage',
              'pyramid/security.py:AllPermissionsList.__contains__']
TRANSLATED += translate_entry.TRANSLATED
FALLBACK = os.path.join(HERE, 'gen_fallback.json')

# ---- types of the translated fragment
ACLLIST, LINLIST = 'acl(list)', 'lineage(list)'
TEXT, SET, SETOWN, ACTION, RAWPERMS, PERMS, ACE, ACL, LOC, LINEAGE, BOOL, DECISION, ERASED, CTX = (
    'text', 'set', 'set(own)', 'action', 'perms(raw)', 'perms', 'ace', 'acl', 'loc', 'lineage', 'bool', 'decision',
    'erased', 'context')
COQTY = {TEXT: 'text', SET: 'list text', SETOWN: 'list text', ACTION: 'action', RAWPERMS: 'perms', PERMS: 'nperms',
         ACE: 'ace', ACL: 'acl', LOC: 'option acl', LINEAGE: 'lineage', BOOL: 'bool', DECISION: 'decision',
         ACLLIST: 'acl', LINLIST: 'lineage'}
ELEM = {LINEAGE: LOC, LINLIST: LOC, ACL: ACE, ACLLIST: ACE}


class Problem(Exception):
    pass


def u(node):
    try:
        return ast.unparse(node)
    except Exception:
        return '<%s>' % type(node).__name__


# ---- Gallina terms
class Term:
    def key(self):
        raise NotImplementedError


class V(Term):
    def __init__(self, name):
        self.name = name

    def key(self):
        return ('V', self.name)


class K(Term):
    """a constant of Model/C11_base.v / Gen constants / stdlib"""

    def __init__(self, text):
        self.text = text

    def key(self):
        return ('K', self.text)


class A(Term):
    def __init__(self, fn, args):
        self.fn, self.args = fn, list(args)

    def key(self):
        return ('A', self.fn) + tuple(a.key() for a in self.args)


class If(Term):
    def __init__(self, atom, t, e):
        self.atom, self.t, self.e = atom, t, e

    def key(self):
        return ('If', self.atom.key(), self.t.key(), self.e.key())


class MOpt(Term):
    def __init__(self, scrut, none, var, some):
        self.scrut, self.none, self.var, self.some = scrut, none, var, some

    def key(self):
        return ('MOpt', self.scrut.key(), self.none.key(), self.var, self.some.key())


class Loop:
    def __init__(self, n, elem_ty, ret_ty):
        self.n = n
        self.f, self.l, self.t, self.i = 'loop%d' % n, 'l%d' % n, 't%d' % n, 'i%d' % n
        self.elem_ty, self.ret_ty = elem_ty, ret_ty
        self.x = None            # binder of the element
        self.carried = []        # [(python name, binder, type)]
        self.use_index = False
        self.iter_key = None


class Fix(Term):
    def __init__(self, loop, nil, cons, it, init):
        self.loop, self.nil, self.cons, self.it, self.init = loop, nil, cons, it, list(init)

    def key(self):
        return ('Fix', self.loop.n, self.nil.key(), self.cons.key(), self.it.key()) + tuple(a.key() for a in self.init)


class Jump(Term):
    """recursive call of a loop on the tail of its list"""

    def __init__(self, loop, args):
        self.loop, self.args = loop, list(args)

    def key(self):
        return ('Jump', self.loop.n) + tuple(a.key() for a in self.args)


# ---- conditions
def b_atom(t):
    return ('atom', t)


def b_not(b):
    return ('not', b)


def implied(b, pol, out):
    """literals (atom key -> bool) that certainly hold when b evaluates to pol"""
    k = b[0]
    if k == 'atom':
        out[b[1].key()] = pol
    elif k == 'not':
        implied(b[1], not pol, out)
    elif k == 'and' and pol:
        for x in b[1]:
            implied(x, True, out)
    elif k == 'or' and not pol:
        for x in b[1]:
            implied(x, False, out)
    return out


def mk_if(b, t, e):
    k = b[0]
    if k == 'const':
        return t if b[1] else e
    if k == 'atom':
        return t if t.key() == e.key() else If(b[1], t, e)
    if k == 'not':
        return mk_if(b[1], e, t)
    if k == 'and':
        return t if not b[1] else mk_if(b[1][0], mk_if(('and', b[1][1:]), t, e), e)
    if k == 'or':
        return e if not b[1] else mk_if(b[1][0], t, mk_if(('or', b[1][1:]), t, e))
    raise Problem('internal: condition %r' % (b,))


def b_term(b):
    k = b[0]
    if k == 'const':
        return K('true' if b[1] else 'false')
    if k == 'atom':
        return b[1]
    if k == 'not':
        return A('negb', [b_term(b[1])])
    if k in ('and', 'or'):
        ts = [b_term(x) for x in b[1]]
        out = ts[-1]
        for t in reversed(ts[:-1]):
            out = A('andb' if k == 'and' else 'orb', [t, out])
        return out
    raise Problem('internal: condition %r' % (b,))


ONE_SHOT_TESTS = ('perm_in_with', 'contains')


def simplify(t, known):
    """resolve tests already decided on the path; drop ifs with equal branches.
    A membership test in an ACE's permission field may CONSUME it (the field may be a one-shot iterator, e.g. a
    generator): evaluating the same test a second time on a path is not the same as remembering its first answer, so
    it is a Problem instead of being resolved."""
    if isinstance(t, If):
        ak = t.atom.key()
        if ak in known:
            if ak[0] == 'A' and ak[1] in ONE_SHOT_TESTS:
                raise Problem('the permission field of an ACE is tested for membership a second time on one path (it may '
                              'be a one-shot iterator, which the first test has consumed): %s' % render(t.atom, 0))
            return simplify(t.t if known[ak] else t.e, known)
        a = simplify(t.t, _with(known, ak, True))
        b = simplify(t.e, _with(known, ak, False))
        return a if a.key() == b.key() else If(t.atom, a, b)
    if isinstance(t, MOpt):
        return MOpt(t.scrut, simplify(t.none, known), t.var, simplify(t.some, known))
    if isinstance(t, Fix):
        return Fix(t.loop, simplify(t.nil, known), simplify(t.cons, known), t.it, t.init)
    return t


EXCLUSIVE = {'is_allow': 'is_deny', 'is_deny': 'is_allow'}


def _with(d, k, v):
    d = dict(d)
    d[k] = v
    # `a == Allow` and `a == Deny` cannot both hold (prop.facts checks that the two constants differ)
    if v and k[0] == 'A' and k[1] in EXCLUSIVE:
        d[('A', EXCLUSIVE[k[1]]) + tuple(k[2:])] = False
    return d


# ---- rendering
def render(t, ind):
    sp = ' ' * ind
    if isinstance(t, V):
        return t.name
    if isinstance(t, K):
        return t.text
    if isinstance(t, A):
        return '%s %s' % (t.fn, ' '.join(paren(a, ind) for a in t.args))
    if isinstance(t, Jump):
        lp = t.loop
        args = [lp.t] + (['(S %s)' % lp.i] if lp.use_index else []) + [paren(a, ind) for a in t.args]
        return '%s %s' % (lp.f, ' '.join(args))
    if isinstance(t, If):
        return 'if %s\n%sthen%s\n%selse%s' % (render(t.atom, ind), sp, render_in(t.t, ind + 2), sp, render_in(t.e, ind + 2))
    if isinstance(t, MOpt):
        return 'match %s with\n%s| None =>%s\n%s| Some %s =>%s\n%send' % (
            render(t.scrut, ind), sp, render_in(t.none, ind + 4), sp, t.var, render_in(t.some, ind + 4), sp)
    if isinstance(t, Fix):
        lp = t.loop
        bind = '(%s : list (%s))' % (lp.l, COQTY[lp.elem_ty])
        if lp.use_index:
            bind += ' (%s : nat)' % lp.i
        for _, b, ty in lp.carried:
            bind += ' (%s : %s)' % (b, COQTY[ty])
        args = [paren(t.it, ind)] + (['0'] if lp.use_index else []) + [paren(a, ind) for a in t.init]
        return '(fix %s %s {struct %s} : %s :=\n%s   match %s with\n%s   | [] =>%s\n%s   | %s :: %s =>%s\n%s   end) %s' % (
            lp.f, bind, lp.l, COQTY[lp.ret_ty], sp, lp.l, sp, render_in(t.nil, ind + 6), sp, lp.x, lp.t,
            render_in(t.cons, ind + 6), sp, ' '.join(args))
    raise Problem('internal: cannot render %r' % (t,))


def render_in(t, ind):
    """render as a branch body: compound terms go on their own line"""
    s = render(t, ind)
    if isinstance(t, (If, MOpt, Fix)):
        return '\n' + ' ' * ind + s
    return ' ' + s


def paren(t, ind):
    s = render(t, ind)
    return s if isinstance(t, (V, K)) and ' ' not in s else '(' + s + ')'


# ---- the functions and their signatures (parameters are bound by POSITION, so they may be renamed)
LEAVES = [
    dict(qual='is_nonstr_iter', file='pyramid/util.py', gen='gen_is_nonstr_iter', ret='bool',
         params=[(V('v'), 'perms(raw)')], sig='(v : perms) : bool', default='if is_str v then false else has_iter v'),
    dict(qual='AllPermissionsList.__contains__', file='pyramid/security.py', gen='gen_all_contains', ret='bool',
         params=[(None, 'erased'), (V('p'), 'text')], sig='(p : text) : bool', default='true'),
]
FUNCS = [
    dict(qual='ACLHelper.permits', gen='gen_permits', ret=DECISION,
         params=[(None, ERASED), (None, CTX), (V('ps'), SET), (V('p'), TEXT)],
         sig='(L : lineage) (ps : list text) (p : text) : decision'),
    dict(qual='ACLHelper.principals_allowed_by_permission', gen='gen_principals_allowed', ret=SET,
         params=[(None, ERASED), (None, CTX), (V('p'), TEXT)],
         sig='(L : lineage) (p : text) : list text'),
]

GLOBAL_VALUES = {'Allow': (K('Allow'), ACTION), 'Deny': (K('Deny'), ACTION),
                 'Everyone': (K('everyone'), TEXT), 'Authenticated': (K('authenticated'), TEXT)}
GLOBAL_FUNCS = ('lineage', 'is_nonstr_iter', 'ACLAllowed', 'ACLDenied')
BUILTINS = ('set', 'list', 'reversed', 'callable', 'AttributeError', 'isinstance', 'hasattr', 'str')
RESERVED = set(GLOBAL_VALUES) | set(GLOBAL_FUNCS) | set(BUILTINS)


def _coq_text(s):
    return '[' + '; '.join(str(ord(c)) for c in s) + ']%N' if s else '[]'


def _ident(s):
    ok = s.isascii() and s.isidentifier()
    if not ok:
        raise Problem('identifier %r cannot be used as a binder name' % s)
    return s


class FnTranslator:
    def __init__(self, fn, spec, extra=None):
        self.fn, self.spec = fn, spec
        self.extra = dict(extra or {})     # module-level str constants of the file of a leaf function: name -> (term, TEXT)
        self.nloops = 0
        self.loops_by_binder = {}      # element binder -> Loop
        self.some_of = {}              # binder bound by `Some a` -> key of the scrutinee term
        self.used_globals = set()
        self.some_depth = {}           # binder bound by `Some a` -> loop nesting depth at the binding
        self._consumed_now = []        # one-shot ACL values consumed by the expression just translated

    # ------------------------------------------------------------ entry
    def translate(self):
        fn = self.fn
        if not isinstance(fn, ast.FunctionDef) or fn.decorator_list:
            raise Problem('not a plain undecorated def')
        a = fn.args
        if a.vararg or a.kwarg or a.kwonlyargs or a.defaults or a.kw_defaults or getattr(a, 'posonlyargs', []):
            raise Problem('unexpected parameter list (defaults, *args, **kwargs, keyword-only)')
        if len(a.args) != len(self.spec['params']):
            raise Problem('expected %d parameters, found %d' % (len(self.spec['params']), len(a.args)))
        env = {}
        for arg, (obj, ty) in zip(a.args, self.spec['params']):
            env[arg.arg] = (obj, ty)
        # a table name that is assigned anywhere in the function is a local throughout (Python scoping)
        for n in ast.walk(fn):
            if isinstance(n, ast.Name) and isinstance(n.ctx, (ast.Store, ast.Del)) and n.id in RESERVED:
                raise Problem('the name %s of the primitive table is rebound inside the function' % n.id)
            if isinstance(n, ast.arg) and n.arg in RESERVED:
                raise Problem('the name %s of the primitive table is a parameter' % n.arg)
            if isinstance(n, (ast.Global, ast.Nonlocal, ast.Lambda, ast.ListComp, ast.SetComp, ast.DictComp,
                              ast.GeneratorExp, ast.NamedExpr, ast.Await, ast.Yield, ast.YieldFrom)) or \
                    (isinstance(n, (ast.FunctionDef, ast.AsyncFunctionDef, ast.ClassDef)) and n is not fn):
                raise Problem('construct outside the subset: %s' % type(n).__name__)
        env['#depth'] = (0, '#')
        env['#consumed'] = (frozenset(), '#')
        body = list(fn.body)

        def k_end(env2, facts):
            raise Problem('control can reach the end of the function without a return')
        t = self.block(body, env, {}, k_end, None)
        return simplify(t, {})

    # ------------------------------------------------------------ statements
    def block(self, stmts, env, facts, k, jumps):
        if not stmts:
            return k(env, facts)
        s, rest = stmts[0], stmts[1:]

        def k_next(env2, facts2):
            return self.block(rest, env2, facts2, k, jumps)

        self._consumed_now = []

        if isinstance(s, ast.Expr) and isinstance(s.value, ast.Constant) and isinstance(s.value.value, str):
            return k_next(env, facts)                                   # docstring / bare string
        if isinstance(s, ast.Pass):
            return k_next(env, facts)
        if isinstance(s, ast.Return):
            if s.value is None:
                raise Problem('bare return')
            obj, ty = self.expr(s.value, env)
            want = self.spec['ret']
            if not (ty == want or (want == SET and ty == SETOWN)):
                raise Problem('return of a %s where a %s is expected: %s' % (ty, want, u(s)))
            self.no_consumption(s)
            if ty == BOOL:
                return mk_if(obj, K('true'), K('false'))
            return obj
        if isinstance(s, ast.Continue):
            if jumps is None:
                raise Problem('continue outside a loop')
            return jumps[0](env, facts)
        if isinstance(s, ast.Break):
            if jumps is None:
                raise Problem('break outside a loop')
            return jumps[1](env, facts)
        if isinstance(s, ast.Assign):
            return k_next(self.consume(self.assign(s, env), s), facts)
        if isinstance(s, ast.Expr):
            env2 = self.method_stmt(s, env, facts)
            self.no_consumption(s)
            return k_next(env2, facts)
        if isinstance(s, ast.If):
            env2 = self.idiom(s, env)
            if env2 is not None:
                return k_next(env2, facts)
            c = self.cond(s.test, env)
            self.no_consumption(s)
            ft = implied(c, True, dict(facts))
            fe = implied(c, False, dict(facts))
            t = self.block(list(s.body), env, ft, k_next, jumps)
            e = self.block(list(s.orelse), env, fe, k_next, jumps)
            return mk_if(c, t, e)
        if isinstance(s, ast.Try):
            return self.try_acl(s, env, facts, k_next, jumps)
        if isinstance(s, ast.For):
            return self.for_loop(s, env, facts, k_next)
        raise Problem('statement outside the subset: %s' % u(s).split('\n')[0])

    def no_consumption(self, s):
        if self._consumed_now:
            raise Problem('an __acl__ value is iterated inside an expression of: %s' % u(s).split('\n')[0])

    def consume(self, env, s):
        """an ACL read from X.__acl__ may be a one-shot iterator (a callable __acl__ written as a generator): it may
        be iterated at most once on a path, and only in the loop iteration that read it"""
        if not self._consumed_now:
            return env
        done = set(env['#consumed'][0])
        depth = env['#depth'][0]
        for t in self._consumed_now:
            if not isinstance(t, V) or t.name not in self.some_depth:
                raise Problem('iteration over an ACL value of unknown origin: %s' % u(s).split('\n')[0])
            if t.name in done:
                raise Problem('the value read from __acl__ is iterated a second time (it may be a one-shot iterator, '
                              'e.g. a generator returned by a callable __acl__): %s' % u(s).split('\n')[0])
            if self.some_depth[t.name] != depth:
                raise Problem('the value read from __acl__ outside this loop is iterated in every iteration of it '
                              '(it may be a one-shot iterator): %s' % u(s).split('\n')[0])
            done.add(t.name)
        self._consumed_now = []
        env = dict(env)
        env['#consumed'] = (frozenset(done), '#')
        return env

    def bind_ace(self, names, term, env):
        env = dict(env)
        for nm, (fn, ty) in zip(names, (('act', ACTION), ('who', TEXT), ('what', RAWPERMS))):
            env[nm] = (A(fn, [term]), ty)
        return env

    def assign(self, s, env):
        if len(s.targets) != 1:
            raise Problem('chained assignment: %s' % u(s))
        tg = s.targets[0]
        if isinstance(tg, ast.Tuple):
            if len(tg.elts) == 3 and all(isinstance(e, ast.Name) for e in tg.elts) \
                    and len({e.id for e in tg.elts}) == 3:
                obj, ty = self.expr(s.value, env)
                if ty != ACE:
                    raise Problem('3-tuple unpacking of a %s (only an ACE is a 3-tuple): %s' % (ty, u(s)))
                return self.bind_ace([e.id for e in tg.elts], obj, env)
            raise Problem('unpacking outside the table: %s' % u(s))
        if not isinstance(tg, ast.Name):
            raise Problem('assignment target outside the subset: %s' % u(s))
        obj, ty = self.expr(s.value, env)
        if ty in (SETOWN,) and not (isinstance(s.value, ast.Call) and u(s.value) == 'set()'):
            raise Problem('a second name for a mutable set (aliasing is not modelled): %s' % u(s))
        if ty == SET and isinstance(s.value, ast.Name):
            pass                                                         # read-only alias of principals: harmless
        env = dict(env)
        env[tg.id] = (obj, ty)
        return env

    def method_stmt(self, s, env, facts):
        c = s.value
        if not (isinstance(c, ast.Call) and isinstance(c.func, ast.Attribute) and isinstance(c.func.value, ast.Name)
                and not c.keywords and len(c.args) == 1):
            raise Problem('expression statement outside the subset: %s' % u(s))
        name, meth = c.func.value.id, c.func.attr
        if name not in env:
            raise Problem('method call on an unbound name: %s' % u(s))
        sobj, sty = env[name]
        if sty != SETOWN:
            raise Problem('%s: .%s on a %s (only sets created by set() in this function may be mutated)' % (u(s), meth, sty))
        aobj, aty = self.expr(c.args[0], env)
        if meth in ('add', 'discard', 'remove'):
            if aty != TEXT:
                raise Problem('%s: argument is a %s, expected a principal' % (u(s), aty))
            if meth == 'add':
                new = A('add', [aobj, sobj])
            else:
                if meth == 'remove' and facts.get(A('mem_text', [aobj, sobj]).key()) is not True:
                    raise Problem('%s: set.remove not dominated by a true membership test (may raise KeyError)' % u(s))
                new = A('remove', [aobj, sobj])
        elif meth == 'update':
            if aty not in (SET, SETOWN):
                raise Problem('%s: argument is a %s, expected a set' % (u(s), aty))
            new = A('union', [sobj, aobj])
        else:
            raise Problem('method outside the table: %s' % u(s))
        env = dict(env)
        env[name] = (new, SETOWN)
        return env

    def idiom(self, s, env):
        """statement-level table entries; returns the new env, or None when the statement is an ordinary `if`"""
        t = s.test
        mentions = {n.func.id for n in ast.walk(t) if isinstance(n, ast.Call) and isinstance(n.func, ast.Name)}
        if not (mentions & {'is_nonstr_iter', 'callable'}):
            return None
        # from here on the statement must be exactly one of the two idioms
        asg = s.body[0] if len(s.body) == 1 else None
        if s.orelse or not isinstance(asg, ast.Assign) or len(asg.targets) != 1 \
                or not isinstance(asg.targets[0], ast.Name):
            raise Problem('is_nonstr_iter / callable test outside the table idioms: %s' % u(s).split('\n')[0])
        v = asg.targets[0].id
        val = asg.value
        # if not is_nonstr_iter(v): v = [v]
        if isinstance(t, ast.UnaryOp) and isinstance(t.op, ast.Not) and self.is_call(t.operand, 'is_nonstr_iter', v):
            if isinstance(val, (ast.List, ast.Tuple)) and len(val.elts) == 1 and isinstance(val.elts[0], ast.Name) \
                    and val.elts[0].id == v:
                if v not in env or env[v][1] not in (RAWPERMS, PERMS):
                    raise Problem('is_nonstr_iter normalisation of something that is not an ACE permission field: %s' % u(s))
                if env[v][1] != RAWPERMS:
                    raise Problem('is_nonstr_iter normalisation applied twice: %s' % u(s))
                self.used_globals.add('is_nonstr_iter')
                env = dict(env)
                env[v] = (A('normalise', [K('gen_is_nonstr_iter'), env[v][0]]), PERMS)
                return env
            raise Problem('is_nonstr_iter test with an unexpected body: %s' % u(s))
        # if v and callable(v): v = v()      /     if callable(v): v = v()
        ok = self.is_call(t, 'callable', v) or (
            isinstance(t, ast.BoolOp) and isinstance(t.op, ast.And) and len(t.values) == 2
            and isinstance(t.values[0], ast.Name) and t.values[0].id == v and self.is_call(t.values[1], 'callable', v))
        if ok:
            if isinstance(val, ast.Call) and isinstance(val.func, ast.Name) and val.func.id == v \
                    and not val.args and not val.keywords:
                if v not in env or env[v][1] != ACL:
                    raise Problem('callable(..) idiom on something that is not an __acl__ value: %s' % u(s))
                self.used_globals.add('callable')
                return env
            raise Problem('callable(..) test with an unexpected body: %s' % u(s))
        raise Problem('is_nonstr_iter / callable test outside the table idioms: %s' % u(s).split('\n')[0])

    @staticmethod
    def is_call(n, fname, argname):
        return isinstance(n, ast.Call) and isinstance(n.func, ast.Name) and n.func.id == fname and not n.keywords \
            and len(n.args) == 1 and isinstance(n.args[0], ast.Name) and n.args[0].id == argname

    def try_acl(self, s, env, facts, k_next, jumps):
        ok = (len(s.body) == 1 and not s.orelse and not s.finalbody and len(s.handlers) == 1
              and isinstance(s.body[0], ast.Assign) and len(s.body[0].targets) == 1
              and isinstance(s.body[0].targets[0], ast.Name)
              and isinstance(s.body[0].value, ast.Attribute) and s.body[0].value.attr == '__acl__'
              and isinstance(s.handlers[0].type, ast.Name) and s.handlers[0].type.id == 'AttributeError'
              and s.handlers[0].name is None)
        if not ok:
            raise Problem('try statement outside the table (expected try: v = X.__acl__ / except AttributeError: ..): %s'
                          % u(s).split('\n')[0])
        v = s.body[0].targets[0].id
        xobj, xty = self.expr(s.body[0].value.value, env)
        if xty != LOC:
            raise Problem('__acl__ read from a %s, expected a lineage element: %s' % (xty, u(s.body[0])))
        self.used_globals.add('AttributeError')
        binder = 'a_%s_%d' % (_ident(v), len(self.some_of) + 1)
        self.some_of[binder] = xobj.key()
        self.some_depth[binder] = env['#depth'][0]
        none = self.block(list(s.handlers[0].body), env, facts, k_next, jumps)
        env2 = dict(env)
        env2[v] = (V(binder), ACL)
        some = k_next(env2, facts)
        return MOpt(xobj, none, binder, some)

    def for_loop(self, s, env, facts, k_rest):
        if s.orelse:
            raise Problem('for .. else')
        itobj, itty = self.expr(s.iter, env, iterctx=True)
        if itty not in ELEM:
            raise Problem('loop over a %s: %s' % (itty, u(s.iter)))
        if itty == ACL:
            self._consumed_now.append(itobj)
        env = self.consume(env, s)
        self.nloops += 1
        lp = Loop(self.nloops, ELEM[itty], self.spec['ret'])
        lp.iter_key = itobj.key()
        # element binder and loop target
        tg = s.target
        if isinstance(tg, ast.Name):
            lp.x = 'x_%s_%d' % (_ident(tg.id), lp.n)
            tnames = [tg.id]
        elif isinstance(tg, ast.Tuple) and lp.elem_ty == ACE and len(tg.elts) == 3 \
                and all(isinstance(e, ast.Name) for e in tg.elts) and len({e.id for e in tg.elts}) == 3:
            lp.x = 'x_ace_%d' % lp.n
            tnames = [e.id for e in tg.elts]
        else:
            raise Problem('loop target outside the subset: %s' % u(tg))
        self.loops_by_binder[lp.x] = lp
        # loop-carried variables: assigned in the body, bound at entry; ordered by first occurrence in the body
        assigned = []
        occurs = []
        for n in self.names_in_order(s.body):
            if n.id not in occurs:
                occurs.append(n.id)
        for n in self.stores_in(s.body):
            if n not in assigned:
                assigned.append(n)
        carried, poisoned = [], []
        for nm in occurs:
            if nm in assigned and nm in env and nm not in tnames:
                obj, ty = env[nm]
                if ty in (ERASED, CTX) or obj is None:
                    poisoned.append(nm)
                else:
                    carried.append((nm, 'c_%s_%d' % (_ident(nm), lp.n), ty))
        lp.carried = carried
        env_head = dict(env)
        for nm in tnames:
            # the loop target overwrites a variable of the same name; after the loop it is not available
            env_head.pop(nm, None)
        for nm in poisoned:
            env_head[nm] = (None, ERASED)
        for nm, b, ty in carried:
            env_head[nm] = (b_atom(V(b)) if ty == BOOL else V(b), ty)

        def after(env2):
            """environment after the loop: the entry environment with the carried variables' current values"""
            out = dict(env_head)
            for nm, b, ty in carried:
                if nm not in env2 or env2[nm][1] != ty:
                    raise Problem('loop-carried variable %s changes type inside the loop (%s -> %s)' % (
                        nm, ty, env2.get(nm, (None, 'unbound'))[1]))
                out[nm] = env2[nm]
            return out

        def args_of(env2):
            a = after(env2)
            return [b_term(a[nm][0]) if ty == BOOL else a[nm][0] for nm, _, ty in carried]

        def k_continue(env2, facts2):
            return Jump(lp, args_of(env2))

        def k_break(env2, facts2):
            return k_rest(after(env2), facts2)

        env_body = dict(env_head)
        env_body['#depth'] = (env['#depth'][0] + 1, '#')
        xterm = V(lp.x)
        if len(tnames) == 1:
            env_body[tnames[0]] = (xterm, lp.elem_ty)
        else:
            env_body = self.bind_ace(tnames, xterm, env_body)
        cons = self.block(list(s.body), env_body, facts, k_continue, (k_continue, k_break))
        nil = k_rest(dict(env_head), facts)
        init = []
        for nm, _, ty in carried:
            obj = env[nm][0]
            init.append(b_term(obj) if ty == BOOL else obj)
        return Fix(lp, nil, cons, itobj, init)

    @staticmethod
    def names_in_order(stmts):
        out = []

        class Vis(ast.NodeVisitor):
            def visit_Name(self, n):
                out.append(n)
        for st in stmts:
            Vis().visit(st)
        return out

    @staticmethod
    def stores_in(stmts):
        """names (re)bound in the statements: assignment targets, loop targets, receivers of mutating methods"""
        out = []
        for st in stmts:
            for n in ast.walk(st):
                if isinstance(n, ast.Name) and isinstance(n.ctx, ast.Store):
                    out.append(n.id)
                if isinstance(n, ast.Call) and isinstance(n.func, ast.Attribute) and isinstance(n.func.value, ast.Name):
                    out.append(n.func.value.id)
        return out

    # ------------------------------------------------------------ expressions
    def cond(self, n, env):
        obj, ty = self.expr(n, env)
        if ty != BOOL:
            raise Problem('truth value of a %s is outside the table: %s' % (ty, u(n)))
        return obj

    def expr(self, n, env, iterctx=False):
        if isinstance(n, ast.Name):
            if n.id in env:
                obj, ty = env[n.id]
                return obj, ty
            if n.id in self.extra:
                return self.extra[n.id]
            if n.id in GLOBAL_VALUES and not self.spec.get('file'):
                self.used_globals.add(n.id)
                return GLOBAL_VALUES[n.id]
            raise Problem('name %s is unbound here (or local to a loop iteration), or outside the table' % n.id)
        if isinstance(n, ast.Constant) and isinstance(n.value, str):
            if self.spec.get('file') and n.value.isascii():
                return K(_coq_text(n.value)), TEXT          # leaf functions compare names with literals
            return None, ERASED
        if isinstance(n, ast.Constant) and isinstance(n.value, bool):
            return ('const', n.value), BOOL
        if isinstance(n, ast.UnaryOp) and isinstance(n.op, ast.Not):
            return b_not(self.cond(n.operand, env)), BOOL
        if isinstance(n, ast.BoolOp):
            return ('and' if isinstance(n.op, ast.And) else 'or', [self.cond(v, env) for v in n.values]), BOOL
        if isinstance(n, ast.Compare):
            if len(n.ops) != 1:
                raise Problem('chained comparison: %s' % u(n))
            return self.compare(n.ops[0], n.left, n.comparators[0], env, n), BOOL
        if isinstance(n, ast.Call):
            return self.call(n, env, iterctx)
        raise Problem('expression outside the table: %s' % u(n))

    def compare(self, op, l, r, env, whole):
        lobj, lty = self.expr(l, env)
        robj, rty = self.expr(r, env)
        if lobj is None or robj is None:
            raise Problem('comparison with an unmodelled value: %s' % u(whole))
        if isinstance(op, (ast.Eq, ast.NotEq)):
            if lty == TEXT and rty == TEXT:
                if isinstance(lobj, K) and not isinstance(robj, K):
                    lobj, robj = robj, lobj
                b = b_atom(A('text_eqb', [lobj, robj]))
            elif lty == ACTION and rty == ACTION:
                if isinstance(lobj, K) and not isinstance(robj, K):
                    lobj, robj = robj, lobj
                if not isinstance(robj, K) or isinstance(lobj, K):
                    raise Problem('comparison of two ACE actions / two constants is outside the table: %s' % u(whole))
                b = b_atom(A('is_allow' if robj.text == 'Allow' else 'is_deny', [lobj]))
            else:
                raise Problem('== between a %s and a %s is outside the table: %s' % (lty, rty, u(whole)))
            return b_not(b) if isinstance(op, ast.NotEq) else b
        if isinstance(op, (ast.In, ast.NotIn)):
            if lty == TEXT and rty in (SET, SETOWN):
                b = b_atom(A('mem_text', [lobj, robj]))
            elif lty == TEXT and rty == PERMS and isinstance(robj, A) and robj.fn == 'normalise':
                b = b_atom(A('perm_in_with', [K('gen_is_nonstr_iter'), K('gen_all_contains'), lobj, robj.args[1]]))
            elif lty == TEXT and rty == RAWPERMS:
                # no normalisation on this path: Python's own `in` on the raw object (substring test on a bare str)
                b = b_atom(A('contains', [K('gen_all_contains'), lobj, A('Self', [robj])]))
            else:
                raise Problem('`in` between a %s and a %s is outside the table: %s' % (lty, rty, u(whole)))
            return b_not(b) if isinstance(op, ast.NotIn) else b
        raise Problem('comparison operator outside the table: %s' % u(whole))

    def call(self, n, env, iterctx):
        if n.keywords or not isinstance(n.func, ast.Name) or n.func.id in env:
            raise Problem('call outside the table: %s' % u(n))
        f = n.func.id
        if f == 'set' and not n.args:
            self.used_globals.add(f)
            return K('[]'), SETOWN
        if f == 'isinstance' and len(n.args) == 2 and isinstance(n.args[1], ast.Name) and n.args[1].id == 'str' \
                and 'str' not in env:
            obj, ty = self.expr(n.args[0], env)
            if ty != RAWPERMS:
                raise Problem('isinstance(.., str) of a %s is outside the table: %s' % (ty, u(n)))
            self.used_globals.update(('isinstance', 'str'))
            return b_atom(A('is_str', [obj])), BOOL
        if f == 'hasattr' and len(n.args) == 2 and isinstance(n.args[1], ast.Constant) and n.args[1].value == '__iter__':
            obj, ty = self.expr(n.args[0], env)
            if ty != RAWPERMS:
                raise Problem('hasattr(.., "__iter__") of a %s is outside the table: %s' % (ty, u(n)))
            self.used_globals.add('hasattr')
            return b_atom(A('has_iter', [obj])), BOOL
        if f == 'lineage' and len(n.args) == 1:
            if not iterctx:
                raise Problem('lineage(..) is a generator: only as a loop iterable or directly inside list(..)')
            obj, ty = self.expr(n.args[0], env)
            if ty != CTX:
                raise Problem('lineage of something other than the context parameter: %s' % u(n))
            self.used_globals.add(f)
            return K('L'), LINEAGE
        if f == 'list' and len(n.args) == 1:
            obj, ty = self.expr(n.args[0], env, iterctx=True)
            if ty not in (LINEAGE, LINLIST, ACL, ACLLIST):
                raise Problem('list(..) of a %s: %s' % (ty, u(n)))
            if ty == ACL:
                self._consumed_now.append(obj)
            self.used_globals.add(f)
            return obj, {LINEAGE: LINLIST, ACL: ACLLIST}.get(ty, ty)
        if f == 'reversed' and len(n.args) == 1:
            if not iterctx:
                raise Problem('reversed(..) is an iterator: only as a loop iterable or directly inside list(..)')
            obj, ty = self.expr(n.args[0], env)
            if ty not in (LINLIST, ACLLIST):
                raise Problem('reversed(..) of a %s (needs a sequence: list(..) it first): %s' % (ty, u(n)))
            self.used_globals.add(f)
            return A('rev', [obj]), ty
        if f in ('ACLAllowed', 'ACLDenied') and len(n.args) == 5:
            self.used_globals.add(f)
            a_ace, a_acl, a_perm, a_princ, a_ctx = n.args
            for arg, types in ((a_acl, (ACL, ACLLIST, ERASED)), (a_perm, (TEXT,)), (a_princ, (SET,))):
                obj, ty = self.expr(arg, env)
                if ty not in types:
                    raise Problem('%s: argument %s is a %s' % (u(n).split('(')[0], u(arg), ty))
            o1, t1 = self.expr(a_ace, env)
            o5, t5 = self.expr(a_ctx, env)
            if t1 == ERASED and isinstance(a_ace, ast.Constant) and t5 == CTX:
                if f != 'ACLDenied':
                    raise Problem('ACLAllowed without an ACE: %s' % u(n))
                return K('DefaultDeny'), DECISION
            if t1 == ACE and t5 == LOC and isinstance(o1, V) and isinstance(o5, V) \
                    and o1.name in self.loops_by_binder and o5.name in self.loops_by_binder:
                la, ll = self.loops_by_binder[o1.name], self.loops_by_binder[o5.name]
                # the ACE loop must run over the ACL read from that very location, the location loop over L itself
                src = la.iter_key
                if not (src[0] == 'V' and self.some_of.get(src[1]) == o5.key() and ll.iter_key == K('L').key()):
                    raise Problem('%s: the (ace, location) pair is not (element of location.__acl__, element of '
                                  'lineage(context))' % u(n).split('(')[0])
                la.use_index = ll.use_index = True
                return A('Allowed' if f == 'ACLAllowed' else 'Denied', [V(ll.i), V(la.i)]), DECISION
            raise Problem('%s with arguments outside the table: %s' % (f, u(n)))
        raise Problem('call outside the table: %s' % u(n))


# ---- module-level bindings the table relies on
def check_globals(tree, used, problems):
    binds = {}

    def add(name, how):
        binds.setdefault(name, []).append(how)

    def walk(stmts):
        for st in stmts:
            if isinstance(st, (ast.FunctionDef, ast.AsyncFunctionDef)):
                add(st.name, 'def')
            elif isinstance(st, ast.ClassDef):
                body = [b for b in st.body if not (isinstance(b, ast.Expr) and isinstance(b.value, ast.Constant))]
                trivial = len(body) == 1 and isinstance(body[0], ast.Pass) and len(st.bases) == 1 \
                    and isinstance(st.bases[0], ast.Name) and not st.keywords and not st.decorator_list
                add(st.name, 'class(%s)' % st.bases[0].id if trivial else 'class')
            elif isinstance(st, ast.ImportFrom):
                for al in st.names:
                    add(al.asname or al.name, 'from %s import %s' % (st.module, al.name))
            elif isinstance(st, ast.Import):
                for al in st.names:
                    add((al.asname or al.name).split('.')[0], 'import')
            elif isinstance(st, (ast.Assign, ast.AnnAssign, ast.AugAssign)):
                tgs = st.targets if isinstance(st, ast.Assign) else [st.target]
                for tg in tgs:
                    for nn in ast.walk(tg):
                        if isinstance(nn, ast.Name):
                            self_assign = isinstance(st, ast.Assign) and len(st.targets) == 1 and \
                                isinstance(st.value, ast.Name) and st.value.id == nn.id and isinstance(tg, ast.Name)
                            add(nn.id, 'self-assign' if self_assign else 'assign')
            elif isinstance(st, (ast.With, ast.If, ast.Try, ast.For, ast.While)):
                for field in ('body', 'orelse', 'finalbody'):
                    walk(getattr(st, field, []) or [])
                for h in getattr(st, 'handlers', []) or []:
                    walk(h.body)
                if isinstance(st, ast.For):
                    for nn in ast.walk(st.target):
                        if isinstance(nn, ast.Name):
                            add(nn.id, 'assign')
                if isinstance(st, ast.With):
                    for it in st.items:
                        if it.optional_vars is not None:
                            for nn in ast.walk(it.optional_vars):
                                if isinstance(nn, ast.Name):
                                    add(nn.id, 'assign')
            elif isinstance(st, ast.Delete):
                for tg in st.targets:
                    for nn in ast.walk(tg):
                        if isinstance(nn, ast.Name):
                            add(nn.id, 'del')
    walk(tree.body)
    want = {
        'lineage': [['from pyramid.location import lineage']],
        'is_nonstr_iter': [['from pyramid.util import is_nonstr_iter']],
        'ACLAllowed': [['class(_ACLAllowed)']],
        'ACLDenied': [['class(_ACLDenied)']],
        '_ACLAllowed': [['from pyramid.security import ACLAllowed']],
        '_ACLDenied': [['from pyramid.security import ACLDenied']],
        'ACLHelper': [['class']],
    }
    for nm in GLOBAL_VALUES:
        want[nm] = [['from pyramid.security import %s' % nm], ['from pyramid.security import %s' % nm, 'self-assign']]
    names = set(used)
    if 'ACLAllowed' in names:
        names.add('_ACLAllowed')
    if 'ACLDenied' in names:
        names.add('_ACLDenied')
    for nm in sorted(names):
        got = binds.get(nm, [])
        if nm in BUILTINS:
            if got:
                problems.append('translator: builtin %s is rebound at module level in authorization.py (%s)' % (nm, got))
        elif got not in want.get(nm, []):
            problems.append('translator: module-level binding of %s in authorization.py is %s, expected %s'
                            % (nm, got or 'missing', want.get(nm)))


# ---- delegation wrappers
DELEG_CLASS = 'ACLAuthorizationPolicy'
DELEG = [
    dict(name='permits', gen='gen_policy_permits', callee='gen_permits', types=[CTX, SET, TEXT],
         sig='(L : lineage) (ps : list text) (p : text) : decision'),
    dict(name='principals_allowed_by_permission', gen='gen_policy_principals_allowed', callee='gen_principals_allowed',
         types=[CTX, TEXT], sig='(L : lineage) (p : text) : list text'),
]
COQVAR = {CTX: 'L', SET: 'ps', TEXT: 'p'}


def _body(fn):
    b = list(fn.body)
    if b and isinstance(b[0], ast.Expr) and isinstance(b[0].value, ast.Constant) and isinstance(b[0].value.value, str):
        b = b[1:]
    return b


def _plain_params(fn, n):
    a = fn.args
    if fn.decorator_list or a.vararg or a.kwarg or a.kwonlyargs or a.defaults or a.kw_defaults \
            or getattr(a, 'posonlyargs', []) or len(a.args) != n:
        raise Problem('unexpected signature / decorators')
    return [x.arg for x in a.args]


def translate_wrappers(tree):
    """-> {gen name: body text}; raises Problem"""
    cls = [c for c in tree.body if isinstance(c, ast.ClassDef) and c.name == DELEG_CLASS]
    if len(cls) != 1:
        raise Problem('class %s not found exactly once' % DELEG_CLASS)
    c = cls[0]
    if c.bases or c.keywords:
        raise Problem('class %s has base classes' % DELEG_CLASS)
    if [u(d) for d in c.decorator_list] != ['implementer(IAuthorizationPolicy)']:
        raise Problem('decorators of %s are %s' % (DELEG_CLASS, [u(d) for d in c.decorator_list]))
    members = {}
    for st in _body(c):
        if not isinstance(st, ast.FunctionDef) or st.name in members:
            raise Problem('member of %s outside the subset: %s' % (DELEG_CLASS, u(st).split('\n')[0][:60]))
        members[st.name] = st
    if sorted(members) != sorted(['__init__'] + [d['name'] for d in DELEG]):
        raise Problem('members of %s are %s' % (DELEG_CLASS, sorted(members)))
    # __init__
    init = members['__init__']
    (slf,) = _plain_params(init, 1)
    b = _body(init)
    ok = (len(b) == 1 and isinstance(b[0], ast.Assign) and len(b[0].targets) == 1
          and isinstance(b[0].targets[0], ast.Attribute) and isinstance(b[0].targets[0].value, ast.Name)
          and b[0].targets[0].value.id == slf and u(b[0].value) == 'ACLHelper()')
    if not ok:
        raise Problem('%s.__init__ is not `self.<attr> = ACLHelper()`' % DELEG_CLASS)
    attr = b[0].targets[0].attr
    if attr in members:
        raise Problem('%s.__init__ overwrites the method %s' % (DELEG_CLASS, attr))
    out = {}
    for d in DELEG:
        fn = members[d['name']]
        params = _plain_params(fn, 1 + len(d['types']))
        if len(set(params)) != len(params):
            raise Problem('%s.%s: duplicate parameters' % (DELEG_CLASS, d['name']))
        ptype = dict(zip(params[1:], d['types']))
        b = _body(fn)
        r = b[0].value if len(b) == 1 and isinstance(b[0], ast.Return) else None
        ok = (isinstance(r, ast.Call) and not r.keywords and isinstance(r.func, ast.Attribute)
              and r.func.attr == d['name'] and isinstance(r.func.value, ast.Attribute) and r.func.value.attr == attr
              and isinstance(r.func.value.value, ast.Name) and r.func.value.value.id == params[0]
              and len(r.args) == len(d['types']) and all(isinstance(x, ast.Name) for x in r.args))
        if not ok:
            raise Problem('%s.%s is not `return self.%s.%s(<parameters>)`' % (DELEG_CLASS, d['name'], attr, d['name']))
        args = []
        for x, want in zip(r.args, d['types']):
            if ptype.get(x.id) != want:
                raise Problem('%s.%s passes %s (a %s) where the helper expects the %s' % (
                    DELEG_CLASS, d['name'], x.id, ptype.get(x.id, 'non-parameter'), want))
            args.append(COQVAR[want])
        out[d['gen']] = '%s %s' % (d['callee'], ' '.join(args))
    return out


def check_class(tree, problems):
    """ACLHelper must be a plain class whose only members are the two translated methods (no __init__,
    no bases, no decorators, no class attributes): anything else could change what a call executes"""
    cls = [c for c in tree.body if isinstance(c, ast.ClassDef) and c.name == 'ACLHelper']
    if len(cls) != 1:
        problems.append('translator: class ACLHelper not found exactly once in authorization.py')
        return
    c = cls[0]
    if c.bases or c.keywords or c.decorator_list:
        problems.append('translator: class ACLHelper has bases / keywords / decorators')
    members = []
    for st in c.body:
        if isinstance(st, ast.Expr) and isinstance(st.value, ast.Constant) and isinstance(st.value.value, str):
            continue
        members.append(st.name if isinstance(st, ast.FunctionDef) else '<%s>' % u(st).split('\n')[0][:60])
    want = [f['qual'].split('.')[1] for f in FUNCS]
    if sorted(members) != sorted(want):
        problems.append('translator: members of class ACLHelper are %s, expected exactly %s' % (members, want))


# ---- driver
def load_fallback():
    try:
        with open(FALLBACK) as f:
            return json.load(f)
    except (OSError, ValueError):
        return {}


def find_method(tree, qual):
    node = tree
    for part in qual.split('.'):
        nxt = [c for c in node.body if isinstance(c, (ast.FunctionDef, ast.ClassDef)) and c.name == part]
        if len(nxt) != 1:
            return None
        node = nxt[0]
    return node


def module_bindings(tree):
    """names bound at module level (any statement form), with multiplicity"""
    out = {}
    for st in ast.walk(tree):
        if isinstance(st, (ast.FunctionDef, ast.AsyncFunctionDef, ast.ClassDef)):
            out[st.name] = out.get(st.name, 0) + 1
    for st in tree.body:
        for n in ast.walk(st):
            if isinstance(n, (ast.FunctionDef, ast.AsyncFunctionDef, ast.ClassDef, ast.Lambda)) and n is not st:
                continue
            if isinstance(n, ast.Name) and isinstance(n.ctx, (ast.Store, ast.Del)):
                out[n.id] = out.get(n.id, 0) + 1
            if isinstance(n, ast.alias):
                nm = (n.asname or n.name).split('.')[0]
                out[nm] = out.get(nm, 0) + 1
    return out


def translate_leaf(spec, text, problems):
    """-> Gallina body text or None (problems appended)"""
    rel = spec['file']
    if text is None:
        problems.append('translator: cannot read %s' % rel)
        return None
    try:
        tree = ast.parse(text)
    except SyntaxError as e:
        problems.append('translator: cannot parse %s: %s' % (rel, e))
        return None
    fn = find_method(tree, spec['qual'])
    if fn is None:
        problems.append('translator: %s not found (exactly once, at its usual place) in %s' % (spec['qual'], rel))
        return None
    binds = module_bindings(tree)
    top = spec['qual'].split('.')[0]
    if binds.get(top, 0) != 1:
        problems.append('translator: %s is bound %d times in %s' % (top, binds.get(top, 0), rel))
        return None
    for b in ('isinstance', 'hasattr', 'str', 'True', 'False'):
        if binds.get(b):
            problems.append('translator: builtin %s is rebound in %s' % (b, rel))
            return None
    if '.' in spec['qual']:
        cls = [c for c in tree.body if isinstance(c, ast.ClassDef) and c.name == top][0]
        members = []
        for st in cls.body:
            if isinstance(st, ast.Expr) and isinstance(st.value, ast.Constant) and isinstance(st.value.value, str):
                continue
            members.append(st.name if isinstance(st, ast.FunctionDef) else '<%s>' % u(st).split('\n')[0][:60])
        if cls.bases or cls.keywords or cls.decorator_list or sorted(members) != ['__contains__', '__eq__', '__iter__']:
            problems.append('translator: class %s of %s: bases/decorators/members are %s, expected a plain class with '
                            'exactly __contains__, __eq__, __iter__' % (top, rel, members))
            return None
    # module-level NAME = 'literal' (bound once) may be compared with
    extra = {}
    for st in tree.body:
        if isinstance(st, ast.Assign) and len(st.targets) == 1 and isinstance(st.targets[0], ast.Name) \
                and isinstance(st.value, ast.Constant) and isinstance(st.value.value, str) \
                and st.value.value.isascii() and binds.get(st.targets[0].id) == 1:
            extra[st.targets[0].id] = (K(_coq_text(st.value.value)), TEXT)
    tr = FnTranslator(fn, spec, extra)
    try:
        return render(tr.translate(), 2)
    except Problem as e:
        problems.append('translator: %s:%s: %s' % (rel, spec['qual'], e))
    except RecursionError:
        problems.append('translator: %s:%s: nesting too deep' % (rel, spec['qual']))
    return None


def translate_source(text, others=None):
    """text: authorization.py; others: {rel: text} of the files of the LEAVES (missing = unreadable)
    -> (coq text of the generated definitions, problems, summary)"""
    problems, out, summary = [], [], {}
    fb = load_fallback()
    others = others or {}
    # pyramid/location.py:lineage (generator with a while loop): harness/c11/translate_lineage.py
    body = translate_lineage.translate(others.get('pyramid/location.py'), problems)
    if body is None:
        summary['gen_lineage'] = 'FALLBACK (stored translation of the reference text)'
        body = fb.get('gen_lineage') or translate_lineage.DEFAULT
    else:
        summary['gen_lineage'] = 'translated from source (%d lines of Gallina)' % (body.count('\n') + 1)
    out.append('Definition gen_lineage %s :=\n  %s.\n' % (translate_lineage.SIG, body))
    for spec in LEAVES:
        gen = spec['gen']
        body = translate_leaf(spec, others.get(spec['file']), problems)
        if body is None:
            summary[gen] = 'FALLBACK (stored translation of the reference text)'
            body = fb.get(gen) or spec['default']
        else:
            summary[gen] = 'translated from source (%d lines of Gallina)' % (body.count('\n') + 1)
        out.append('Definition %s %s :=\n  %s.\n' % (gen, spec['sig'], body))
    try:
        tree = ast.parse(text)
    except SyntaxError as e:
        tree = None
        problems.append('translator: cannot parse authorization.py: %s' % e)
    used = set()
    if tree is not None:
        check_class(tree, problems)
    for spec in FUNCS:
        gen = spec['gen']
        body = None
        if tree is not None:
            fn = find_method(tree, spec['qual'])
            if fn is None:
                problems.append('translator: %s not found (exactly once) in authorization.py' % spec['qual'])
            else:
                tr = FnTranslator(fn, spec)
                try:
                    term = tr.translate()
                    body = render(term, 2)
                    used |= tr.used_globals
                except Problem as e:
                    problems.append('translator: %s: %s' % (spec['qual'], e))
                except RecursionError:
                    problems.append('translator: %s: nesting too deep' % spec['qual'])
        if body is None:
            summary[gen] = 'FALLBACK (stored translation of the reference text)'
            body = fb.get(gen)
            if body is None:
                problems.append('translator: no stored fallback for %s' % gen)
                body = {'gen_permits': 'DefaultDeny', 'gen_principals_allowed': '[]'}[gen]
        else:
            summary[gen] = 'translated from source (%d lines of Gallina)' % (body.count('\n') + 1)
        out.append('Definition %s %s :=\n  %s.\n' % (gen, spec['sig'], body))
    wr = None
    if tree is not None:
        try:
            wr = translate_wrappers(tree)
            used.add('ACLHelper')
        except Problem as e:
            problems.append('translator: %s' % e)
    for d in DELEG:
        if wr is None:
            summary[d['gen']] = 'FALLBACK (plain delegation)'
        else:
            summary[d['gen']] = 'translated from source (delegation)'
        body = (wr or {}).get(d['gen']) or '%s %s' % (d['callee'], ' '.join(COQVAR[t] for t in d['types']))
        out.append('Definition %s %s :=\n  %s.\n' % (d['gen'], d['sig'], body))
    if tree is not None:
        check_globals(tree, used, problems)
    # the public routes of pyramid/security.py: harness/c11/translate_entry.py
    eo, esum = translate_entry.translate(others.get('pyramid/security.py'), problems, fb)
    summary.update(esum)
    for g, sig, body in eo:
        out.append('Definition %s %s :=\n  %s.\n' % (g, sig, body))
    return '\n'.join(out), problems, summary


def _read(path):
    try:
        with open(path) as f:
            return f.read()
    except OSError:
        return None


def translate_tree(src_root):
    others = {spec['file']: _read(os.path.join(src_root, spec['file'])) for spec in LEAVES}
    others['pyramid/location.py'] = _read(os.path.join(src_root, 'pyramid/location.py'))
    path = os.path.join(src_root, 'pyramid/authorization.py')
    text = _read(path)
    if text is None:
        coq, problems, summary = translate_source('', others)
        return coq, ['translator: cannot read %s' % path] + problems, summary
    return translate_source(text, others)


if __name__ == '__main__':
    import sys
    root = sys.argv[1] if len(sys.argv) > 1 and not sys.argv[1].startswith('--') else '/repo/src'
    if '--write-fallback' in sys.argv:
        with open(os.path.join(root, 'pyramid/authorization.py')) as f:
            tree = ast.parse(f.read())
        fbs = {}
        for spec in FUNCS:
            tr = FnTranslator(find_method(tree, spec['qual']), spec)
            fbs[spec['gen']] = render(tr.translate(), 2)
        for spec in LEAVES:
            pr = []
            fbs[spec['gen']] = translate_leaf(spec, _read(os.path.join(root, spec['file'])), pr)
            assert fbs[spec['gen']] and not pr, pr
        pr = []
        eo, _ = translate_entry.translate(_read(os.path.join(root, 'pyramid/security.py')), pr, {})
        assert not pr, pr
        for g, sig, body in eo:
            fbs[g] = body
        fbs['gen_lineage'] = translate_lineage.translate(_read(os.path.join(root, 'pyramid/location.py')), pr)
        assert fbs['gen_lineage'] and not pr, pr
        with open(FALLBACK, 'w') as f:
            json.dump(fbs, f, indent=1, sort_keys=True)
        print('wrote', FALLBACK)
    else:
        coq, problems, summary = translate_tree(root)
        print(coq)
        for p in problems:
            print('PROBLEM:', p)
        print(summary)
