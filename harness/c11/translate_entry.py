"""C11 translator, part 3: the public routes of pyramid/security.py -> Gallina (regenerated on every run).

    SecurityAPIMixin.has_permission(self, permission, context=None)   -> gen_has_permission
    LegacySecurityPolicy.permits(self, request, context, permission)  -> gen_legacy_permits
    principals_allowed_by_permission(context, permission)             -> gen_sec_principals_allowed
    view_execution_permitted(context, request, name='')               -> gen_view_execution_permitted
  helpers that are inlined at their call sites (they must end in one `return <table expression>`):
    _get_security_policy(request), LegacySecurityPolicy._get_authn_policy / _get_authz_policy(self, request)

=== CONTROL FLOW (mechanical; straight-line code with early returns, continuation passing) =================
  v = e                  substitution (the variable stands for the abstract value of e from here on)
  if X is None: A else: B ; rest      a case split on the OPTIONAL abstract value X (see the table), the variable
                         narrowed in each branch, each branch followed by its own copy of <rest>
  return e / raise TypeError(..)      the result
  from pyramid.authorization import Everyone   (inside a function) binds the regenerated constant
=== PRIMITIVE TABLE (abstract values; R : registry of Model/C11_base.v) ====================================
  parameters by position: the request / self of the mixin; permission p; context (has_permission: optional, default
  None -> `given : option lineage`; a context resource is represented by the ACLs along its lineage)
  X.context (X the request)                        reqctx  (the lineage of request.context)
  X.registry, get_current_registry()               the registry R (the harness makes R current)
  R.queryUtility(ISecurityPolicy)                  optional; None iff has_policy R = false (else LegacySecurityPolicy)
  R.queryUtility(IAuthorizationPolicy)             optional; None iff has_authz R = false (else ACLAuthorizationPolicy)
  R.getUtility(IAuthenticationPolicy / IAuthorizationPolicy)   the legacy policies (present whenever has_policy R)
  A.effective_principals(request)                  ps   (what the authentication policy reports)
  Z.permits(context, principals, permission)       gen_policy_permits L ps p        (Z the authorization policy)
  Z.principals_allowed_by_permission(context, p)   gen_policy_principals_allowed L p
  P.permits(request, context, permission)          gen_legacy_permits L ps p        (P the security policy)
  Allowed('..')                                    NoPolicyAllowed (has_permission) / VAllowedNoPermission (view_execution_..)
  [Everyone]                                       [everyone]
  [IViewClassifier] + [providedBy(x) for x in (request, context)]     the lookup key (exactly this expression)
  R.adapters.lookup(key, ISecuredView, name=name)  optional: secured_view R   (IMultiView extends ISecuredView)
  R.adapters.lookup(key, IView, name=name)         optional: present iff plain_view R
  V.__permitted__(context, request)                view_permitted (fun perm => gen_legacy_permits L ps perm) V
                                                   (viewderivers._secured_view.permitted and MultiView.__permitted__/match:
                                                   name-blanked shape pins, modelled in C11_base.v)
Anything else -> Problem (fail-closed: stored fallback, broken tie).
"""
import ast


class Problem(Exception):
    pass


def u(n):
    try:
        return ast.unparse(n).split('\n')[0]
    except Exception:
        return '<%s>' % type(n).__name__


HELPERS = {
    '_get_security_policy': dict(qual='_get_security_policy', params=['req'], ret='optpolicy'),
    '_get_authn_policy': dict(qual='LegacySecurityPolicy._get_authn_policy', params=['legacy', 'req'], ret='authn'),
    '_get_authz_policy': dict(qual='LegacySecurityPolicy._get_authz_policy', params=['legacy', 'req'], ret='authz'),
}
FUNCS = [
    dict(qual='LegacySecurityPolicy.permits', gen='gen_legacy_permits', ret='decision',
         params=[('legacy', None), ('req', None), ('ctx', 'L'), ('perm', 'p')],
         sig='(L : lineage) (ps : list text) (p : text) : decision', default='gen_policy_permits L ps p'),
    dict(qual='SecurityAPIMixin.has_permission', gen='gen_has_permission', ret='hp',
         params=[('req', None), ('perm', 'p'), ('optctx', 'given')], defaults=[None],
         sig='(R : registry) (given : option lineage) (reqctx : lineage) (ps : list text) (p : text) : hp_result',
         default='if has_policy R then ByPolicy (gen_legacy_permits (match given with None => reqctx | Some c => c end) ps p) '
                 'else NoPolicyAllowed'),
    dict(qual='principals_allowed_by_permission', gen='gen_sec_principals_allowed', ret='set',
         params=[('ctx', 'L'), ('perm', 'p')],
         sig='(R : registry) (L : lineage) (p : text) : list text',
         default='if has_authz R then gen_policy_principals_allowed L p else [everyone]'),
    dict(qual='view_execution_permitted', gen='gen_view_execution_permitted', ret='vep',
         params=[('ctx', 'L'), ('req', None), ('name', None)], defaults=[''],
         sig='(R : registry) (L : lineage) (ps : list text) : vep_result',
         default='match secured_view R with Some v => view_permitted (fun perm => gen_legacy_permits L ps perm) v '
                 '| None => if plain_view R then VAllowedNoPermission else VTypeError end'),
]
TRANSLATED = ['pyramid/security.py:' + f['qual'] for f in FUNCS] + ['pyramid/security.py:' + h['qual'] for h in HELPERS.values()]
OPTIONAL = ('optctx', 'optpolicy', 'optauthz', 'optsecured', 'optplain')
IFACES = {('query', 'ISecurityPolicy'): ('optpolicy', None), ('query', 'IAuthorizationPolicy'): ('optauthz', None),
          ('get', 'IAuthenticationPolicy'): ('authn', None), ('get', 'IAuthorizationPolicy'): ('authz', None)}
PROVIDES = '[IViewClassifier] + [providedBy(x) for x in (%s, %s)]'


def find(tree, qual):
    node = tree
    for part in qual.split('.'):
        nxt = [c for c in node.body if isinstance(c, (ast.FunctionDef, ast.ClassDef)) and c.name == part]
        if len(nxt) != 1:
            return None
        node = nxt[0]
    return node


def body_of(fn):
    return [s for s in fn.body if not (isinstance(s, ast.Expr) and isinstance(s.value, ast.Constant)
                                       and isinstance(s.value.value, str))]


class Tr:
    def __init__(self, tree, spec):
        self.tree, self.spec = tree, spec
        self.n = 0
        self.depth = 0

    def fresh(self, p):
        self.n += 1
        return '%s%d' % (p, self.n)

    def check_sig(self, fn, n, defaults=()):
        a = fn.args
        if fn.decorator_list or a.vararg or a.kwarg or a.kwonlyargs or getattr(a, 'posonlyargs', []) or len(a.args) != n:
            raise Problem('%s: unexpected signature / decorators' % fn.name)
        got = [d.value if isinstance(d, ast.Constant) else Problem for d in a.defaults]
        if got != list(defaults):
            raise Problem('%s: parameter defaults are %s, expected %s' % (fn.name, [u(d) for d in a.defaults], list(defaults)))

    def translate(self):
        fn = find(self.tree, self.spec['qual'])
        if fn is None:
            raise Problem('%s not found (exactly once)' % self.spec['qual'])
        self.check_sig(fn, len(self.spec['params']), self.spec.get('defaults', ()))
        env = {a.arg: v for a, v in zip(fn.args.args, self.spec['params'])}
        self.ctxnames = [a.arg for a, v in zip(fn.args.args, self.spec['params']) if v[0] in ('ctx', 'optctx')]
        self.reqnames = [a.arg for a, v in zip(fn.args.args, self.spec['params']) if v[0] == 'req']
        return self.block(body_of(fn), env, 2)

    # ------------------------------------------------------------ statements
    def block(self, stmts, env, ind):
        if not stmts:
            raise Problem('control can reach the end of %s without a return' % self.spec['qual'])
        s, rest = stmts[0], stmts[1:]
        sp = ' ' * ind
        if isinstance(s, ast.ImportFrom):
            if s.module == 'pyramid.authorization' and [(a.name, a.asname) for a in s.names] == [('Everyone', None)]:
                env = dict(env, Everyone=('text', 'everyone'))
                return self.block(rest, env, ind)
            raise Problem('import outside the table: %s' % u(s))
        if isinstance(s, ast.Assign):
            if len(s.targets) != 1 or not isinstance(s.targets[0], ast.Name):
                raise Problem('assignment outside the subset: %s' % u(s))
            v = self.ev(s.value, env)
            env = dict(env)
            env[s.targets[0].id] = v
            return self.block(rest, env, ind)
        if isinstance(s, ast.Return):
            if s.value is None:
                raise Problem('bare return')
            return self.coerce(self.ev(s.value, env), s)
        if isinstance(s, ast.Raise):
            if self.spec['ret'] == 'vep' and isinstance(s.exc, ast.Call) and isinstance(s.exc.func, ast.Name) \
                    and s.exc.func.id == 'TypeError' and s.cause is None:
                return 'VTypeError'
            raise Problem('raise outside the table: %s' % u(s))
        if isinstance(s, ast.If):
            t = s.test
            neg = False
            if isinstance(t, ast.UnaryOp) and isinstance(t.op, ast.Not):
                t, neg = t.operand, True
            if not (isinstance(t, ast.Compare) and len(t.ops) == 1 and isinstance(t.ops[0], (ast.Is, ast.IsNot))
                    and isinstance(t.left, ast.Name) and isinstance(t.comparators[0], ast.Constant)
                    and t.comparators[0].value is None):
                raise Problem('test outside the table (only `<variable> is None` / `is not None`): %s' % u(s.test))
            name = t.left.id
            is_none_true = isinstance(t.ops[0], ast.Is) != neg
            if name not in env:
                raise Problem('unbound name %s' % name)
            tag, term = env[name]
            b_none = list(s.body if is_none_true else s.orelse) + rest
            b_some = list(s.orelse if is_none_true else s.body) + rest
            if tag not in OPTIONAL:
                # a value that is never None here: the test is decided
                if tag in ('ctx', 'policy', 'authz', 'authn', 'secured', 'plain', 'perm', 'req'):
                    return self.block(b_some, env, ind)
                raise Problem('`is None` test of a %s is outside the table: %s' % (tag, u(s.test)))
            if tag == 'optctx':
                c = self.fresh('c')
                return 'match %s with\n%s| None => %s\n%s| Some %s => %s\n%send' % (
                    term, sp, self.block(b_none, self.narrow(env, name, None), ind + 4), sp, c,
                    self.block(b_some, self.narrow(env, name, ('ctx', c)), ind + 4), sp)
            if tag == 'optsecured':
                v = self.fresh('v')
                return 'match secured_view R with\n%s| None => %s\n%s| Some %s => %s\n%send' % (
                    sp, self.block(b_none, self.narrow(env, name, None), ind + 4), sp, v,
                    self.block(b_some, self.narrow(env, name, ('secured', v)), ind + 4), sp)
            flag, some = {'optpolicy': ('has_policy R', ('policy', None)), 'optauthz': ('has_authz R', ('authz', None)),
                          'optplain': ('plain_view R', ('plain', None))}[tag]
            return 'if %s\n%sthen %s\n%selse %s' % (flag, sp, self.block(b_some, self.narrow(env, name, some), ind + 4),
                                                   sp, self.block(b_none, self.narrow(env, name, None), ind + 4))
        raise Problem('statement outside the subset: %s' % u(s))

    @staticmethod
    def narrow(env, name, v):
        env = dict(env)
        env[name] = v if v is not None else ('none', None)
        return env

    def coerce(self, v, s):
        want = self.spec['ret']
        tag, term = v
        if tag == want:
            return term
        if want == 'hp' and tag == 'decision':
            return 'ByPolicy (%s)' % term
        raise Problem('return of a %s where a %s is expected: %s' % (tag, want, u(s)))

    # ------------------------------------------------------------ expressions
    def ev(self, n, env):
        if isinstance(n, ast.Name):
            if n.id in env:
                if env[n.id][0] == 'none':
                    raise Problem('use of a variable that is None on this path: %s' % n.id)
                return env[n.id]
            raise Problem('name outside the table: %s' % n.id)
        if isinstance(n, ast.Attribute) and not isinstance(n.value, ast.Call) or isinstance(n, ast.Attribute):
            base = self.ev(n.value, env)
            if base[0] == 'req' and n.attr == 'context':
                if 'reqctx' not in self.spec['sig']:
                    raise Problem('request.context is read in a function whose context is a parameter: %s' % u(n))
                return ('ctx', 'reqctx')
            if base[0] == 'req' and n.attr == 'registry':
                return ('reg', None)
            if base[0] == 'reg' and n.attr == 'adapters':
                return ('adapters', None)
            raise Problem('attribute outside the table: %s' % u(n))
        if isinstance(n, ast.List) and len(n.elts) == 1 and isinstance(n.elts[0], ast.Name) \
                and env.get(n.elts[0].id) == ('text', 'everyone') and self.spec['ret'] == 'set':
            return ('set', '[everyone]')
        if isinstance(n, ast.BinOp):
            if len(self.reqnames) == 1 and len(self.ctxnames) == 1 and u(n) == PROVIDES % (self.reqnames[0], self.ctxnames[0]) \
                    and env.get(self.reqnames[0], (None,))[0] == 'req' and env.get(self.ctxnames[0], (None,))[0] == 'ctx':
                return ('provides', None)
            raise Problem('expression outside the table: %s' % u(n))
        if isinstance(n, ast.Call):
            return self.call(n, env)
        raise Problem('expression outside the table: %s' % u(n))

    def call(self, n, env):
        f = n.func
        args = n.args
        if isinstance(f, ast.Name):
            if f.id in env:
                raise Problem('call of a local: %s' % u(n))
            if f.id == '_get_security_policy' and not n.keywords and len(args) == 1:
                return self.inline(HELPERS[f.id], [self.ev(args[0], env)])
            if f.id == 'get_current_registry' and not args and not n.keywords:
                return ('reg', None)
            if f.id == 'Allowed' and len(args) == 1 and not n.keywords and self.is_message(args[0]):
                if self.spec['ret'] == 'hp':
                    return ('hp', 'NoPolicyAllowed')
                if self.spec['ret'] == 'vep':
                    return ('vep', 'VAllowedNoPermission')
            raise Problem('call outside the table: %s' % u(n))
        if not isinstance(f, ast.Attribute):
            raise Problem('call outside the table: %s' % u(n))
        recv = self.ev(f.value, env)
        m = f.attr
        if recv[0] == 'reg' and m in ('queryUtility', 'getUtility') and len(args) == 1 and not n.keywords \
                and isinstance(args[0], ast.Name) and args[0].id not in env:
            key = ('query' if m == 'queryUtility' else 'get', args[0].id)
            if key in IFACES:
                return IFACES[key]
        if recv[0] == 'legacy' and m in ('_get_authn_policy', '_get_authz_policy') and len(args) == 1 and not n.keywords:
            return self.inline(HELPERS[m], [recv, self.ev(args[0], env)])
        vals = [self.ev(a, env) for a in args] if not n.keywords else None
        if vals is not None:
            tags = [v[0] for v in vals]
            if recv[0] == 'authn' and m == 'effective_principals' and tags == ['req']:
                return ('principals', 'ps')
            if recv[0] == 'authz' and m == 'permits' and tags == ['ctx', 'principals', 'perm']:
                return ('decision', 'gen_policy_permits %s %s %s' % (vals[0][1], vals[1][1], vals[2][1]))
            if recv[0] == 'authz' and m == 'principals_allowed_by_permission' and tags == ['ctx', 'perm']:
                return ('set', 'gen_policy_principals_allowed %s %s' % (vals[0][1], vals[1][1]))
            if recv[0] == 'policy' and m == 'permits' and tags == ['req', 'ctx', 'perm']:
                return ('decision', 'gen_legacy_permits %s ps %s' % (vals[1][1], vals[2][1]))
            if recv[0] == 'secured' and m == '__permitted__' and tags == ['ctx', 'req']:
                return ('vep', 'view_permitted (fun perm => gen_legacy_permits %s ps perm) %s' % (vals[0][1], recv[1]))
        if recv[0] == 'adapters' and m == 'lookup' and len(args) == 2 and len(n.keywords) == 1 and n.keywords[0].arg == 'name' \
                and isinstance(n.keywords[0].value, ast.Name) and env.get(n.keywords[0].value.id, (None,))[0] == 'name' \
                and self.ev(args[0], env)[0] == 'provides' and isinstance(args[1], ast.Name) and args[1].id not in env:
            if args[1].id == 'ISecuredView':
                return ('optsecured', None)
            if args[1].id == 'IView':
                return ('optplain', None)
        raise Problem('call outside the table: %s' % u(n))

    @staticmethod
    def is_message(n):
        """a string literal, possibly %-formatted: a message, not modelled"""
        if isinstance(n, ast.Constant) and isinstance(n.value, str):
            return True
        return isinstance(n, ast.BinOp) and isinstance(n.op, ast.Mod) and isinstance(n.left, ast.Constant) \
            and isinstance(n.left.value, str)

    def inline(self, h, vals):
        self.depth += 1
        if self.depth > 4:
            raise Problem('helper nesting too deep')
        fn = find(self.tree, h['qual'])
        if fn is None:
            raise Problem('helper %s not found (exactly once)' % h['qual'])
        self.check_sig(fn, len(h['params']))
        if [v[0] for v in vals] != h['params']:
            raise Problem('helper %s called with %s' % (h['qual'], [v[0] for v in vals]))
        b = body_of(fn)
        if len(b) != 1 or not isinstance(b[0], ast.Return) or b[0].value is None:
            raise Problem('helper %s is not a single return' % h['qual'])
        env = {a.arg: v for a, v in zip(fn.args.args, vals)}
        v = self.ev(b[0].value, env)
        self.depth -= 1
        if v[0] != h['ret']:
            raise Problem('helper %s returns a %s, expected %s' % (h['qual'], v[0], h['ret']))
        return v


NAMES = ('Allowed', 'get_current_registry', 'ISecurityPolicy', 'IAuthorizationPolicy', 'IAuthenticationPolicy', 'ISecuredView',
         'IView', 'IViewClassifier', 'providedBy', '_get_security_policy', 'TypeError')
EXPECT = {'Allowed': 'class', 'get_current_registry': 'from pyramid.threadlocal import get_current_registry',
          'ISecurityPolicy': 'from pyramid.interfaces import ISecurityPolicy',
          'IAuthorizationPolicy': 'from pyramid.interfaces import IAuthorizationPolicy',
          'IAuthenticationPolicy': 'from pyramid.interfaces import IAuthenticationPolicy',
          'ISecuredView': 'from pyramid.interfaces import ISecuredView', 'IView': 'from pyramid.interfaces import IView',
          'IViewClassifier': 'from pyramid.interfaces import IViewClassifier',
          'providedBy': 'from zope.interface import providedBy', '_get_security_policy': 'def', 'TypeError': None}


def check_bindings(tree, problems):
    binds = {}
    for st in ast.walk(tree):
        if isinstance(st, (ast.FunctionDef, ast.AsyncFunctionDef, ast.ClassDef)):
            if st in tree.body:
                binds.setdefault(st.name, []).append('def' if isinstance(st, ast.FunctionDef) else 'class')
    for st in tree.body:
        for n in ast.walk(st):
            if isinstance(n, (ast.FunctionDef, ast.ClassDef, ast.Lambda)) and n is not st:
                continue
            if isinstance(st, (ast.FunctionDef, ast.ClassDef)):
                break
            if isinstance(n, ast.ImportFrom):
                for al in n.names:
                    binds.setdefault(al.asname or al.name, []).append('from %s import %s' % (n.module, al.name))
            elif isinstance(n, ast.Import):
                for al in n.names:
                    binds.setdefault((al.asname or al.name).split('.')[0], []).append('import')
            elif isinstance(n, ast.Name) and isinstance(n.ctx, (ast.Store, ast.Del)):
                binds.setdefault(n.id, []).append('assign')
    for nm in NAMES:
        want = [EXPECT[nm]] if EXPECT[nm] else []
        if binds.get(nm, []) != want:
            problems.append('translator: module-level binding of %s in security.py is %s, expected %s' % (nm, binds.get(nm), want))


def translate(text, problems, fallback):
    """-> [(gen, sig, body)], summary"""
    out, summary = [], {}
    tree = None
    if text is None:
        problems.append('translator: cannot read pyramid/security.py')
    else:
        try:
            tree = ast.parse(text)
        except SyntaxError as e:
            problems.append('translator: cannot parse pyramid/security.py: %s' % e)
    if tree is not None:
        check_bindings(tree, problems)
    for spec in FUNCS:
        body = None
        if tree is not None:
            try:
                body = Tr(tree, spec).translate()
                import re
                free = set(re.findall(r'\b(reqctx|given|ps|R|L|p)\b', body)) - set(re.findall(r'\((\w+) :', spec['sig']))
                if free:
                    # the table produced a term over something this function does not receive: not a guess, a Problem
                    body = None
                    raise Problem('uses %s, which is no argument of the function' % sorted(free))
            except Problem as e:
                problems.append('translator: pyramid/security.py:%s: %s' % (spec['qual'], e))
            except RecursionError:
                problems.append('translator: pyramid/security.py:%s: nesting too deep' % spec['qual'])
        if body is None:
            summary[spec['gen']] = 'FALLBACK (stored translation of the reference text)'
            body = fallback.get(spec['gen']) or spec['default']
        else:
            summary[spec['gen']] = 'translated from source (%d lines of Gallina)' % (body.count('\n') + 1)
        out.append((spec['gen'], spec['sig'], body))
    return out, summary


if __name__ == '__main__':
    import sys
    pr = []
    o, sm = translate(open((sys.argv[1] if len(sys.argv) > 1 else '/repo/src') + '/pyramid/security.py').read(), pr, {})
    for g, sig, b in o:
        print('Definition %s %s :=\n  %s.\n' % (g, sig, b))
    print(pr, sm)
