"""C11 -- module- and class-level structure of the anchor files (a fail-closed structural fact).

The translated / pinned ties are per FUNCTION.  What a call executes also depends on statements outside every
function: which names are imported from where, `ALL_PERMISSIONS = AllPermissionsList()`, `DENY_ALL = (...)`, the
`class AllPermissionsList(_AllPermissionsList): pass` subclasses of authorization.py, class attributes, decorators and
base classes, a method added to a class.  The SKELETON of a module is its body with every function body removed (the
function keeps its name, decorators, number/kinds/defaults of parameters) -- classes keep their bases, keywords, decorators and every
non-function statement.  Its hash is pinned (pins_module.json); function bodies are the business of the other ties.
"""
import ast
import hashlib
import json
import os

from harness.common import facts as F

HERE = os.path.dirname(os.path.abspath(__file__))
PINS = os.path.join(HERE, 'pins_module.json')
FILES = ['pyramid/authorization.py', 'pyramid/security.py', 'pyramid/location.py']
KEY = '<module and class level statements>'


def _is_doc(st):
    return isinstance(st, ast.Expr) and isinstance(st.value, ast.Constant) and isinstance(st.value.value, str)


def _strip(body):
    out = []
    for st in body:
        if _is_doc(st):
            continue
        if isinstance(st, (ast.FunctionDef, ast.AsyncFunctionDef)):
            st.body = [ast.Pass()]
            a = st.args                      # parameter NAMES are blanked (number, kinds and defaults are kept)
            for i, x in enumerate(getattr(a, 'posonlyargs', []) + a.args + a.kwonlyargs
                                  + [y for y in (a.vararg, a.kwarg) if y is not None]):
                x.arg = 'a%d' % i
        elif isinstance(st, ast.ClassDef):
            st.body = _strip(st.body) or [ast.Pass()]
        else:
            for field in ('body', 'orelse', 'finalbody'):
                if isinstance(getattr(st, field, None), list):
                    setattr(st, field, _strip(getattr(st, field)))
            for h in getattr(st, 'handlers', []) or []:
                h.body = _strip(h.body)
        out.append(st)
    return out


def skeleton_hash(text):
    tree = ast.parse(text)
    tree.body = _strip(tree.body)
    return hashlib.sha1(ast.dump(tree).encode()).hexdigest()[:16]


def compute(src_root='/repo/src'):
    out = {}
    for rel in FILES:
        with open(os.path.join(src_root, rel)) as f:
            out[rel] = {KEY: skeleton_hash(f.read())}
    return out


def check(src_root, problems):
    with open(PINS) as f:
        pins = json.load(f)
    summary = {}
    for rel, d in pins.items():
        try:
            with open(os.path.join(src_root, rel)) as f:
                got = skeleton_hash(f.read())
        except (OSError, SyntaxError) as e:
            problems.append('cannot parse %s: %s' % (rel, e))
            continue
        summary['%s %s' % (rel, KEY)] = got
        if got != d[KEY]:
            problems.append('module/class-level structure of %s changed (%s -> %s): imports, module-level bindings '
                            '(ALL_PERMISSIONS, DENY_ALL, constants), class headers/attributes or the set of functions '
                            'differ from the text the model was written against' % (rel, d[KEY], got))
    return summary


if __name__ == '__main__':
    with open(PINS, 'w') as f:
        json.dump(compute(), f, indent=1, sort_keys=True)
    print(open(PINS).read())
