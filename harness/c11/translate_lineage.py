"""C11 translator, part 2: pyramid/location.py:lineage (a GENERATOR with a while loop) -> Gallina gen_lineage.

    def lineage(resource):
        while resource is not None:
            yield resource
            try:
                resource = resource.__parent__
            except AttributeError:
                resource = None

Model world (coq/Model/C11_base.v): resources are indices into a [world]; reading r.__parent__ gives a
[ptr]: PMissing (AttributeError) | PNone | PTo r'.  The generator becomes the list of the yielded resources; the
while loop a fix over explicit FUEL (answer None when it runs out -- a __parent__ cycle makes the real generator
infinite; the theorems take fuel > length of the lineage).

=== CONTROL FLOW (mechanical, continuation passing; the one state variable is the parameter) ===============
  while T: B ; rest      (fix loopN (fN : nat) (c : option nat) {struct fN} : option (list nat) :=
                            match fN with 0 => None | S gN => <T ? B ; jump : rest> end) fuel <value of the variable>
     end of B / continue  loopN gN <current value>          break   <rest>           return / end of function  Some []
  yield E                ocons x (<rest>)      E must be the variable, known to be a resource x on this path
  if T: A else: B        static when the variable's state is known on the path, else
                         match c with None => <T false/true branch> | Some x => <..> end   (narrowing the variable)
  try: v = v.__parent__ / except AttributeError: H
                         match parent_of W x with PMissing => <H ; rest> | PNone => <rest, v = None>
                                                  | PTo y => <rest, v = resource y> end    (v known to be a resource x)
  v = None               the variable is None from here on
=== PRIMITIVE TABLE ========================================================================================
  parameter (by position)      r0 : option nat  (None = the Python None; a resource = its index in the world)
  v is not None / v is None    (the only tests; `not` / `True` / `False` allowed around them; TRUTHINESS of a
                               resource is NOT in the table: a falsy resource is still a resource)
  v.__parent__ inside the try  parent_of W x      v = getattr(v, '__parent__', None)   the same with PMissing -> None
  AttributeError, getattr, None, True, False must not be rebound in location.py; lineage bound exactly once
Anything else -> Problem (fail-closed: stored fallback, broken tie).
"""
import ast


class Problem(Exception):
    pass


def u(n):
    try:
        return ast.unparse(n).split('\n')[0]
    except Exception:
        return '<%s>' % type(n).__name__


SIG = '(W : world) (fuel : nat) (r0 : option nat) : option (list nat)'
DEFAULT = '''(fix loop1 (f1 : nat) (c1 : option nat) {struct f1} : option (list nat) :=
     match f1 with
     | 0 => None
     | S g1 =>
        match c1 with
        | None => Some []
        | Some x1 =>
            ocons x1 (match parent_of W x1 with
                      | PMissing => loop1 g1 None
                      | PNone => loop1 g1 None
                      | PTo y2 => loop1 g1 (Some y2)
                      end)
        end
     end) fuel r0'''

# state of the variable on a path: ('none',) | ('res', coq variable) | ('opt', coq term of type option nat)


def as_opt(st):
    return 'None' if st[0] == 'none' else '(Some %s)' % st[1] if st[0] == 'res' else st[1]


class LineageTranslator:
    def __init__(self, fn):
        self.fn = fn
        self.n = 0

    def fresh(self, p):
        self.n += 1
        return '%s%d' % (p, self.n)

    def translate(self):
        fn = self.fn
        a = fn.args
        if fn.decorator_list or a.vararg or a.kwarg or a.kwonlyargs or a.defaults or getattr(a, 'posonlyargs', []) \
                or len(a.args) != 1:
            raise Problem('expected a plain function of one parameter')
        self.var = a.args[0].arg
        for n in ast.walk(fn):
            if isinstance(n, (ast.Lambda, ast.ListComp, ast.SetComp, ast.DictComp, ast.GeneratorExp, ast.NamedExpr,
                              ast.Await, ast.YieldFrom, ast.Global, ast.Nonlocal, ast.For, ast.With)) or \
                    (isinstance(n, (ast.FunctionDef, ast.AsyncFunctionDef, ast.ClassDef)) and n is not fn):
                raise Problem('construct outside the subset: %s' % type(n).__name__)
            if isinstance(n, ast.Name) and isinstance(n.ctx, ast.Store) and n.id != self.var:
                raise Problem('a second variable (%s) is outside the subset' % n.id)
        if not any(isinstance(n, ast.Yield) for n in ast.walk(fn)):
            raise Problem('not a generator')
        body = [s for s in fn.body if not (isinstance(s, ast.Expr) and isinstance(s.value, ast.Constant))]
        return self.block(body, ('opt', 'r0'), lambda st: 'Some []', None, 5)

    # k: continuation (state -> term) ; loop: (continue-continuation, break-continuation) or None
    def block(self, stmts, st, k, loop, ind):
        if not stmts:
            return k(st)
        s, rest = stmts[0], stmts[1:]

        def k_next(st2):
            return self.block(rest, st2, k, loop, ind)
        sp = ' ' * ind
        if isinstance(s, ast.Pass):
            return k_next(st)
        if isinstance(s, ast.Return):
            if s.value is not None:
                raise Problem('return with a value in a generator: %s' % u(s))
            return 'Some []'
        if isinstance(s, ast.Break):
            if loop is None:
                raise Problem('break outside a loop')
            return loop[1](st)
        if isinstance(s, ast.Continue):
            if loop is None:
                raise Problem('continue outside a loop')
            return loop[0](st)
        if isinstance(s, ast.Expr) and isinstance(s.value, ast.Yield):
            v = s.value.value
            if not (isinstance(v, ast.Name) and v.id == self.var):
                raise Problem('yield of something other than the variable: %s' % u(s))
            if st[0] != 'res':
                raise Problem('yield on a path on which the variable is not known to be a resource (it may be None): %s' % u(s))
            return 'ocons %s (%s)' % (st[1], k_next(st))
        if isinstance(s, ast.Assign):
            if len(s.targets) != 1 or not isinstance(s.targets[0], ast.Name):
                raise Problem('assignment outside the subset: %s' % u(s))
            val = s.value
            if isinstance(val, ast.Constant) and val.value is None:
                return k_next(('none',))
            if isinstance(val, ast.Call) and isinstance(val.func, ast.Name) and val.func.id == 'getattr' and not val.keywords \
                    and len(val.args) == 3 and isinstance(val.args[0], ast.Name) and val.args[0].id == self.var \
                    and isinstance(val.args[1], ast.Constant) and val.args[1].value == '__parent__' \
                    and isinstance(val.args[2], ast.Constant) and val.args[2].value is None:
                return self.parent_match(st, lambda: k_next(('none',)), k_next, ind, s)
            raise Problem('assignment outside the table: %s' % u(s))
        if isinstance(s, ast.Try):
            ok = (len(s.body) == 1 and not s.orelse and not s.finalbody and len(s.handlers) == 1
                  and isinstance(s.body[0], ast.Assign) and len(s.body[0].targets) == 1
                  and isinstance(s.body[0].targets[0], ast.Name) and s.body[0].targets[0].id == self.var
                  and isinstance(s.body[0].value, ast.Attribute) and s.body[0].value.attr == '__parent__'
                  and isinstance(s.body[0].value.value, ast.Name) and s.body[0].value.value.id == self.var
                  and isinstance(s.handlers[0].type, ast.Name) and s.handlers[0].type.id == 'AttributeError'
                  and s.handlers[0].name is None)
            if not ok:
                raise Problem('try statement outside the table: %s' % u(s))
            handler = list(s.handlers[0].body)
            return self.parent_match(st, lambda: self.block(handler + rest, st, k, loop, ind + 12), k_next, ind, s)
        if isinstance(s, ast.If):
            pol = self.test(s.test)           # ('is_none', True/False) meaning: test true iff (variable is None) == pol ; or ('const', b)
            def branch(st2, taken):
                return self.block(list(s.body if taken else s.orelse) + rest, st2, k, loop, ind + 4)
            return self.on_none(pol, st, branch, ind)
        if isinstance(s, ast.While):
            if s.orelse:
                raise Problem('while .. else')
            if loop is not None:
                raise Problem('nested loop')
            if rest and not all(isinstance(x, (ast.Return, ast.Pass)) for x in rest):
                pass
            pol = self.test(s.test)
            i = self.fresh('')
            f, g, c, lp = 'f' + i, 'g' + i, 'c' + i, 'loop' + i

            def k_continue(st2):
                return '%s %s %s' % (lp, g, as_opt(st2))

            def k_break(st2):
                return self.block(rest, st2, k, None, ind + 8)

            def branch(st2, taken):
                if taken:
                    return self.block(list(s.body), st2, k_continue, (k_continue, k_break), ind + 12)
                return k_break(st2)
            inner = self.on_none(pol, ('opt', c), branch, ind + 8)
            return ('(fix %s (%s : nat) (%s : option nat) {struct %s} : option (list nat) :=\n%s   match %s with\n'
                    '%s   | 0 => None\n%s   | S %s =>\n%s        %s\n%s   end) fuel %s' % (
                        lp, f, c, f, sp, f, sp, sp, g, sp, inner, sp, as_opt(st)))
        raise Problem('statement outside the subset: %s' % u(s))

    def test(self, t):
        if isinstance(t, ast.Constant) and isinstance(t.value, bool):
            return ('const', t.value)
        if isinstance(t, ast.UnaryOp) and isinstance(t.op, ast.Not):
            k, b = self.test(t.operand)
            return (k, not b)
        if isinstance(t, ast.Compare) and len(t.ops) == 1 and isinstance(t.left, ast.Name) and t.left.id == self.var \
                and isinstance(t.comparators[0], ast.Constant) and t.comparators[0].value is None \
                and isinstance(t.ops[0], (ast.Is, ast.IsNot)):
            return ('is_none', isinstance(t.ops[0], ast.Is))
        raise Problem('test outside the table (only `%s is None` / `is not None`; the truth value of a resource is not '
                      'modelled: a falsy resource is still a resource): %s' % (self.var, u(t)))

    def on_none(self, pol, st, branch, ind):
        """branch(state, test_is_true)"""
        if pol[0] == 'const':
            return branch(st, pol[1])
        want_none = pol[1]
        if st[0] == 'none':
            return branch(st, want_none)
        if st[0] == 'res':
            return branch(st, not want_none)
        x = self.fresh('x')
        sp = ' ' * ind
        return 'match %s with\n%s| None => %s\n%s| Some %s =>\n%s    %s\n%send' % (
            st[1], sp, branch(('none',), want_none), sp, x, sp, branch(('res', x), not want_none), sp)

    def parent_match(self, st, k_missing, k_value, ind, s):
        if st[0] != 'res':
            raise Problem('__parent__ read on a path on which the variable is not known to be a resource: %s' % u(s))
        y = self.fresh('y')
        sp = ' ' * (ind + 10)
        return '(match parent_of W %s with\n%s| PMissing => %s\n%s| PNone => %s\n%s| PTo %s => %s\n%send)' % (
            st[1], sp, k_missing(), sp, k_value(('none',)), sp, y, k_value(('res', y)), sp)


def translate(text, problems):
    """-> body text or None"""
    if text is None:
        problems.append('translator: cannot read pyramid/location.py')
        return None
    try:
        tree = ast.parse(text)
    except SyntaxError as e:
        problems.append('translator: cannot parse pyramid/location.py: %s' % e)
        return None
    fns = [n for n in ast.walk(tree) if isinstance(n, (ast.FunctionDef, ast.AsyncFunctionDef, ast.ClassDef)) and n.name == 'lineage']
    top = [n for n in tree.body if isinstance(n, ast.FunctionDef) and n.name == 'lineage']
    if len(fns) != 1 or len(top) != 1:
        problems.append('translator: lineage is not defined exactly once, at module level, in pyramid/location.py')
        return None
    for st in tree.body:
        for n in ast.walk(st):
            if isinstance(n, ast.Name) and isinstance(n.ctx, (ast.Store, ast.Del)) and \
                    n.id in ('lineage', 'getattr', 'AttributeError') and not _inside_function(tree, n):
                problems.append('translator: %s is rebound at module level in pyramid/location.py' % n.id)
                return None
            if isinstance(n, ast.alias) and (n.asname or n.name).split('.')[0] in ('lineage', 'getattr', 'AttributeError'):
                problems.append('translator: %s is imported over in pyramid/location.py' % (n.asname or n.name))
                return None
    try:
        return LineageTranslator(top[0]).translate()
    except Problem as e:
        problems.append('translator: pyramid/location.py:lineage: %s' % e)
    except RecursionError:
        problems.append('translator: pyramid/location.py:lineage: nesting too deep')
    return None


def _inside_function(tree, node):
    for fn in ast.walk(tree):
        if isinstance(fn, (ast.FunctionDef, ast.AsyncFunctionDef, ast.Lambda)):
            for n in ast.walk(fn):
                if n is node:
                    return True
    return False


if __name__ == '__main__':
    import sys
    pr = []
    print(translate(open((sys.argv[1] if len(sys.argv) > 1 else '/repo/src') + '/pyramid/location.py').read(), pr))
    print(pr)
