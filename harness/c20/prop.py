"""C20 -- the introspector reports what was configured."""
import ast
import json
import os
from harness.common import facts as F
from harness.c20 import extract as X
from harness.c20 import translate as T

ID = 'C20'
DEPENDS = ['C04']     # Proofs/C20_commit.v imports Model/C04.v
HERE = os.path.dirname(os.path.abspath(__file__))
CASES = {'quick': 4000, 'thorough': 60000}
PARALLEL = False
RULE = ('three streams: (a) random operation sequences (add/get/get_category/relate/unrelate/remove/related/register with '
        'relations/categories) over a pool of introspectables in 3 categories x 3 discriminators x 2 contents, run on a real '
        'Introspector and on the extracted model; (b) every directive family called on a real Configurator with pairwise '
        'distinct sentinel arguments (every combination of the directive\'s boolean flags; every directive that has a table '
        'site has a scenario), every key of the recorded '
        'introspectable read back and compared with the regenerated table (which argument reaches which key) and with the '
        'arguments given (documented normalisations by value; the key set of the entry = the keys the site stores and the keys '
        'the documentation promises; also through 1-2 helper layers passing _backframes, with one-shot iterators, and in pairs '
        'of statements sharing an object); (c) include-nesting (children included directly or by an add-on directive) '
        'programs that override statements (route statements: the entry is the live route of the mapper); (d) one statement '
        'given several values of a multi-valued argument, statements executed as compiled configuration TEXT, pairs probing which '
        'statement is in effect (URL static views under two route prefixes; a tween named in the settings and by add_tween); '
        'the predicate directives with both weights given and different; statements whose action raises when carried out '
        '(autocommit or at commit) and must leave no entry; every directive that has a public class-level alias also spelled through the alias; two spellings of one thing (default '
        'renderer None / \'\') in an overriding include, with the registered factory probed; two subscribers that are distinct but '
        'equal callables; (e) histories of nested action methods (add-on directives registering entries, calling each other with/without _info, '
        'raising, catching) against the extracted model of the action-info stack. non-trivial = an op sequence containing at least one relate/register-with-relation '
        'and one read-back, or a directive scenario with at least 2 argument-carrying keys; distinct by full case')
ASSUMPTIONS = ['hash((category, discriminator)) is injective on the discriminators used (dict-key equality of introspectables = same '
               'category and discriminator, then identity or dict ==); the second dict key discriminator_hash is not modelled',
               'introspectable content is immutable after registration; content equality is modelled by a fingerprint']
TRUSTED = ['translator harness/c20/translate.py: control flow of Introspector.add/get/get_category/categories/remove/'
           '_get_intrs_by_pairs/relate/unrelate/related, Introspectable.relate/unrelate/register, the registration step of '
           'execute_actions and the introspection filter of action() is translated mechanically; its PRIMITIVE TABLE (about 40 '
           'lines: dict setdefault/get/pop/del/[..], list append/remove/in, sorted(set(..), key=order), `is`, aliases as paths, '
           'KeyError/ValueError) is the trusted claim about Python semantics, validated by the op-sequence correspondence',
           'hand-written reference model coq/Model/C20.v (the theorems are about it; proved equal to the regenerated program)',
           'shape pins only for what is not translated: Introspector.__init__/categorized, Introspectable.__init__/__hash__/'
           'discriminator_hash/..., undefer, action_info, action_method, with_package, and execute_actions / action() with the '
           'translated fragment cut out (pins_masked.json)',
           'introspectable-table extractor harness/c20/extract.py (validated by the directive-scenario stream), including its '
           'slices of the entry / action discriminator expressions (pins_discriminators.json: text pins) and the root-name analysis',
           'hand model of the action-info stack (action_method wrapper, action_info; both shape-pinned), validated by the nest stream',
           'docs/narr/introspector.rst parsed for documented categories/keys']
TECHNIQUE = ('Coq proof over an Introspector state machine; the executable program is REGENERATED from registry.py / actions.py on '
             'every run by a fail-closed ast->Gallina translator (state-passing, exceptions with partial states) and proved equal '
             'to the hand-written reference model (generated = model theorems, one induction per loop); reflective vm_compute '
             'theorems over directive tables regenerated from source and documentation (one row per introspectable site: every '
             'key with the normal form of the stored expression -- argument, normalisation of an argument, literal that is the '
             'truth value of the same-named argument on its path (path-truth), constant, other -- plus wiring facts: the entry '
             'reaches introspectables= of an action and runs under an action method); extracted-model differential '
             'correspondence (the regenerated program is what runs against the real Introspector); sentinel-argument scenarios '
             'for every directive that builds or forwards an entry, in every combination of its boolean flags, reading every '
             'key back (documented normalisations such as property := property or reify are judged by value); shape pins for '
             'the hand-followed rest; fail-closed structural facts (no mutable class-level attribute and pinned class-level '
             'statements of the modelled classes, every introspectable variable bound once per path and never read by a closure '
             'when shared, no mutable defaults in entry-building functions); statements issued through helpers that pass '
             '_backframes, through add-on directives that include(), in pairs sharing an object, with one-shot iterators; '
             'discriminator facts (slices of the entry and action discriminator of every site pinned; every parameter the action '
             'discriminator depends on reaches the entry discriminator; a directive issuing several actions discriminates each; no '
             'loop variable read outside its loop; class-level statements of every class of the directive modules pinned; the set of '
             'non-action-method methods that forward to an action-method directive pinned); a Coq model of the action-info stack run against nested add-on directives; '
             'tools/coverage_map.py --property C20 reports 0 untied functions in the anchor files')
LEVEL_TEXT = ('Theorems: the program regenerated from the current source equals the reference model for every method and on every '
              'operation sequence (C20_generated_*_is_model, C20_generated_run_is_model); every key of every regenerated directive '
              'table that names a directive argument records that argument or a normalisation of it, a boolean literal counting '
              'only on a path that decides the argument (keys_faithful); every documented category/key is recorded by a directive '
              'of that category; every site hands its entry to an action and runs under an action method (sites_wired); the entry '
              'discriminator of every site depends on every parameter its action discriminator depends on '
              '(entry_key_determines_action_key), and in the commit model an executed entry whose key no other executed entry shares '
              '-- in particular entries keyed injectively by pairwise distinct conflict keys -- is what the introspector holds '
              '(entry_not_displaced, injective_keys_keep_entries); the action-info stack is restored by every call, returning or '
              'raising, every entry made under any nesting of action methods carries the info of the outermost statement, also in '
              'histories with failures on one configurator (ainfo_stack_balanced, statement_entries_point_at_statement, '
              'history_statements_point_at_themselves); get_category lists, in every state, exactly the stored entries of the '
              'category in ascending registration order (get_category_exact_and_sorted), in every reachable state STRICTLY ascending '
              'with all stored orders pairwise distinct and below the counter (reachable_orders, get_category_strictly_ascending); '
              'unrelate of a pair withdraws exactly the links between the two objects in both directions and keeps the graph '
              'symmetric, in states whose relation lists hold distinguishable registered objects without duplicates -- hypotheses '
              'kept by relate and unrelate (unrelate_withdraws_exactly, unrelate_keeps_relations_symmetric, '
              'relate_keeps_relation_lists); remove -- returning or raising part-way -- keeps them too, so they hold in EVERY '
              'reachable state whose added / registered objects come from a pool of distinguishable introspectables, and the '
              'unrelate theorem holds there without state hypotheses (remove_keeps_relation_lists, reachable_relation_lists, '
              'unrelate_withdraws_exactly_reachable); in every state reached without remove (adds, re-registrations with recorded '
              'relate / unrelate relations, relate / unrelate of any number of entries, reads) the relation graph is symmetric, '
              'has no self links, and `related` lists y for x exactly when it lists x for y (relations_symmetric_reachable, '
              'related_symmetric_reachable); the keys of the relation table are pairwise distinct in every reachable state, '
              'with no hypothesis on the objects (reachable_refs_keys_distinct); for the Introspector state machine, for every operation sequence: '
              'relations are symmetric and exact, get returns the latest registration, remove erases the entry, disabled '
              'introspection records nothing, only executed actions are recorded -- the last four also restated about the '
              'regenerated program (..._generated).')
LEVEL_NOTE = ('Trusted: Coq kernel; the translator and its primitive table (leaves), the table extractor (ast) and its normal forms; '
              'C20_generated_remove_is_model needs KeysOwn (entries stored under their own key), which holds in every reachable '
              'state (C20_reachable_invariants); the second dict key discriminator_hash and the action_info attribute are erased '
              'by the table; the discriminator slices are text pins plus a name-level dependency analysis (not a semantic '
              'injectivity proof of the Python expressions); the action-info model is hand-written (pins), its frame extraction '
              '(traceback.extract_stack) is an input; which actions execute is taken from the C04 commit model / the real run (C04 keeps whole-function '
              'pins of action() and execute_actions).')

# directive/key pairs documented as carrying something else than the same-named argument
# (request extensions are undocumented; a property/reify callable is recorded as the descriptor built from it)
# Each entry maps the arguments given to what the key must then hold: ('bool', b) = exactly that boolean, ('skip',) = the
# documentation promises something else than the argument (not judged), None = the ordinary rule (the key carries the argument).
DOC_EXPECT = {
    # "When reify is True, the value of property is assumed to also be True" (add_request_method docstring)
    ('add_request_method', 'property'): lambda a: ('bool', bool(a.get('property') or a.get('reify'))),
    # a property/reify callable is recorded as the descriptor built from it
    ('add_request_method', 'callable'): lambda a: ('skip',) if (a.get('property') or a.get('reify')) else None,
}


CLASS_FILES = ['pyramid/registry.py', 'pyramid/config/__init__.py', 'pyramid/config/actions.py'] + [
    'pyramid/config/%s.py' % b_ for b_ in X.FILES]


def _immutable_class_value(v):
    if isinstance(v, ast.Constant):
        return True
    if isinstance(v, (ast.Name, ast.Attribute)):
        return True                     # an alias of a module-level object / another member
    if isinstance(v, ast.Tuple):
        return all(_immutable_class_value(e) for e in v.elts)
    if isinstance(v, ast.Call) and isinstance(v.func, ast.Name) and v.func.id in ('property', 'staticmethod', 'classmethod', 'frozenset') \
            and all(isinstance(a_, (ast.Name, ast.Attribute, ast.Constant)) for a_ in v.args) and not v.keywords:
        return True
    return False


def _form(f):
    if f[0] == 'arg':
        return 'FArg %s' % F.coq_text(f[1])
    if f[0] == 'norm':
        return 'FNorm %s %s' % (F.coq_text(f[1]), F.coq_text(f[2]))
    if f[0] == 'const':
        return 'FConst'
    return 'FOther'


def facts(src):
    problems = []
    summary = F.check_shapes(src, os.path.join(HERE, 'pins.json'), problems)
    sites, pr = X.extract(src)
    problems += pr
    try:
        doc = X.documented(os.path.dirname(src))
    except OSError as e:
        problems.append('cannot read docs/narr/introspector.rst: %s' % e)
        doc = {}
    # class-level bindings the directives rely on: `self.introspectable(..)` builds a registry.Introspectable
    try:
        cm = F.Module(src, 'pyramid/config/__init__.py')
        cls = [c for c in cm.tree.body if isinstance(c, ast.ClassDef) and c.name == 'Configurator']
        binds = [ast.unparse(st) for st in (cls[0].body if cls else []) if isinstance(st, ast.Assign)
                 and any(isinstance(t, ast.Name) and t.id in ('introspectable', 'introspector') for t in st.targets)]
        want_b = ['introspectable = Introspectable',
                  'introspector = property(_get_introspector, _set_introspector, _del_introspector)']
        if sorted(binds) != sorted(want_b):
            problems.append('class-level bindings of Configurator.introspectable / introspector are %s, expected %s' % (binds, want_b))
        imp = [ast.unparse(st) for st in cm.tree.body if isinstance(st, ast.ImportFrom) and st.module == 'pyramid.registry']
        if not any('Introspectable' in i and 'Introspector' in i and ' as ' not in i for i in imp):
            problems.append('pyramid/config/__init__.py no longer imports Introspectable / Introspector from pyramid.registry: %s' % imp)
    except (OSError, SyntaxError) as e:
        problems.append('cannot parse pyramid/config/__init__.py: %s' % e)
    # CLASS-LEVEL STATE: the modelled classes (Configurator and its directive mixins, the introspector classes, the action
    # machinery) keep no mutable object at class level -- it would be shared by every instance (parent / include() child /
    # with_package() child configurators, other registries, other threads); and the class-level statements of the
    # classes whose attributes the model relies on are exactly the pinned ones
    class_level = {}
    for rel in CLASS_FILES:
        try:
            tree = F.Module(src, rel).tree
        except (OSError, SyntaxError) as e:
            problems.append('cannot parse %s: %s' % (rel, e))
            continue
        for c in ast.walk(tree):
            if not isinstance(c, ast.ClassDef):
                continue
            stmts = []
            for st in c.body:
                if isinstance(st, (ast.FunctionDef, ast.Pass)) or (isinstance(st, ast.Expr) and isinstance(st.value, ast.Constant)):
                    continue
                stmts.append(ast.unparse(st))
                vals = [st.value] if isinstance(st, (ast.Assign, ast.AnnAssign)) and st.value is not None else None
                if vals is None or not all(_immutable_class_value(v) for v in vals):
                    problems.append('%s: class %s has the class-level statement `%s`: not an immutable literal, an alias or a '
                                    'property -- state shared between all instances' % (rel, c.name, stmts[-1][:80]))
            class_level['%s:%s' % (rel, c.name)] = stmts
    try:
        with open(os.path.join(HERE, 'pins_classlevel.json')) as f:
            want_cl = json.load(f)
    except (OSError, ValueError):
        want_cl = {}
        problems.append('cannot read harness/c20/pins_classlevel.json')
    for k, w in sorted(want_cl.items()):
        if class_level.get(k) != w:
            problems.append('class-level statements of %s changed: %s (expected %s)' % (k, class_level.get(k), w))
    for k, g in sorted(class_level.items()):
        if g and k not in want_cl:
            problems.append('class %s has class-level statements %s and no pin (aliases of directives are public entry points)' % (k, g))
    # FORWARDERS: a method that is not an action method and calls an action-method directive of the same configurator puts
    # ITS OWN frame between the statement and the directive (the entry then points into pyramid); the ones that exist are the
    # constructor's defaults (add_default_*, setup_registry) and StaticURLInfo.add (reached through add_static_view): pinned
    am = set()
    ctrees = {}
    for rel in CLASS_FILES:
        try:
            ctrees[rel] = F.Module(src, rel).tree
        except (OSError, SyntaxError):
            continue
        for n_ in ast.walk(ctrees[rel]):
            if isinstance(n_, ast.FunctionDef) and any(ast.unparse(d_) == 'action_method' for d_ in n_.decorator_list):
                am.add(n_.name)
    fwd = {}
    for rel, tree in ctrees.items():
        for c in ast.walk(tree):
            if not isinstance(c, ast.ClassDef):
                continue
            for f_ in c.body:
                if isinstance(f_, ast.FunctionDef) and not any(ast.unparse(d_) == 'action_method' for d_ in f_.decorator_list):
                    calls = sorted({x.func.attr for x in ast.walk(f_) if isinstance(x, ast.Call) and isinstance(x.func, ast.Attribute)
                                    and isinstance(x.func.value, ast.Name) and x.func.value.id in ('self', 'config')
                                    and x.func.attr in am})
                    if calls:
                        fwd['%s:%s.%s' % (rel, c.name, f_.name)] = calls
    try:
        with open(os.path.join(HERE, 'pins_forwarders.json')) as f:
            want_fw = json.load(f)
    except (OSError, ValueError):
        want_fw = {}
        problems.append('cannot read harness/c20/pins_forwarders.json')
    for k in sorted(set(fwd) | set(want_fw)):
        if fwd.get(k) != want_fw.get(k):
            problems.append('%s: a method that is not an action method forwards to the directives %s (pinned: %s): statements made '
                            'through it are recorded with a frame of pyramid as their action info' % (k, fwd.get(k), want_fw.get(k)))
    summary['forwarders'] = len(fwd)
    summary['class_level_checked'] = len(class_level)
    # the introspector program, regenerated from the source text (harness/c20/translate.py)
    gen, tpr, tsum, masked = T.translate_tree(src)
    problems += tpr
    summary.update(tsum)
    try:
        with open(os.path.join(HERE, 'pins_masked.json')) as f:
            want_masked = json.load(f)
    except (OSError, ValueError):
        want_masked = {}
        problems.append('cannot read harness/c20/pins_masked.json')
    for q, w in sorted((q, w) for rel, d in want_masked.items() for q, w in d.items()):
        got = {q2: h for d in masked.values() for q2, h in d.items()}.get(q)
        summary['masked:' + q] = got
        if got != w:
            problems.append('shape pin %s (translated fragment cut out) changed (%s -> %s): the hand-written model / the C04 '
                            'commit model follows the previous text of this function' % (q, w, got))
    lines = [F.HEADER, 'Require Import Verif.Lib.C20Types Verif.Model.C20_base.\n']
    lines.append('Definition sites : list site := [\n')
    ents = []
    for s in sites:
        keys = '; '.join('(%s, %s)' % (F.coq_text(k['key']), _form(k['form'])) for k in s['keys'])
        ents.append('  mkSite %s %s %s %s %s [%s]' % (
            F.coq_text(s['file']), F.coq_text(s['func']), F.coq_text(s['var']), F.coq_text(s['category']),
            F.coq_texts(s['params']), keys))
    lines.append(';\n'.join(ents) + '].\n')
    # templates.name is the renderer's name (documented), not add_view's name argument
    # wiring of every site: (reaches the introspectables= argument of an action, runs under an action method)
    lines.append('Definition sites_wiring : list (text * (bool * bool)) := [\n' + ';\n'.join(
        '  (%s, (%s, %s))' % (F.coq_text(s_['func'] + '.' + s_['var']), 'true' if s_['registered'] else 'false',
                              'true' if s_['action_method'] else 'false') for s_ in sites) + '].\n')
    # (the `property` key holds `property or reify`: the documented normalisation, judged by value in the scenario stream)
    exc = [('add_request_method.intr', 'property'), ('add_view.tmpl_intr', 'name')]
    lines.append('Definition doc_exceptions : list (text * text) := [%s].\n' % '; '.join(
        '(%s, %s)' % (F.coq_text(a), F.coq_text(b)) for a, b in exc))
    # DISCRIMINATORS: the key under which an entry is filed and the key by which its action conflicts are computed by two
    # expressions; both slices (expression + every binding it depends on) are pinned as text, and the parameters the action
    # discriminator depends on must all reach the entry discriminator (Model: disc_ok; otherwise two statements that do
    # not conflict could share one slot of the introspector)
    drows, dpr = X.disc_facts(src)
    problems += dpr
    try:
        with open(os.path.join(HERE, 'pins_discriminators.json')) as f:
            want_d = json.load(f)
    except (OSError, ValueError):
        want_d = {}
        problems.append('cannot read harness/c20/pins_discriminators.json')
    got_d = {r_['site']: {'entry': r_['intr'], 'actions': [a_['text'] for a_ in r_['actions']]} for r_ in drows}
    for k_ in sorted(set(want_d) | set(got_d)):
        if want_d.get(k_) != got_d.get(k_):
            w_, g_ = want_d.get(k_) or {}, got_d.get(k_) or {}
            which = 'entry discriminator' if w_.get('entry') != g_.get('entry') else 'discriminators of the actions'
            problems.append('%s: the %s (with the bindings they depend on) changed: %s (pinned: %s)' % (
                k_, which, json.dumps(g_.get('entry') if which.startswith('entry') else g_.get('actions'))[:300],
                json.dumps(w_.get('entry') if which.startswith('entry') else w_.get('actions'))[:300]))
    for r_ in drows:
        miss = sorted(set(r_['action_param_roots']) - set(r_['intr_roots']))
        if miss:
            problems.append('%s: the action discriminator depends on %s but the entry discriminator does not: statements that '
                            'differ only there do not conflict and yet share one entry' % (r_['site'], miss))
    lines.append('Definition sites_disc : list (text * (list text * list text)) := [\n' + ';\n'.join(
        '  (%s, (%s, %s))' % (F.coq_text('.'.join(r_['site'].split('#')[0].split('.')[-2:])), F.coq_texts(r_['action_param_roots']),
                              F.coq_texts(r_['intr_roots'])) for r_ in drows) + '].\n')
    summary['discriminator_rows'] = len(drows)
    lines.append('Definition documented : list (text * list text) := [\n' + ';\n'.join(
        '  (%s, %s)' % (F.coq_text(c), F.coq_texts(ks)) for c, ks in doc.items()) + '].\n')
    lines.append('\n(* ---- regenerated from src/pyramid/registry.py and src/pyramid/config/actions.py by harness/c20/translate.py *)\n')
    lines.append(gen)
    summary['sites'] = len(sites)
    summary['keys'] = sum(len(s['keys']) for s in sites)
    summary['documented_categories'] = len(doc)
    return {'coq': ''.join(lines), 'summary': summary, 'problems': problems}


# ------------------------------------------------------------------ op sequences
CATS = ['views', 'routes', 'permissions']
DISCS = ['d1', 'd2', 'd3']
FPS = ['x', 'x', 'y']      # two distinct objects with EQUAL content per key (as two add_view(permission=p) produce), one different


def _pool():
    pool = []
    for c in CATS:
        for d in DISCS:
            for f in FPS:
                # content is equal between the twins of one key, different between keys (as for real directives:
                # two distinct entries with EQUAL dict content are conflated by `y not in L` -- see NOTES.md)
                pool.append([c, d, '%s:%s/%s' % (f, c, d), len(pool)])
    return pool


POOL = _pool()


def gen_ops(rng):
    n = rng.choice([2, 3, 4, 6, 8, 12])
    ops = []
    live = []
    # work on a few keys only, so that re-registration of a key (by the same object, by a twin with equal
    # content, by an object with different content) and reads of its relations actually meet
    keys = rng.sample([(c, d) for c in CATS for d in DISCS], rng.choice([2, 2, 3, 4]))
    pool = [o for o in POOL if (o[0], o[1]) in keys] if rng.random() < 0.8 else POOL
    for _ in range(n):
        r = rng.random()
        i = rng.choice(pool)
        if r < 0.22 or not live:
            ops.append(['add', i])
            live.append(i)
        elif r < 0.40:
            k = rng.choice([1, 2, 2, 3])
            rels = []
            for _ in range(k - 1):
                t = rng.choice(live if rng.random() < 0.8 else pool)
                rels.append([rng.random() < 0.85, t[0], t[1]])
            ops.append(['register', i, rels])
            live.append(i)
        elif r < 0.58:
            k = rng.choice([1, 2, 2, 3])
            ps = [rng.choice(live if rng.random() < 0.85 else pool)[:2] for _ in range(k)]
            ops.append(['relate' if rng.random() < 0.75 else 'unrelate', ps])
        elif r < 0.68:
            t = rng.choice(live if rng.random() < 0.8 else pool)
            ops.append(['remove', t[0], t[1]])
        elif r < 0.82:
            t = rng.choice(live if rng.random() < 0.85 else pool)
            ops.append(['related', t])
        elif r < 0.90:
            t = rng.choice(pool)
            ops.append(['get', t[0], t[1]])
        elif r < 0.97:
            ops.append(['category', rng.choice(CATS + ['nope'])])
        else:
            ops.append(['categories'])
    return {'kind': 'ops', 'ops': ops}


def gen_relcase(rng):
    keys = rng.sample([(c, d) for c in CATS for d in DISCS], rng.choice([2, 3, 3, 4]))
    objs = [o for o in POOL if (o[0], o[1]) in keys and o[2].startswith('x:')]       # the equal-content twins of each key
    ops, reg = [], []
    for _ in range(rng.choice([3, 4, 5, 6, 8])):
        if reg and rng.random() < 0.35:
            ops.append(['related', rng.choice(objs if rng.random() < 0.2 else [o for o in objs if (o[0], o[1]) in reg])])
            continue
        i = rng.choice(objs)
        rels = []
        for _ in range(rng.choice([0, 1, 1, 2])):
            if reg:
                t = rng.choice(reg)
                rels.append([True, t[0], t[1]])
        ops.append(['register', i, rels])
        if (i[0], i[1]) not in reg:
            reg.append((i[0], i[1]))
    for k in reg:
        ops.append(['related', [o for o in objs if (o[0], o[1]) == k][0]])
    return {'kind': 'ops', 'ops': ops}


OPCODE = {'add': 0, 'get': 1, 'category': 2, 'relate': 3, 'unrelate': 4, 'remove': 5, 'related': 6, 'register': 7,
          'categories': 8}


def _ops_wire(ops):
    out = []
    for o in ops:
        k = o[0]
        if k in ('add', 'related'):
            out.append([OPCODE[k], list(o[1])])
        elif k in ('get', 'remove'):
            out.append([OPCODE[k], o[1], o[2]])
        elif k == 'category':
            out.append([OPCODE[k], o[1]])
        elif k in ('relate', 'unrelate'):
            out.append([OPCODE[k], [list(p) for p in o[1]]])
        elif k == 'register':
            out.append([OPCODE[k], list(o[1]), [[1 if r[0] else 0, r[1], r[2]] for r in o[2]]])
        else:
            out.append([OPCODE[k]])
    return out


_impl = {}


def setup(tier):
    from pyramid.registry import Introspector, Introspectable
    _impl.update(Introspector=Introspector, Introspectable=Introspectable)


def _run_ops(ops):
    I, Intro = _impl['Introspector'], _impl['Introspectable']
    ins = I()
    objs = {}

    def obj(spec):
        k = spec[3]
        if k not in objs:
            o = Intro(spec[0], spec[1], 't', 'ty')
            o['fp'] = spec[2]
            o._pool_id = k
            objs[k] = o
        return objs[k]

    out = []
    for o in ops:
        k = o[0]
        try:
            if k == 'add':
                ins.add(obj(o[1]))
                out.append([])
            elif k == 'get':
                r = ins.get(o[1], o[2])
                out.append([] if r is None else [r._pool_id])
            elif k == 'category':
                r = ins.get_category(o[1])
                out.append([] if r is None else [[[e['introspectable']._pool_id, e['introspectable'].order] for e in r]])
            elif k == 'relate':
                ins.relate(*[tuple(p) for p in o[1]])
                out.append([])
            elif k == 'unrelate':
                ins.unrelate(*[tuple(p) for p in o[1]])
                out.append([])
            elif k == 'remove':
                ins.remove(o[1], o[2])
                out.append([])
            elif k == 'related':
                out.append([x._pool_id for x in ins.related(obj(o[1]))])
            elif k == 'register':
                ob = obj(o[1])
                ob._relations = []
                for r in o[2]:
                    (ob.relate if r[0] else ob.unrelate)(r[1], r[2])
                ob.register(ins, None)
                out.append([])
            elif k == 'categories':
                out.append(ins.categories())
        except KeyError:
            out.append(['K'])
        except ValueError:
            out.append(['V'])
    return out


# ------------------------------------------------------------------ directive scenarios
def _scenarios():
    """name -> (directive func name, builder(variant) -> (callable(config), passed-args dict))."""
    from zope.interface import Interface

    class IA(Interface):
        pass

    class IB(Interface):
        pass

    def mk(tag):
        def f(*a, **k):
            return None
        f.__name__ = 'fn_' + tag
        return f

    S = {}

    def simple(func, **kw):
        flags = [k for k, v in kw.items() if callable(v) and getattr(v, '_variant', False)]

        iters = [k for k, v in kw.items() if isinstance(v, It)]

        def build(variant, as_iter=False, over=None):
            # variant: 0 / 1 (all flags take their first / second value) or one 0/1 choice per boolean flag
            sel = dict(zip(flags, variant)) if isinstance(variant, (list, tuple)) else {k: variant for k in flags}
            args = {}
            for k, v in kw.items():
                args[k] = v(sel[k]) if k in sel else (tuple(v.items) if isinstance(v, It) else v)
            args.update(over or {})

            def call(c, **extra):
                # an argument documented as "an iterable" may be a one-shot iterator: what is recorded must not depend on it
                given = {k: ((x for x in v) if (as_iter and k in iters) else v) for k, v in args.items()}
                return getattr(c, func)(**given, **extra)
            return call, args
        build.nflags = len(flags)
        build.layerable = func
        build.niter = len(iters)
        return build

    class It:
        """an argument the directive documents as an arbitrary iterable"""

        def __init__(self, *items):
            self.items = items

    def V(a, b):
        f = lambda choice: a if choice == 0 else b
        f._variant = True
        return f

    S['add_subscriber'] = ('add_subscriber', simple('add_subscriber', subscriber=mk('sub'), iface=IA))
    S['add_response_adapter'] = ('add_response_adapter', simple('add_response_adapter', adapter=mk('ad'), type_or_iface=IA))
    S['add_traverser'] = ('add_traverser', simple('add_traverser', adapter=mk('trav'), iface=IA))
    S['add_resource_url_adapter'] = ('add_resource_url_adapter',
                                     simple('add_resource_url_adapter', adapter=mk('rua'), resource_iface=IB))
    for n in ('set_root_factory', 'set_session_factory', 'set_request_factory', 'set_response_factory'):
        S[n] = (n, simple(n, factory=mk(n)))
    S['set_execution_policy'] = ('set_execution_policy', simple('set_execution_policy', policy=mk('ep')))
    S['add_request_method'] = ('add_request_method', simple('add_request_method', callable=mk('rm'), name='rmname',
                                                            property=V(True, False), reify=V(False, True)))
    S['set_locale_negotiator'] = ('set_locale_negotiator', simple('set_locale_negotiator', negotiator=mk('ln')))

    def add_translation_dirs(variant):
        # both spellings of a directory spec; each entry stands for one element of `specs` (documented key: spec)
        flag = variant[0] if isinstance(variant, (list, tuple)) else variant
        spec = 'harness.c20:locale' if flag == 0 else 'harness.c20:locale/'
        return (lambda c: c.add_translation_dirs(spec)), {'specs': spec, 'spec': spec}
    add_translation_dirs.nflags = 1
    S['add_translation_dirs'] = ('register', add_translation_dirs)
    S['add_renderer'] = ('add_renderer', simple('add_renderer', name='.zz', factory=mk('rf')))
    S['add_route'] = ('add_route', simple(
        'add_route', name='rname', pattern='/p/{x}', factory=mk('rfac'), xhr=V(True, False), request_method='POST',
        path_info='/pi', request_param='rp', header='X-H', accept='text/html', traverse='/tr',
        custom_predicates=(mk('cp'),), pregenerator=mk('pg'), static=V(False, True), use_global_views=V(False, True)))
    S['set_security_policy'] = ('set_security_policy', simple('set_security_policy', policy=mk('sp')))
    S['set_default_permission'] = ('set_default_permission', simple('set_default_permission', permission='perm.dflt'))
    S['add_permission'] = ('add_permission', simple('add_permission', permission_name='perm.x'))
    S['set_default_csrf_options'] = ('set_default_csrf_options', simple(
        'set_default_csrf_options', require_csrf=V(True, False), token='tok', header='X-Tok',
        safe_methods=It('GET', 'OPTIONS'), check_origin=V(True, False), allow_no_origin=V(False, True), callback=mk('cb')))
    S['set_csrf_storage_policy'] = ('set_csrf_storage_policy', simple('set_csrf_storage_policy', policy=mk('csp')))
    S['add_tween'] = ('_add_tween', simple('add_tween', tween_factory='harness.c20.prop.tween_factory_x',
                                           under='pyramid.tweens.excview_tween_factory', over='pyramid.tweens.MAIN'))
    S['add_view_deriver'] = ('add_view_deriver', simple('add_view_deriver', deriver=mk('dv'), name='dvname',
                                                        under='rendered_view', over='mapped_view'))
    S['set_view_mapper'] = ('set_view_mapper', simple('set_view_mapper', mapper=mk('vm')))
    S['add_accept_view_order'] = ('add_accept_view_order', simple('add_accept_view_order', value='text/html',
                                                                  weighs_more_than='text/plain', weighs_less_than='application/json'))

    # directives whose entry is built by a helper taking other parameter names: `args` is keyed by the helper's names
    def custom(nflags, fn):
        fn.nflags = nflags
        return fn

    def add_static_view(variant, as_iter=False, over=None):
        spec = (over or {}).get('spec', 'harness.c20:locale/')
        nm = (over or {}).get('name', 'statv')
        return (lambda c: c.add_static_view(name=nm, path=spec, cache_max_age=77)), {'name': nm, 'spec': spec}
    S['add_static_view'] = ('add', custom(0, add_static_view))

    def add_cache_buster(variant):
        spec = 'harness.c20:locale/'
        explicit = bool(variant[0] if isinstance(variant, (list, tuple)) else variant)
        cb = mk('cachebust')

        def call(c):
            c.add_cache_buster(spec, cb, explicit=explicit)
        return call, {'spec': spec, 'cachebust': cb, 'explicit': explicit}
    S['add_cache_buster'] = ('add_cache_buster', custom(1, add_cache_buster))

    def override_asset(variant):
        a, b = 'harness.c20:locale/', 'harness.c11:'
        return (lambda c: c.override_asset(to_override=a, override_with=b)), {'to_override': a, 'override_with': b}
    S['override_asset'] = ('override_asset', custom(0, override_asset))

    class _Pol:
        def __init__(self, tag):
            self.tag = tag

    def authn(variant):
        p, z = _Pol('authn'), _Pol('authz')

        def call(c):
            c.set_authorization_policy(z)
            c.set_authentication_policy(p)
        return call, {'policy': p}
    S['set_authentication_policy'] = ('set_authentication_policy', custom(0, authn))

    def authz(variant):
        p, z = _Pol('authn'), _Pol('authz')

        def call(c):
            c.set_authentication_policy(p)
            c.set_authorization_policy(z)
        return call, {'policy': z}
    S['set_authorization_policy'] = ('set_authorization_policy', custom(0, authz))
    def deco(view):
        return view

    # directives that build no entry of their own but hand their arguments to add_view: judged against add_view's table
    common = dict(attr=None, request_method='PUT', request_param='vp', containment=IB, accept='text/plain',
                  header='X-V', path_info='/vpi', match_param='a=b', decorator=deco, mapper=None)
    S['add_forbidden_view'] = ('add_view', simple('add_forbidden_view', view=mk('fview'), xhr=V(True, False), **common))
    S['add_notfound_view'] = ('add_view', simple('add_notfound_view', view=mk('nfview'), xhr=V(False, True), **common))

    class Boom(Exception):
        pass
    S['add_exception_view'] = ('add_view', simple('add_exception_view', view=mk('excview'), context=Boom,
                                                  xhr=V(True, False), **common))
    # pairs of statements of one directive that share their principal object (callable / spec / name) and differ in another
    # argument: (mode, variant of the first, variant of the second, argument overrides of the second); mode 'prefix' puts
    # each statement into its own include with its own route prefix
    P = _PAIRS
    P['add_subscriber'] = ('same', 0, 0, {'iface': IB})
    P['add_response_adapter'] = ('same', 0, 0, {'type_or_iface': IB})
    P['add_traverser'] = ('same', 0, 0, {'iface': IB})
    P['add_resource_url_adapter'] = ('same', 0, 0, {'resource_iface': IA})
    P['add_cache_buster'] = ('same', 0, 1, None)
    P['add_renderer'] = ('same', 0, 0, {'name': '.yy'})
    P['add_request_method'] = ('same', 0, 0, {'name': 'rmname2'})
    P['add_view'] = ('same', 0, 0, {'name': 'vname2'})
    P['add_route'] = ('same', 0, 0, {'name': 'rname2'})
    P['add_view_deriver'] = ('same', 0, 0, {'name': 'dvname2'})
    P['add_permission'] = ('same', 0, 0, {'permission_name': 'perm.y'})
    P['add_view_predicate'] = ('same', 0, 0, {'name': 'zz_view_pred2'})
    P['add_static_view'] = ('prefix', 0, 0, None)
    P['add_route/prefix'] = ('prefix', 0, 0, None)
    # a view name that is a URL gets no route, so a route prefix does not apply to it: the same URL under two prefixes is ONE
    # registration (the later statement replaces the earlier one); which statements are in effect is probed with static_url
    P['add_static_view/url'] = ('prefix-probe', 0, 0, {'name': 'http://cdn.example.test/st', 'spec': 'harness.c20:assets_b/'},
                                {'name': 'http://cdn.example.test/st'})
    P['add_static_view/url-one-prefix'] = ('prefix-probe', 0, 0, {'name': '//cdn2.example.test/st', 'spec': 'harness.c20:assets_b/'},
                                           {'name': 'local-statv'})
    # the same tween factory named at two levels: in the pyramid.tweens setting (explicit) and by add_tween (implicit);
    # the two statements do not conflict and both are registered
    P['add_tween/explicit-and-implicit'] = ('settings', 0, 0, None)
    # two spellings of ONE thing (None and '' both name the default renderer): an include's statement overridden by the
    # application's; which factory is registered is probed, only the statement in effect may have an entry
    P['add_renderer/none-and-empty'] = ('include-probe', 0, 0, {'name': None, 'factory': mk('rf_other')}, {'name': ''})
    P['add_renderer/empty-and-none'] = ('include-probe', 0, 0, {'name': '', 'factory': mk('rf_other2')}, {'name': None})
    # two statements whose principal objects are DISTINCT but compare EQUAL (callable value objects made by two add-ons):
    # both subscriptions are live
    P['add_subscriber/equal-callables'] = ('same', 0, 0, {'subscriber': _EqCallable(1)}, {'subscriber': _EqCallable(1)})
    for fam in ('view', 'route', 'subscriber'):
        S['add_%s_predicate' % fam] = ('_add_predicate', simple(
            'add_%s_predicate' % fam, name='zz_%s_pred' % fam, factory=mk(fam + '_pred_factory'),
            # both weights given, with different values (names of predicates; nothing sorts the list in this scenario)
            weighs_more_than='xhr' if fam != 'subscriber' else 'zz_sp_before',
            weighs_less_than='request_method' if fam != 'subscriber' else 'zz_sp_after'))


    S['add_view'] = ('add_view', simple(
        'add_view', view=mk('view'), name='vname', context=IA, containment=IB, request_param='vp',
        request_method='PUT', attr=None, xhr=V(True, False), accept='text/plain', header='X-V',
        path_info='/vpi', match_param='a=b', http_cache=37, require_csrf=V(False, True),
        mapper=None, decorator=deco, permission='perm.view'))
    return S


class _EqCallable:
    """a callable value object: instances made separately compare (and hash) equal"""

    def __init__(self, v):
        self.v = v

    def __call__(self, *a, **k):
        return None

    def __eq__(self, other):
        return isinstance(other, _EqCallable) and other.v == self.v

    def __hash__(self):
        return hash(('_EqCallable', self.v))


def _probe_renderer(c, args):
    from pyramid.interfaces import IRendererFactory
    return c.registry.queryUtility(IRendererFactory, name=args['name'] or '') is args['factory']


PROBES = {'add_renderer': _probe_renderer}


def tween_factory_x(handler, registry):
    return handler


# the category in which each directive's statement must leave an entry
EXPECT_CATEGORY = {
    'add_subscriber': 'subscribers', 'add_response_adapter': 'response adapters', 'add_traverser': 'traversers',
    'add_resource_url_adapter': 'resource url adapters', 'set_root_factory': 'root factories',
    'set_session_factory': 'session factory', 'set_request_factory': 'request factory',
    'set_response_factory': 'response factory', 'set_execution_policy': 'execution policy',
    'add_request_method': 'request extensions', 'set_locale_negotiator': 'locale negotiator',
    'add_translation_dirs': 'translation directories', 'add_renderer': 'renderer factories', 'add_route': 'routes',
    'set_security_policy': 'security policy', 'set_default_permission': 'default permission',
    'add_permission': 'permissions', 'set_default_csrf_options': 'default csrf view options',
    'set_csrf_storage_policy': 'csrf storage policy', 'add_tween': 'tweens', 'add_view_deriver': 'view derivers',
    'set_view_mapper': 'view mappers', 'add_accept_view_order': 'accept view order', 'add_view': 'views',
    'add_static_view': 'static views', 'add_cache_buster': 'cache busters', 'override_asset': 'asset overrides',
    'set_authentication_policy': 'authentication policy', 'set_authorization_policy': 'authorization policy',
    'add_view_predicate': 'view predicates', 'add_route_predicate': 'route predicates',
    'add_subscriber_predicate': 'subscriber predicates',
    'add_forbidden_view': 'views', 'add_notfound_view': 'views', 'add_exception_view': 'views',
}

_SC = {}
_PAIRS = {}


def scenarios():
    if not _SC:
        _SC.update(_scenarios())
    return _SC


_DOCNORM = []


def _docnorm():
    """(category, key) pairs the documentation describes as a NORMALISED version of the argument"""
    if not _DOCNORM:
        import harness.common.build as B
        try:
            _DOCNORM.append(X.documented_normalised(os.path.dirname(B.SRC)))
        except OSError:
            _DOCNORM.append(set())
    return _DOCNORM[0]


def _match(recorded, passed, tolerant=False):
    """does `recorded` carry `passed`?  identity, equality, the documented tuple/dotted-name normalisations; strings must be
    EQUAL unless the documentation calls the key a normalised version of the argument (tolerant: prefix/suffix added)"""
    if recorded is passed:
        return True
    if isinstance(passed, str) and isinstance(recorded, str):
        return recorded == passed or (tolerant and bool(passed) and passed in recorded)
    if isinstance(passed, bool) or isinstance(recorded, bool):
        return isinstance(passed, bool) and isinstance(recorded, bool) and passed == recorded
    try:
        if recorded == passed and type(recorded) is type(passed):
            return True
    except Exception:
        pass
    from pyramid.util import as_sorted_tuple
    try:
        if as_sorted_tuple(passed) == recorded:
            return True
    except Exception:
        pass
    if isinstance(passed, str) and '.' in passed and hasattr(recorded, '__name__') and passed.endswith('.' + recorded.__name__):
        return True     # maybe_dotted('pkg.mod.name')
    if isinstance(recorded, (tuple, list)) and passed in recorded:
        return True
    return False


def _run_directive(case):
    from pyramid.config import Configurator
    name, variant = case['name'], case['variant']
    func, build = scenarios()[name]
    call, args = build(variant, True) if case.get('iter') else build(variant)
    c = Configurator(autocommit=False)
    if case.get('alias'):
        # the statement is spelled with a legacy alias of the directive (class-level `alias = directive`)
        c = _AliasProxy(c, _directive_name(name), case['alias'])
    layers = case.get('layers', 0)
    want_line = [None]
    if layers:
        # the statement is a helper call `layers` frames above the directive; the helpers pass `_backframes` (the documented
        # way "for outer decorators to action methods") so that the entry points at the statement, not into the helper
        import sys as _sys
        bf = layers + (1 if build.layerable in _viewdefaults_directives() else 0)
        inner = call            # helper 1: the scenario's own function that calls the directive

        def layer(c_):          # helper 2
            return inner(c_, _backframes=bf)

        def call(c_):
            want_line[0] = _sys._getframe().f_lineno + 1
            (layer(c_) if layers == 2 else inner(c_, _backframes=bf))          # <- the statement
    before = {(cn, id(e['introspectable'])) for cn, items in c.introspector.categorized() for e in items}
    execd = None
    if case.get('execd'):
        # the statement is configuration TEXT compiled and executed (stored / generated / templated configuration, an
        # interactive prompt, sourceless deployments): no source line can be read for its frame, the file name, line number
        # and function of the statement are known all the same
        execd = ('<c20 configuration text %s>' % name, 3)
        code = compile('\n\nc.%s(**args)\n' % build.layerable, execd[0], 'exec')
        given = {k: v for k, v in args.items()}
        exec(code, {'c': c, 'args': given})
    else:
        call(c)
    c.commit()
    out = []
    for cn, items in c.introspector.categorized():
        for e in items:
            intr = e['introspectable']
            if (cn, id(intr)) in before:
                continue
            for k in sorted(intr.keys()):
                tol = (cn, k) in _docnorm()
                srcs = sorted(p for p, v in args.items() if v is not None and _match(intr[k], v, tol))
                # near miss, reported so that the deviation can be named exactly: the argument with a slash appended
                srcs += sorted(p + '+/' for p, v in args.items() if isinstance(v, str) and isinstance(intr[k], str)
                               and p not in srcs and intr[k] == v + '/')
                out.append([cn, k, srcs, ('T' if intr[k] else 'F') if isinstance(intr[k], bool) else ''])
            # "action info points at the statement": the statement is issued from this file
            ai = intr.action_info
            fn = getattr(ai, 'file', None) or ''
            here = fn.endswith(os.path.join('harness', 'c20', 'prop.py'))
            if execd is not None:
                here = fn == execd[0]
                want_line[0] = execd[1]
            if here and want_line[0] is not None and getattr(ai, 'line', None) != want_line[0]:
                out.append([cn, '@action_info', ['another-line-of-the-harness'], ''])
            else:
                out.append([cn, '@action_info', ['statement'] if here else ['elsewhere:' + os.path.basename(fn)], ''])
    return [func, out]


_VD = []
_DOC = []


class _AliasProxy:
    def __init__(self, real, frm, to):
        self.__dict__.update(_real=real, _frm=frm, _to=to)

    def __getattr__(self, name):
        return getattr(self._real, self._to if name == self._frm else name)


def _directive_name(scen):
    b = scenarios()[scen][1]
    return getattr(b, 'layerable', None) or scen


_ALIASES = []


def _aliases():
    """[(alias, scenario)]: public class-level aliases `alias = directive` of directives that have a scenario, read from the
    PINNED class-level statements (an alias turned into something else keeps its scenario)"""
    if not _ALIASES:
        out = []
        try:
            with open(os.path.join(HERE, 'pins_classlevel.json')) as f:
                cl = json.load(f)
        except (OSError, ValueError):
            cl = {}
        byname = {_directive_name(sc): sc for sc in scenarios()}
        for k, stmts in sorted(cl.items()):
            for st in stmts:
                parts = [x.strip() for x in st.split('=')]
                if len(parts) == 2 and parts[0].isidentifier() and not parts[0].startswith('_') and parts[1] in byname:
                    out.append((parts[0], byname[parts[1]]))
        _ALIASES.append(out)
    return _ALIASES[0]


def _viewdefaults_directives():
    """directives wrapped by @viewdefaults (one more frame between the statement and action_method)"""
    if not _VD:
        import ast as _ast
        import harness.common.build as B
        names = set()
        try:
            tree = _ast.parse(open(os.path.join(B.SRC, 'pyramid/config/views.py')).read())
            for n in _ast.walk(tree):
                if isinstance(n, _ast.FunctionDef) and any(_ast.unparse(d) == 'viewdefaults' for d in n.decorator_list):
                    names.add(n.name)
        except (OSError, SyntaxError):
            pass
        _VD.append(names)
    return _VD[0]


def _carries(func, cn, intr, args, scen):
    """does the entry hold the arguments of this statement?  (keys named like an argument; keys the table attributes to one)"""
    sites = [s_ for s_ in _table().get(func, []) if s_['category'] == cn]
    for k in intr.keys():
        exp = DOC_EXPECT.get((scen, k))
        if exp is not None and exp(args) is not None:
            continue
        tol = True      # which entry belongs to which statement; exact values are judged by the directive stream
        if k in args and args[k] is not None and not _match(intr[k], args[k], tol):
            return False
        for f in [kk['form'] for s_ in sites for kk in s_['keys'] if kk['key'] == k]:
            if f[0] in ('arg', 'norm') and f[-1] in args and args[f[-1]] is not None and 'expr' not in f[1].split('+') \
                    and not f[1].startswith('local:') and not _match(intr[k], args[f[-1]], tol):
                return False
    return True


def _run_pair(case):
    """two statements of one directive, both in effect (the commit reports no conflict): each must have an entry of its own"""
    from pyramid.config import Configurator
    from pyramid.exceptions import ConfigurationConflictError, ConfigurationError
    scenarios()
    mode, v1, v2, over = _PAIRS[case['name']][:4]
    over1 = _PAIRS[case['name']][4] if len(_PAIRS[case['name']]) > 4 else None
    scen = case['name'].split('/')[0]
    func, build = scenarios()[scen]
    call1, args1 = build(v1, False, over1) if over1 else build(v1)
    call2, args2 = build(v2, False, over) if over else build(v2)
    if mode == 'settings':
        # the first statement is made by the constructor from the settings (after its own commit: it is pending with ours)
        c = Configurator(settings={'pyramid.tweens': args1['tween_factory']}, autocommit=False)
        call1(c)
        try:
            c.commit()
        except ConfigurationConflictError:
            return [1, 0, 0]
        want = EXPECT_CATEGORY[scen]
        ents = [e['introspectable'] for e in (c.introspector.get_category(want) or [])
                if _match(e['introspectable'].get('factory'), args1['tween_factory'], True)]
        ok1 = [i for i, e in enumerate(ents) if e.get('type') == 'implicit' and _carries(func, want, e, args1, scen)]
        ok2 = [i for i, e in enumerate(ents) if e.get('type') == 'explicit' and e.get('under') is None and e.get('over') is None]
        m = 2 if any(a != b for a in ok1 for b in ok2) else (1 if (ok1 or ok2) else 0)
        return [0, len(ents), m]
    c = Configurator(autocommit=False)
    before = {id(e['introspectable']) for cn, items in c.introspector.categorized() for e in items}
    if mode == 'include-probe':
        def inc_first(cfg):
            call1(cfg)
        c.include(inc_first)
        call2(c)
    elif mode in ('prefix', 'prefix-probe'):
        def inc_a(cfg):
            call1(cfg)

        def inc_b(cfg):
            call2(cfg)
        c.include(inc_a, route_prefix='pa')
        c.include(inc_b, route_prefix='pb')
    else:
        call1(c)
        call2(c)
    try:
        c.commit()
    except ConfigurationConflictError:
        return [1, 0, 0]
    want = EXPECT_CATEGORY[scen]
    ents = [e['introspectable'] for e in (c.introspector.get_category(want) or []) if id(e['introspectable']) not in before]
    ok1 = [i for i, e in enumerate(ents) if _carries(func, want, e, args1, scen)]
    ok2 = [i for i, e in enumerate(ents) if _carries(func, want, e, args2, scen)]
    m = 2 if any(a != b for a in ok1 for b in ok2) else (1 if (ok1 or ok2) else 0)
    if mode == 'include-probe':
        eff = [bool(PROBES[scen](c, a_)) for a_ in (args1, args2)]
        # entries are told apart by identity of the recorded objects where the arguments are objects
        return [0, len(ents), m, eff, [bool(ok1), bool(ok2)]]
    if mode == 'prefix-probe':
        # which of the two statements is in effect: URL generation for its asset spec works
        from pyramid.request import Request
        eff = []
        for a_ in (args1, args2):
            r_ = Request.blank('/')
            r_.registry = c.registry
            try:
                u = r_.static_url(a_['spec'] + 'x.css')
                eff.append(bool(u))
            except ValueError:
                eff.append(False)
        return [0, len(ents), m, eff, [bool(ok1), bool(ok2)]]
    return [0, len(ents), m]


# ------------------------------------------------------------------ statements that fail while being carried out
def _failing():
    from zope.interface import Interface

    class IEvt(Interface):
        pass

    class _Pol:
        pass

    def sub(event):
        return None
    return {
        # the deferred callable raises ConfigurationError (unknown predicate / not a directory / no authorization policy)
        'add_subscriber': lambda c: c.add_subscriber(sub, IEvt, zz_c20_unknown_predicate=1),
        'add_translation_dirs': lambda c: c.add_translation_dirs('harness.c20:no_such_directory'),
        'set_authentication_policy': lambda c: c.set_authentication_policy(_Pol()),
    }


FAILING = ['add_subscriber', 'add_translation_dirs', 'set_authentication_policy']


def _run_failing(case):
    """a statement whose action raises when it is carried out -- at once with autocommit=True, at commit otherwise -- and the
    application carries on: the statement did not take effect, so it has no entry (obs: [raised, new entries])"""
    from pyramid.config import Configurator
    c = Configurator(autocommit=case['autocommit'])
    before = {id(e['introspectable']) for cn, items in c.introspector.categorized() for e in items}
    raised = False
    try:
        _failing()[case['name']](c)
        c.commit()
    except Exception:
        raised = True
    new = [cn for cn, items in c.introspector.categorized() for e in items if id(e['introspectable']) not in before]
    return [raised, sorted(new)]


# ------------------------------------------------------------------ one statement given several values (*specs)
MULTI = {'add_translation_dirs': ['harness.c20:locale/', 'harness.c20:locale/de/', 'harness.c20:locale/de/LC_MESSAGES/']}


def _run_multi(case):
    """one statement with several values of a multi-valued argument: every value gets an entry of its own that records
    ITS value (obs: per entry [index of the value the entry's directory belongs to, index of the value it records, info ok])"""
    from pyramid.config import Configurator
    specs = [MULTI[case['name']][i] for i in case['order']]
    c = Configurator(autocommit=False)
    before = {id(e['introspectable']) for cn, items in c.introspector.categorized() for e in items}
    import sys as _sys
    line = _sys._getframe().f_lineno + 1
    getattr(c, case['name'])(*specs)
    c.commit()
    pkgdir = os.path.dirname(HERE)
    out = []
    for e in c.introspector.get_category(EXPECT_CATEGORY[case['name']]) or []:
        i = e['introspectable']
        if id(i) in before:
            continue
        def where(sp):
            return os.path.normpath(os.path.join(pkgdir, 'c20', sp.split(':', 1)[1]))
        d = [k for k, sp in enumerate(specs) if os.path.normpath(str(i.get('directory'))) == where(sp)]
        r = [k for k, sp in enumerate(specs) if i.get('spec') in (sp, sp.rstrip('/'))]
        ai = i.action_info
        ok = int((getattr(ai, 'file', None) or '').endswith(os.path.join('harness', 'c20', 'prop.py')) and getattr(ai, 'line', None) == line)
        out.append([d[0] if d else -1, r[0] if r else -1, ok])
    return sorted(out)


# ------------------------------------------------------------------ nested action methods (the action-info stack)
def gen_nest(rng):
    def call(depth):
        body = []
        for _ in range(rng.choice([1, 1, 2, 3])):
            if depth < 3 and rng.random() < 0.45:
                body.append(['sub', call(depth + 1), rng.random() < 0.7])
            else:
                body.append(['probe'])
        return {'given': rng.choice([None, None, rng.randrange(1, 9)]), 'body': body, 'fails': rng.random() < 0.25}
    return {'kind': 'nest', 'calls': [call(0) for _ in range(rng.choice([1, 2, 3]))]}


def _nest_wire(call):
    return [[] if call['given'] is None else [call['given']],
            [[0] if it[0] == 'probe' else [1, _nest_wire(it[1]), 1 if it[2] else 0] for it in call['body']],
            1 if call['fails'] else 0]


def _nest_valid(call, depth=0):
    return depth <= 6 and set(call) == {'given', 'body', 'fails'} and isinstance(call['fails'], bool) \
        and (call['given'] is None or (isinstance(call['given'], int) and 0 <= call['given'] < 1000)) \
        and all((it == ['probe']) or (len(it) == 3 and it[0] == 'sub' and isinstance(it[2], bool) and _nest_valid(it[1], depth + 1))
                for it in call['body'])


def _run_nest(case):
    """statements on one configurator; every call is an action method (add_directive, action_wrap=True) that registers
    entries (`probe`) and calls further action methods, some with `_info`, some failing, some failures caught"""
    import sys as _sys
    from pyramid.config import Configurator
    c = Configurator(autocommit=False)

    class Boom(Exception):
        pass
    counter, entries, lines, cur = [0], [], {'top': None, 'body': None}, [0]

    def define(call_):
        idx = counter[0]
        counter[0] += 1
        name = 'c20_nest_%d' % idx
        subs = [(it, define(it[1]) if it[0] == 'sub' else None) for it in call_['body']]

        def fn(config):
            for it, sub in subs:
                if it[0] == 'probe':
                    intr = config.introspectable('c20 nest', len(entries), 't', 'ty')
                    entries.append((cur[0], intr))
                    config.action(None, introspectables=(intr,))
                else:
                    kw = {'_info': ('nest', it[1]['given'], '', '')} if it[1]['given'] is not None else {}
                    try:
                        lines['body'] = _sys._getframe().f_lineno + 1
                        getattr(config, sub)(**kw)
                    except Boom:
                        if not it[2]:
                            raise
            if call_['fails']:
                raise Boom()
        c.add_directive(name, fn, action_wrap=True)
        return name

    def tok(ai):
        f, l = getattr(ai, 'file', None), getattr(ai, 'line', None)
        if f is None:
            return 0
        if f == 'nest':
            return 10 + l
        if str(f).endswith(os.path.join('harness', 'c20', 'prop.py')):
            return 1 if l == lines['top'] else 2 if l == lines['body'] else 98
        return 99
    names = [define(call_) for call_ in case['calls']]
    for k, (call_, name) in enumerate(zip(case['calls'], names)):
        cur[0] = k
        kw = {'_info': ('nest', call_['given'], '', '')} if call_['given'] is not None else {}
        try:
            lines['top'] = _sys._getframe().f_lineno + 1
            getattr(c, name)(**kw)
        except Boom:
            pass
    after = tok(c.action_info)
    c.commit()
    return [[[tok(i.action_info) for k2, i in entries if k2 == k] for k in range(len(case['calls']))], after]


# ------------------------------------------------------------------ include-nesting programs
KINDS = ['renderer', 'defperm', 'perm', 'session', 'route']


def gen_program(rng):
    n_nodes = rng.choice([1, 2, 2, 3, 3, 4])
    parent = [None] + [rng.randrange(0, i) for i in range(1, n_nodes)]
    n_st = rng.choice([2, 3, 4, 5, 6])
    stmts = []
    for k in range(n_st):
        kind = rng.choice(['renderer', 'renderer', 'defperm', 'perm', 'session', 'route', 'route'])
        stmts.append({'kind': kind, 'n': rng.randrange(2), 'node': rng.randrange(n_nodes),
                      'via_pkg': rng.random() < 0.25})
    nodes = [[] for _ in range(n_nodes)]
    for k, st in enumerate(stmts):
        nodes[st['node']].append(['stmt', k])
    for ch in range(1, n_nodes):
        # a child is included directly, or by an add-on directive (add_directive, action_wrap=True) that calls include():
        # its statements are then issued while an action method of ANOTHER configurator object is still running
        nodes[parent[ch]].append(['inc', ch, 'addon'] if rng.random() < 0.4 else ['inc', ch])
    for items in nodes:
        if rng.random() < 0.3:
            items.append(['fail'])     # a directive that raises (caught by the application), then configuration goes on
        rng.shuffle(items)
    return {'kind': 'program', 'introspection': rng.random() < 0.75, 'stmts': stmts, 'nodes': nodes, 'parent': parent}


class _Tag:
    def __init__(self, k):
        self.k = k

    def __call__(self, *a, **kw):
        return None


def _spec_of(child):
    return '%s:inc_%d' % (__name__, child)


def _run_program(case):
    from pyramid.config import Configurator
    from pyramid.exceptions import ConfigurationConflictError
    c = Configurator(introspection=case['introspection'], autocommit=False)
    stmts = case['stmts']

    def run_node(cfg, node):
        for item in case['nodes'][node]:
            if item[0] == 'inc':
                child = item[1]

                def inc(cfg2, child=child):
                    run_node(cfg2, child)
                inc.__name__ = 'inc_%d' % child
                inc.__qualname__ = inc.__name__
                inc.__module__ = __name__
                if len(item) > 2 and item[2] == 'addon':
                    def addon(config, inc=inc):
                        config.include(inc)
                    dname = 'c20_addon_%d' % child
                    cfg.add_directive(dname, addon, action_wrap=True)
                    getattr(cfg, dname)()
                else:
                    cfg.include(inc)
            elif item[0] == 'fail':
                try:
                    cfg.add_route('broken', None)      # ConfigurationError: pattern required
                except Exception:
                    pass
            else:
                k = item[1]
                st = stmts[k]
                info = ('stmt', k, '', '')
                # with_package: same include level, another Configurator object (what config.scan users get)
                tgt = cfg.with_package('harness.c20') if st.get('via_pkg') else cfg
                if st['kind'] == 'renderer':
                    tgt.add_renderer('.x%d' % st['n'], factory=_Tag(k), _info=info)
                elif st['kind'] == 'defperm':
                    tgt.set_default_permission('dperm%d' % k, _info=info)
                elif st['kind'] == 'perm':
                    tgt.add_permission('perm%d' % k, _info=info)
                elif st['kind'] == 'route':
                    tgt.add_route('rt%d' % st['n'], '/k%d/{x}' % k, _info=info)
                else:
                    tgt.set_session_factory(_Tag(k), _info=info)

    run_node(c, 0)
    outcome = 0
    try:
        c.commit()
    except ConfigurationConflictError:
        outcome = 1
    ents = []
    intro = c.registry.introspector if hasattr(c.registry, 'introspector') else c.introspector
    for cn, items in intro.categorized():
        for e in items:
            i = e['introspectable']
            k = None
            if cn == 'renderer factories' and isinstance(i.get('factory'), _Tag):
                k, disc = i['factory'].k, i['name']
            elif cn == 'session factory' and isinstance(i.get('factory'), _Tag):
                k, disc = i['factory'].k, ''
            elif cn in ('default permission', 'permissions') and isinstance(i.get('value'), str) \
                    and i['value'].lstrip('d').startswith('perm'):
                k = int(i['value'].lstrip('d')[4:])
                disc = '' if cn == 'default permission' else i['value']
            live = True
            if cn == 'routes' and str(i.get('name', '')).startswith('rt') and str(i.get('pattern', '')).startswith('/k'):
                # the entry describes the route that is in effect: its object is the route the mapper holds under the name
                k, disc = int(i['pattern'][2:].split('/')[0]), i['name']
                rt = c.get_routes_mapper().get_route(i['name'])
                # (after a commit that ended in a conflict the later phases did not run: nothing to compare)
                live = outcome != 0 or (rt is not None and i.get('object') is rt and rt.pattern == i['pattern'])
            if k is None:
                continue
            ai = i.action_info
            ok = int(getattr(ai, 'line', None) == k and getattr(ai, 'file', None) == 'stmt' and live)
            ents.append([cn, disc, str(k), ok])
    return [outcome, sorted(ents)]


def _program_wire(case):
    acts, intrs = [], []
    par = case['parent']

    def path(node):
        p = []
        while node != 0:
            p.append(_spec_of(node))
            node = par[node]
        return list(reversed(p))

    # declaration order = the order in which the statements are issued
    order = []

    def walk(node):
        for item in case['nodes'][node]:
            if item[0] == 'inc':
                walk(item[1])
            elif item[0] == 'stmt':
                order.append(item[1])
    walk(0)
    for k in order:
        st = case['stmts'][k]
        kind = st['kind']
        disc = {'renderer': [10 + st['n']], 'defperm': [1], 'session': [2], 'perm': [], 'route': [20 + st['n']]}[kind]
        o = {'renderer': -20, 'defperm': -20, 'session': 0, 'perm': 0, 'route': -10}[kind]
        acts.append([k, disc, path(st['node']), o])
        if kind == 'renderer':
            il = [[['renderer factories', '.x%d' % st['n'], str(k), 2 * k], []]]
        elif kind == 'defperm':
            il = [[['default permission', '', str(k), 2 * k], []], [['permissions', 'dperm%d' % k, str(k), 2 * k + 1], []]]
        elif kind == 'perm':
            il = [[['permissions', 'perm%d' % k, str(k), 2 * k], []]]
        elif kind == 'route':
            il = [[['routes', 'rt%d' % st['n'], str(k), 2 * k], []]]
        else:
            il = [[['session factory', '', str(k), 2 * k], []]]
        intrs.append([k, il])
    return [2, case['introspection'], acts, intrs]


# ------------------------------------------------------------------ relations made by add_view (view->route, permission->view, template->view)
def gen_viewrels(rng):
    n = rng.choice([1, 2, 2, 3, 4])
    shared = rng.random() < 0.6
    views = []
    for i in range(n):
        views.append({'name': 'v%d' % i, 'route': rng.random() < 0.5, 'perm': (0 if shared else i) if rng.random() < 0.8 else None,
                      'tmpl': rng.random() < 0.5})
    return {'kind': 'viewrels', 'views': views, 'two_commits': rng.random() < 0.3}


def _run_viewrels(case):
    from pyramid.config import Configurator
    c = Configurator(autocommit=False)
    c.add_renderer('.vt', lambda info: (lambda value, system: 'x'))
    c.add_route('r0', '/r0')
    for i, v in enumerate(case['views']):
        kw = {'name': v['name']}
        if v['route']:
            kw['route_name'] = 'r0'
        if v['perm'] is not None:
            kw['permission'] = 'perm%d' % v['perm']
        if v['tmpl']:
            kw['renderer'] = 't%d.vt' % i
        c.add_view(lambda ctx, req: {}, **kw)
        if case['two_commits'] and i == 0:
            c.commit()
    c.commit()
    intro = c.introspector
    out = []

    def ident(i):
        cn = i.category_name
        if cn == 'views':
            return ['views', i['name']]
        if cn == 'permissions':
            return ['permissions', i['value']]
        if cn == 'templates':
            return ['templates', i['name']]
        if cn == 'routes':
            return ['routes', i['name']]
        if cn == 'renderer factories':
            return ['renderer factories', i['name']]
        return [cn, '?']
    for cn in ('views', 'permissions', 'templates'):
        for e in intro.get_category(cn) or []:
            i = e['introspectable']
            if cn == 'views' and not str(i['name']).startswith('v'):
                continue
            out.append([ident(i), sorted(ident(r) for r in e['related'])])
    return sorted(out)


def _viewrels_spec(case):
    exp = {}

    def link(a, b):
        exp.setdefault(tuple(a), set()).add(tuple(b))
        exp.setdefault(tuple(b), set()).add(tuple(a))
    for i, v in enumerate(case['views']):
        me = ['views', v['name']]
        exp.setdefault(tuple(me), set())
        if v['route']:
            link(me, ['routes', 'r0'])
        if v['perm'] is not None:
            link(me, ['permissions', 'perm%d' % v['perm']])
        if v['tmpl']:
            t = ['templates', 't%d.vt' % i]
            link(me, t)
            link(t, ['renderer factories', '.vt'])
    out = []
    for k, vs in exp.items():
        if k[0] in ('views', 'permissions', 'templates'):
            out.append([list(k), sorted(list(x) for x in vs)])
    return sorted(out)


# ------------------------------------------------------------------ engine API
def generate(rng, tier, n):
    # directive scenarios first (finite), then op sequences
    yield {'kind': 'tables'}
    import itertools
    for name in sorted(scenarios()):
        nflags = getattr(scenarios()[name][1], 'nflags', 0)
        for variant in (0, 1):
            yield {'kind': 'directive', 'name': name, 'variant': variant}
        if getattr(scenarios()[name][1], 'niter', 0):
            yield {'kind': 'directive', 'name': name, 'variant': 0, 'iter': True}
        lay = getattr(scenarios()[name][1], 'layerable', None)
        if lay:
            yield {'kind': 'directive', 'name': name, 'variant': 0, 'execd': True}
            # helpers layered on the directive (traceback.extract_stack(limit=4) reaches 2 + _backframes <= 4 frames)
            for n_layers in ((1,) if lay in _viewdefaults_directives() else (1, 2)):
                yield {'kind': 'directive', 'name': name, 'variant': 0, 'layers': n_layers}
        # every combination of the directive's boolean flags (so that a mix-up between two flags shows)
        for combo in itertools.product((0, 1), repeat=nflags):
            if nflags >= 2 and len(set(combo)) > 1:
                yield {'kind': 'directive', 'name': name, 'variant': list(combo)}
    for alias, scen in _aliases():
        yield {'kind': 'directive', 'name': scen, 'variant': 0, 'alias': alias}
    for name in sorted(_PAIRS):
        yield {'kind': 'pair', 'name': name}
    for name in FAILING:
        for ac in (True, False):
            yield {'kind': 'failing', 'name': name, 'autocommit': ac}
    for name in sorted(MULTI):
        for order in ([0, 1], [1, 0], [2, 0, 1], [0]):
            yield {'kind': 'multi', 'name': name, 'order': order}
    for j in range(n):
        if j % 10 == 9:
            yield gen_viewrels(rng)
            continue
        if j % 10 == 4:
            yield gen_nest(rng)
            continue
        yield gen_program(rng) if j % 3 == 0 else gen_relcase(rng) if j % 3 == 1 else gen_ops(rng)


def valid(case):
    try:
        if case['kind'] == 'tables':
            return case == {'kind': 'tables'}
        if case['kind'] == 'viewrels':
            return len(case['views']) >= 1 and all(v['name'] == 'v%d' % i and isinstance(v['route'], bool) and isinstance(v['tmpl'], bool)
                                                   and (v['perm'] is None or isinstance(v['perm'], int))
                                                   for i, v in enumerate(case['views'])) and isinstance(case['two_commits'], bool)
        if case['kind'] == 'pair':
            scenarios()
            return case == {'kind': 'pair', 'name': case['name']} and case['name'] in _PAIRS
        if case['kind'] == 'nest':
            return set(case) == {'kind', 'calls'} and len(case['calls']) >= 1 and all(_nest_valid(x) for x in case['calls'])
        if case['kind'] == 'failing':
            return set(case) == {'kind', 'name', 'autocommit'} and case['name'] in FAILING and isinstance(case['autocommit'], bool)
        if case['kind'] == 'multi':
            return set(case) == {'kind', 'name', 'order'} and case['name'] in MULTI and len(case['order']) >= 1 \
                and len(set(case['order'])) == len(case['order']) and all(x in range(len(MULTI[case['name']])) for x in case['order'])
        if case['kind'] == 'directive':
            if case['name'] not in scenarios():
                return False
            v = case['variant']
            if 'alias' in case and not ((case['alias'], case['name']) in _aliases() and 'layers' not in case
                                        and 'execd' not in case and 'iter' not in case):
                return False
            if 'execd' in case and not (case['execd'] is True and 'layers' not in case and 'iter' not in case
                                        and getattr(scenarios()[case['name']][1], 'layerable', None)):
                return False
            if 'layers' in case and not (case['layers'] in (1, 2) and getattr(scenarios()[case['name']][1], 'layerable', None)):
                return False
            if isinstance(v, list):
                return len(v) == getattr(scenarios()[case['name']][1], 'nflags', 0) and all(x in (0, 1) for x in v)
            return v in (0, 1)
        if case['kind'] == 'program':
            n = len(case['nodes'])
            if n < 1 or len(case['parent']) != n or case['parent'][0] is not None:
                return False
            if any(not (isinstance(p, int) and 0 <= p < i) for i, p in enumerate(case['parent']) if i > 0):
                return False
            seen_st, seen_inc = [], []
            for i, items in enumerate(case['nodes']):
                for it in items:
                    if it[0] == 'stmt':
                        if case['stmts'][it[1]]['node'] != i:
                            return False
                        seen_st.append(it[1])
                    elif it[0] == 'inc':
                        if case['parent'][it[1]] != i or not (len(it) == 2 or it[2:] == ['addon']):
                            return False
                        seen_inc.append(it[1])
                    elif it != ['fail']:
                        return False
            return sorted(seen_st) == list(range(len(case['stmts']))) and sorted(seen_inc) == list(range(1, n)) \
                and all(st['kind'] in KINDS and st['n'] in (0, 1) for st in case['stmts']) \
                and isinstance(case['introspection'], bool)
        for o in case['ops']:
            if o[0] not in OPCODE:
                return False
            if o[0] in ('add', 'related', 'register'):
                if list(o[1]) not in POOL:
                    return False
            if o[0] == 'register' and not all(len(r) == 3 and isinstance(r[0], bool) and r[1] and r[2] for r in o[2]):
                return False
            if o[0] in ('relate', 'unrelate') and not all(len(p) == 2 and p[0] and p[1] for p in o[1]):
                return False
            if o[0] in ('get', 'remove') and not (o[1] and o[2]):
                return False
            if o[0] == 'category' and not o[1]:
                return False
        return True
    except Exception:
        return False


def to_wire(case):
    if case['kind'] == 'ops':
        return [0, _ops_wire(case['ops'])]
    if case['kind'] == 'program':
        return _program_wire(case)
    if case['kind'] == 'nest':
        return [3, [_nest_wire(x) for x in case['calls']]]
    return [1]          # tables / directive / viewrels: the model side is the regenerated tables


_TABLE = {}


def _table():
    if not _TABLE:
        import harness.common.build as B
        sites, _ = X.extract(B.SRC)
        for s in sites:
            _TABLE.setdefault(s['func'], []).append(s)
    return _TABLE


def from_wire(case, raw):
    if case['kind'] == 'ops':
        # raw = [answers of the program regenerated from the source, answers of the reference model]
        if isinstance(raw, list) and len(raw) == 2 and isinstance(raw[0], list) and isinstance(raw[1], list):
            if raw[0] != raw[1]:      # cannot happen while C20_generated_run_is_model holds: show both, so the case is kept
                return {'model': ['regenerated', raw[0], 'reference-model', raw[1]], 'spec': ['reference-model', raw[1]]}
            return {'model': raw[0], 'spec': ['reference-model', raw[1]]}
        return {'model': ['MODEL', raw], 'spec': None}
    if case['kind'] == 'tables':
        return {'model': ['documented-but-not-recorded', sorted(raw[2])], 'spec': ['documented-but-not-recorded', []]}
    if case['kind'] == 'viewrels':
        return {'model': None, 'spec': _viewrels_spec(case)}
    if case['kind'] == 'multi':
        return {'model': None, 'spec': [[k, k, 1] for k in range(len(case['order']))]}
    if case['kind'] == 'nest':
        return {'model': raw, 'spec': None}
    if case['kind'] == 'program':
        if raw == [['bad']] or len(raw) != 2 or raw[1] in (['K'], ['V']):
            return {'model': ['MODEL', raw], 'spec': None}
        ents = sorted([e[0], e[1], e[2], 1] for e in raw[1])
        out = 1 if raw[0] == 1 else 0 if raw[0] == 0 else raw[0]
        return {'model': [out, ents], 'spec': [out, ents]}
    return {'model': None, 'spec': raw}


def equiv(case, obs, model):
    return case['kind'] in ('directive', 'viewrels', 'pair', 'multi', 'failing')      # the directive stream is judged by spec_holds against the table


def run_impl(case):
    if not _impl:
        setup('quick')
    if case['kind'] == 'ops':
        return _run_ops(case['ops'])
    if case['kind'] == 'program':
        return _run_program(case)
    if case['kind'] == 'viewrels':
        return _run_viewrels(case)
    if case['kind'] == 'pair':
        return _run_pair(case)
    if case['kind'] == 'multi':
        return _run_multi(case)
    if case['kind'] == 'failing':
        return _run_failing(case)
    if case['kind'] == 'nest':
        return _run_nest(case)
    if case['kind'] == 'tables':
        import harness.common.build as B
        doc = X.documented(os.path.dirname(B.SRC))
        rec = set()
        for sites in _table().values():
            for s in sites:
                for k in s['keys']:
                    rec.add((s['category'], k['key']))
        return ['documented-but-not-recorded', sorted([c, k] for c, ks in doc.items() for k in ks if (c, k) not in rec)]
    return _run_directive(case)


def spec_holds(case, obs, spec):
    """directive stream: every recorded key that the regenerated table attributes to an argument really carries
    that argument, and every key named like a directive argument carries that argument (the property)."""
    if case['kind'] == 'ops':
        a, b = _ops_spec(case, obs), _ops_map_spec(case, obs)
        if a is False or b is False:
            return False
        return True if (a or b) else None
    if case['kind'] == 'pair':
        if not (isinstance(obs, list) and len(obs) in (3, 5)):
            return False
        if obs[0] != 0:
            return None             # the two statements conflict: the property says nothing
        if len(obs) == 5:
            # the statements in effect (probed) are exactly the ones that have an entry of their own; nothing else is recorded
            eff = obs[3]
            return obs[1] == sum(1 for x in eff if x) and obs[4] == eff and (obs[2] == 2 if all(eff) else True) and any(eff)
        return obs[1] >= 2 and obs[2] == 2      # both took effect: an entry of its own for each
    if case['kind'] == 'failing':
        if not (isinstance(obs, list) and len(obs) == 2):
            return False
        if not obs[0]:
            return None             # the statement went through: not the situation this stream is about
        return obs[1] == []         # it failed while being carried out: it did not take effect and has no entry
    if case['kind'] == 'nest':
        # the property's clause, stated without the model: every entry points at the statement that produced it
        if not (isinstance(obs, list) and len(obs) == 2 and isinstance(obs[0], list) and len(obs[0]) == len(case['calls'])):
            return False
        for call_, o in zip(case['calls'], obs[0]):
            own = 1 if call_['given'] is None else 10 + call_['given']
            if any(x != own for x in o):
                return False
        return obs[1] == 0
    if case['kind'] in ('tables', 'program', 'viewrels', 'multi'):
        return obs == spec
    return _directive_spec(case, obs)


def _directive_spec(case, obs, waive=None, waive_missing=None):
    """waive = (category, key, accept(srcs)): that one row is not judged when accept says it shows exactly the named deviation"""
    if obs and obs[0] == 'HARNESS-EXC':
        return False
    func, rows = obs
    sites = _table().get(func, [])
    params = set()
    for s in sites:
        params.update(s['params'])
    _, build = scenarios()[case['name']]
    _, args = build(case['variant'])
    want = EXPECT_CATEGORY.get(case['name'])
    if want is not None and not any(r[0] == want for r in rows):
        return False            # the statement took effect but left no entry in its documented category
    # the keys of an entry: what the directive's own site stores (regenerated table), and what the documentation promises
    import harness.common.build as B
    try:
        doc = _DOC[0] if _DOC else _DOC.append(X.documented(os.path.dirname(B.SRC))) or _DOC[0]
    except OSError:
        doc = {}
    for cn in sorted({r[0] for r in rows}):
        site = [s_ for s_ in sites if s_['category'] == cn]
        if not site:
            continue
        have = {r[1] for r in rows if r[0] == cn and r[1] != '@action_info'}
        if not any(s_['updates'] for s_ in site):
            known = {kk['key'] for s_ in site for kk in s_['keys']}
            if not have <= known:
                return False        # the entry holds a key that no store of this directive's site puts there
        missing = set(doc.get(cn, [])) - have if cn == want else set()
        if waive_missing is not None and cn == waive_missing[0]:
            missing -= {waive_missing[1]}
        if missing:
            return False            # a key the documentation promises for this category is missing from the entry
    for row in rows:
        cn, k, srcs = row[0], row[1], row[2]
        bval = row[3] if len(row) > 3 else ''
        if k == '@action_info':
            if srcs != ['statement']:
                return False
            continue
        if waive is not None and (cn, k) == waive[:2] and waive[2](srcs):
            continue
        exp = DOC_EXPECT.get((case['name'], k))
        exp = exp(args) if (exp is not None and cn == want) else None
        if exp is not None:
            if exp[0] == 'bool' and bval != ('T' if exp[1] else 'F'):
                return False        # documented normalisation of a flag: the entry must hold exactly that boolean
            continue
        site = [s for s in sites if s['category'] == cn]
        if not site:
            continue            # an entry built by another directive this one calls (judged in that directive's scenario)
        forms = [kk['form'] for s in site for kk in s['keys'] if kk['key'] == k]
        for f in forms:
            if f[0] in ('arg', 'norm') and f[-1] in args and args[f[-1]] is not None and f[-1] not in srcs \
                    and 'expr' not in f[1].split('+') and not f[1].startswith('local:'):
                return False        # table says "records argument p" but the recorded value is not p
        if k in args and args[k] is not None and cn != 'templates':
            if k not in srcs:
                return False        # property: key named like an argument does not carry that argument
    return True


def _ops_spec(case, obs):
    """Property clause "relations link the right pairs", judged on the sequences it speaks about: only
    registrations with added relations (as directives make them) and reads; every key is registered by objects
    of equal content (the same statement re-executed, or two statements emitting the same entry, e.g. the
    `permissions` entry of two views naming one permission).  Then related(x), as a set of keys, must be exactly
    the keys linked to key(x) by a relation declared by ANY registration so far, in either direction."""
    ops = case['ops']
    if not ops or any(o[0] not in ('register', 'related', 'get', 'category', 'categories') for o in ops):
        return None
    content = {}
    links = set()
    registered = set()
    if not isinstance(obs, list) or len(obs) != len(ops):
        return False
    for o, r in zip(ops, obs):
        if o[0] == 'register':
            key = (o[1][0], o[1][1])
            if content.setdefault(key, o[1][2]) != o[1][2]:
                return None                       # different content under one key: an override, not judged here
            if any(not rel[0] for rel in o[2]):
                return None
            for rel in o[2]:
                if (rel[1], rel[2]) not in registered | {key}:
                    return None                   # target missing: KeyError territory, correspondence only
            registered.add(key)
            for rel in o[2]:
                t = (rel[1], rel[2])
                if t != key:
                    links.add((key, t))
                    links.add((t, key))
            if r != []:
                return False
        elif o[0] == 'related':
            key = (o[1][0], o[1][1])
            if key not in registered:
                continue
            if r in (['K'], ['V']):
                return False
            got = {(POOL[i][0], POOL[i][1]) for i in r}
            want = {b for (a, b) in links if a == key}
            if got != want:
                return False
    return True


def _ops_map_spec(case, obs):
    """Property clauses "the introspector reports what was registered" on arbitrary op sequences (Coq: get_after_add,
    recorded_entry_is_latest, remove_erases, reachable_invariants): the entries form a map from (category,
    discriminator) to the object registered LAST under that key and not removed since; get reads it, get_category
    lists exactly the current entries of the category, in ascending order of registration; add never raises; a remove
    that returns normally erases the entry (after a remove that raised part-way the key is not judged any more)."""
    ops = case['ops']
    if not isinstance(obs, list) or len(obs) != len(ops):
        return False
    cur, judged = {}, False
    for o, r in zip(ops, obs):
        k = o[0]
        if k in ('add', 'register'):
            cur[(o[1][0], o[1][1])] = o[1][3]
            if k == 'add' and r != []:
                return False
        elif k == 'remove':
            if r == []:
                cur.pop((o[1], o[2]), None)
            else:
                cur[(o[1], o[2])] = '?'
        elif k == 'get':
            want = cur.get((o[1], o[2]))
            if want == '?':
                continue
            judged = True
            if r != ([] if want is None else [want]):
                return False
        elif k == 'category':
            if r == [] or r in (['K'], ['V']):
                continue
            want = [v for (c, d), v in cur.items() if c == o[1]]
            if '?' in want or not (isinstance(r, list) and len(r) == 1 and isinstance(r[0], list)):
                continue
            judged = True
            rows = r[0]
            if sorted(x[0] for x in rows) != sorted(want):
                return False
            if any(rows[i][1] >= rows[i + 1][1] for i in range(len(rows) - 1)):
                return False
    return True if judged else None


# known findings that are a deviation of exactly ONE key of ONE directive's entry: id -> (scenario, category, key,
# accept(case, srcs) = the row shows exactly that deviation)
SINGLE_KEY_FINDINGS = {
    'C20-csrf-safe-methods-iterator-consumed': (
        'set_default_csrf_options', 'default csrf view options', 'safe_methods',
        lambda case, srcs: bool(case.get('iter')) and srcs == []),
    'C20-translation-dirs-spec-trailing-slash': (
        'add_translation_dirs', 'translation directories', 'spec', lambda case, srcs: 'spec+/' in srcs),
    'C20-static-view-name-trailing-slash': (
        'add_static_view', 'static views', 'name', lambda case, srcs: srcs == ['name+/']),
}


# known findings that are exactly ONE documented key missing from ONE directive's entry
MISSING_KEY_FINDINGS = {
    'C20-root-factory-route-name-missing': ('set_root_factory', 'root factories', 'route_name'),
}


def classify(case, obs, spec):
    try:
        if case['kind'] == 'pair' and isinstance(obs, list) and len(obs) == 3 and obs[0] == 0:
            # both statements in effect, ONE entry for the two
            if case['name'] == 'add_subscriber' and obs == [0, 1, 1]:
                return 'C20-subscriber-entries-collide'
            if case['name'] == 'add_cache_buster' and obs == [0, 1, 1]:
                return 'C20-cache-buster-entries-collide'
            if case['name'] == 'add_static_view' and obs[1] == 1:
                return 'C20-static-view-entries-collide-across-route-prefixes'
        if case['kind'] == 'directive' and isinstance(obs, list) and len(obs) == 2 and isinstance(obs[1], list):
            for fid, (scen, cn, key) in MISSING_KEY_FINDINGS.items():
                if case['name'] == scen and not any(r[0] == cn and r[1] == key for r in obs[1]) \
                        and _directive_spec(case, obs, None, (cn, key)) is True:
                    return fid
            for fid, (scen, cn, key, accept) in SINGLE_KEY_FINDINGS.items():
                if case['name'] == scen and any(r[0] == cn and r[1] == key and accept(case, r[2]) for r in obs[1]) \
                        and _directive_spec(case, obs, (cn, key, lambda srcs, a=accept, c=case: a(c, srcs))) is True:
                    return fid
    except Exception:
        return None
    return None


def nontrivial(case, obs):
    if case['kind'] == 'tables':
        return True
    if case['kind'] == 'viewrels':
        return len(case['views']) >= 2
    if case['kind'] == 'program':
        return len(case['nodes']) > 1 and len(case['stmts']) >= 2
    if case['kind'] == 'pair':
        return isinstance(obs, list) and len(obs) in (3, 5) and obs[0] == 0
    if case['kind'] == 'multi':
        return len(case['order']) >= 2
    if case['kind'] == 'failing':
        return isinstance(obs, list) and len(obs) == 2 and obs[0] is True
    if case['kind'] == 'nest':
        return any(it[0] == 'sub' for call_ in case['calls'] for it in call_['body'])
    if case['kind'] == 'directive':
        return isinstance(obs, list) and len(obs) == 2 and sum(1 for r in obs[1] if r[2]) >= 2
    kinds_ = {o[0] for o in case['ops']}
    return bool(kinds_ & {'relate', 'register'}) and bool(kinds_ & {'related', 'category', 'get'})


def kinds(case, obs):
    if case['kind'] == 'tables':
        return ['tables']
    if case['kind'] == 'viewrels':
        return ['viewrels', 'viewrels:%d-views' % len(case['views'])] + (['viewrels:shared-permission'] if len({v['perm'] for v in case['views'] if v['perm'] is not None}) < sum(1 for v in case['views'] if v['perm'] is not None) else [])
    if case['kind'] == 'program':
        out = ['program', 'program:introspection-%s' % ('on' if case['introspection'] else 'off'),
               'program:nodes-%d' % len(case['nodes'])]
        if any(st.get('via_pkg') for st in case['stmts']):
            out.append('program:with_package-child')
        if any(it == ['fail'] for items in case['nodes'] for it in items):
            out.append('program:failing-directive')
        if isinstance(obs, list) and len(obs) == 2 and isinstance(obs[1], list):
            out.append('program:conflict' if obs[0] == 1 else 'program:done')
            executed = {e[2] for e in obs[1]}
            if obs[0] == 0 and case['introspection'] and len(executed) < len(case['stmts']):
                out.append('program:some-statement-overridden')
        return out
    if case['kind'] == 'nest':
        def walk(call_):
            yield call_
            for it in call_['body']:
                if it[0] == 'sub':
                    yield from walk(it[1])
        alls = [x for call_ in case['calls'] for x in walk(call_)]
        return ['nest', 'nest:%d-statements' % len(case['calls'])] + (['nest:failing-call'] if any(x['fails'] for x in alls) else []) \
            + (['nest:explicit-_info'] if any(x['given'] is not None for x in alls) else []) \
            + (['nest:uncaught-failure'] if any(it[0] == 'sub' and not it[2] and it[1]['fails'] for x in alls for it in x['body']) else [])
    if case['kind'] == 'failing':
        return ['failing', 'failing:%s:%s' % (case['name'], 'autocommit' if case['autocommit'] else 'commit')]
    if case['kind'] == 'multi':
        return ['multi', 'multi:%s:%d-values' % (case['name'], len(case['order']))]
    if case['kind'] == 'pair':
        return ['pair', 'pair:' + case['name'] + (':conflict' if isinstance(obs, list) and obs and obs[0] == 1 else '')]
    if case['kind'] == 'directive':
        return ['directive', 'directive:' + case['name']] + (['directive:iterator-argument'] if case.get('iter') else []) \
            + (['directive:layered-helper-%d' % case['layers']] if case.get('layers') else []) \
            + (['directive:executed-configuration-text'] if case.get('execd') else []) \
            + (['directive:legacy-alias'] if case.get('alias') else [])
    out = ['ops', 'ops-len-%d' % len(case['ops'])]
    for o, r in zip(case['ops'], obs if isinstance(obs, list) else []):
        out.append('op:' + o[0] + (':KeyError' if r == ['K'] else ':ValueError' if r == ['V'] else ''))
    return sorted(set(out))


def describe(case):
    return case
