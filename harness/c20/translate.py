"""C20 translator: Python ast of registry.Introspector.{add,get,get_category,categories,remove,_get_intrs_by_pairs,
relate,unrelate,related}, registry.Introspectable.{relate,unrelate,register}, the registration step of
ActionState.execute_actions and the introspection filter of ActionConfiguratorMixin.action()
-> Gallina definitions gen_* , re-run on every check (prop.facts) and emitted into coq/Gen/Facts_C20.v.

Fail-closed: a statement outside the SUBSET, an expression outside the PRIMITIVE TABLE, a typing surprise, an
unexpected class member -> Problem; the caller records it as a broken tie and emits the stored fallback text
(harness/c20/gen_fallback.json = the translation of the text the hand-written model was written against) so that
the Coq development still builds and the violation search has a model.

=== STATE AND EXCEPTIONS =================================================================================
  An Introspector is the record st = (cats, refs, counter) of Model/C20_base.v.  Every translated method is
      gen_f (s : st) args : st * res T          res T = Ok v | Err KeyError | Err ValueError
  The three fields are threaded as the current terms of `self._categories`, `self._refs`, `self._counter`.
  MUTATION IS WRITE-THROUGH: a local name bound to an inner container (`category = self._categories.setdefault(..)`,
  `L = self._refs.setdefault(x, [])`, `L2 = self._refs[d]`, `L = self._refs.get(x, [])`) is an ALIAS = the path
  (field, key) -- never a copy; a read recomputes the value from the current field, a mutation through the alias
  (`category[k] = v`, `del category[k]`, `L.append(y)`, `L.remove(y)`) immediately replaces the current term of the
  field.  Hence at a `raise` (explicit, or the KeyError / ValueError of a table primitive) the state returned is
  exactly the state after all mutations executed so far: (mkSt cats refs counter, Err e) -- the partial state.
  An alias from `.get(k, [])` may denote a fresh temporary: its mutation is `match refs_get k refs with
  Some _ => refs_set k v' refs | None => refs end` (a mutated temporary is lost, as in Python).

=== CONTROL FLOW (mechanical, continuation-passing) ======================================================
  block s1; s2; ...      the translation of s1 receives the translation of the rest as its continuation
  for T in E: B ; rest   (fix loopN (lN : list elem) (sN : st) (c_v.. : carried) {struct lN} : ret :=
                            match lN with [] => <rest> | x :: tN => <B> end) E <state> v..
                         carried = the state + the locals assigned in B that are bound at loop entry
     continue / end of B recursive call on tN with the current state and carried values; break = <rest>;
     return e = (state, Ok e); raise = (state, Err e)
  if c: A else: B ; rest decision tree over the ATOMS of c (and / or / not split; each branch followed by its own
                         copy of <rest>; repeated tests resolved; equal branches merged)
  if v is None: A else: B   (v an optional value)   match v with None => <A;rest> | Some b => <B;rest, v := b> end
  v = e                  substitution (no let is emitted)
  v = self.m(args) / self.m(args)   match gen_m <state> args with (s', Ok v') => <rest> | (s', Err e) => (s', Err e) end
  return [E for v in X]  desugared into acc = []; for v in X: acc.append(E); return acc (calls inside E are bound first)
  a, b = pair / a, b = e1, e2 / for a, b in ..    projections

=== PRIMITIVE TABLE (trusted: each line is a claim about Python / Pyramid semantics) ======================
  self._categories.setdefault(c, {})      cats := assoc_setdefault c [] cats ; alias (cats, c), exists
  self._categories.get(c)                 option: assoc c cats ; after `is None` test: alias (cats, c), exists
  self._categories.get(c, {})             read-only alias (cats, c)           (value cat_at cats c)
  self._categories[c]                     match assoc c cats with None => KeyError | Some _ => alias (cats, c)
  <cat alias> value                       cat_at cats c
  A.get(d) / A.get(d, None)               entry_get d (cat_at cats c)         : option intr
  A[X.discriminator] = X ; X.order = E    cats := assoc_set c (assoc_set (idisc X) (X, E) (cat_at cats c)) cats
                                          (the order attribute lives in the entry; the store waits for the order
                                          assignment; anything that reads the state in between is a Problem)
  A[X.discriminator_hash] = X             no effect (second key not modelled; needs the discriminator store beside it)
  del A[X.discriminator]                  match assoc (idisc X) (cat_at cats c) with None => KeyError
                                          | Some _ => cats := assoc_set c (assoc_del (idisc X) (cat_at cats c)) cats
  del A[X.discriminator_hash]             no effect (needs the discriminator del beside it)
  A.values()                              map snd (cat_at cats c)            : list (intr * N)
  sorted(set(V), key=operator.attrgetter('order'))     sort_by_order V
  sorted(self._categories.keys())         sorted_texts (map fst cats)
  self._refs.setdefault(x, [])            refs := refs_setdefault x [] refs ; alias (refs, x), exists
  self._refs[x]                           match refs_get x refs with None => KeyError | Some _ => alias (refs, x)
  self._refs.get(x, [])                   maybe-temporary alias (refs, x)     (value refs_at refs x)
  self._refs.pop(x, [])                   value refs_at refs x (owned) ; refs := refs_del x refs
  L.append(y)                             refs := refs_set x (refs_at refs x ++ [y]) refs   (local list: l ++ [y])
  L.remove(y)                             match remove_first y (refs_at refs x) with None => ValueError
                                          | Some l' => refs := refs_set x l' refs
  y in L / y not in L                     mem_intr y (value of L) / negated
  x is y / x is not y                     same_obj x y / negated              (introspectables)
  v is None / v is not None               option match (optional values) / constant (parameters fixed to None)
  self._counter ; self._counter += 1      counter ; counter := counter + 1
  X.category_name X.discriminator         icat X, idisc X
  ((x, y) for x in A for y in B)          pairs_of A B
  {'introspectable': v, 'related': r}     (v, r)
  raise KeyError(..) / ValueError(..)     (state, Err KeyError) / (state, Err ValueError)   (argument not modelled)
  undefer(e)                              e   (modelled discriminators are resolved texts; undefer is pinned)
  self.discriminator = undefer(self.discriminator) ; self.action_info = action_info      no effect
  self._relations.append((True, c, d))    rels := rels ++ [mk_relop true c d]      (Introspectable)
  for flag, c, d in self._relations       rel_flag r, rel_cat r, rel_disc r
  method = introspector.relate / .unrelate ; method(p, q)     gen_relate / gen_unrelate <state> [p; q]
  X.register(introspector, info)          gen_register <state> (fst X) (snd X)     (X an (object, relations) pair)
  introspector is not None                has_introspector : bool
  not self.introspection                  negb introspection
  ()                                      []
  parameters with default None that the model never passes (get.default, get_category.default/sort_key): None
"""
import ast
import hashlib
import json
import os

HERE = os.path.dirname(os.path.abspath(__file__))
FALLBACK = os.path.join(HERE, 'gen_fallback.json')


class Problem(Exception):
    pass


def u(node):
    try:
        return ast.unparse(node)
    except Exception:
        return '<%s>' % type(node).__name__


# ---- types
(TEXT, INTR, OINTR, EOBJ, PAIR, PAIRS, INTRS, IPAIR, IPAIRS, ELIST, TEXTS, BOOL, NONE, UNIT, ERASED, NAT,
 CATALIAS, CATRO, OCAT, REFALIAS, REFTEMP, RELOP, RELS, ITEM, ITEMS, METHOD, HANDLE, OHANDLE, IOBJ, ROW, ROWS,
 NEWLIST, SORTKEY, EMPTY, OROWS, OTEXT) = (
    'text', 'intr', 'option intr', 'intr * N', 'text * text', 'list (text * text)', 'list intr', 'intr * intr',
    'list (intr * intr)', 'list (intr * N)', 'list text', 'bool', 'None', 'unit', 'erased', 'N',
    'cat-alias', 'cat-alias(read-only)', 'option cat-alias', 'ref-alias', 'ref-alias(maybe temporary)', 'relop',
    'list relop', 'intr * list relop', 'list (intr * list relop)', 'method', 'introspector', 'optional introspector',
    'introspectable', '(intr * N) * list intr', 'list ((intr * N) * list intr)', 'new list', 'sort key', '()',
    'option (list ((intr * N) * list intr))', 'option text')
ELEM = {PAIRS: PAIR, INTRS: INTR, IPAIRS: IPAIR, ELIST: EOBJ, RELS: RELOP, ITEMS: ITEM, ROWS: ROW}
LISTOF = {v: k for k, v in ELEM.items()}


# ---- Gallina terms
class Term:
    pass


class V(Term):
    def __init__(self, name):
        self.name = name

    def key(self):
        return ('V', self.name)


class K(Term):
    def __init__(self, text):
        self.text = text

    def key(self):
        return ('K', self.text)


class A(Term):
    def __init__(self, fn, args):
        self.fn, self.args = fn, list(args)

    def key(self):
        return ('A', self.fn) + tuple(a.key() for a in self.args)


class Pair(Term):
    def __init__(self, a, b):
        self.a, self.b = a, b

    def key(self):
        return ('Pair', self.a.key(), self.b.key())


class App(Term):
    """l ++ [x]"""

    def __init__(self, l, x):
        self.l, self.x = l, x

    def key(self):
        return ('App', self.l.key(), self.x.key())


class If(Term):
    def __init__(self, atom, t, e):
        self.atom, self.t, self.e = atom, t, e

    def key(self):
        return ('If', self.atom.key(), self.t.key(), self.e.key())


class MOpt(Term):
    def __init__(self, scrut, none, var, some):
        self.scrut, self.none, self.var, self.some = scrut, none, var, some

    def key(self):
        return ('MOpt', self.scrut.key(), self.none.key(), self.var, self.some.key())


class MCall(Term):
    """match call with (s', Ok v) => body | (s', Err e) => (s', Err e) end"""

    def __init__(self, call, s, v, body):
        self.call, self.s, self.v, self.body = call, s, v, body

    def key(self):
        return ('MCall', self.call.key(), self.s, self.v, self.body.key())


class Loop:
    def __init__(self, n, elem_ty, ret):
        self.n = n
        self.f, self.l, self.t, self.s = 'loop%d' % n, 'l%d' % n, 't%d' % n, 'st%d' % n
        self.elem_ty, self.ret = elem_ty, ret
        self.x = None
        self.carried = []        # [(python name, binder, type)]
        self.stateful = True


class Fix(Term):
    def __init__(self, loop, nil, cons, it, init):
        self.loop, self.nil, self.cons, self.it, self.init = loop, nil, cons, it, list(init)

    def key(self):
        return ('Fix', self.loop.n, self.nil.key(), self.cons.key(), self.it.key()) + tuple(a.key() for a in self.init)


class Jump(Term):
    def __init__(self, loop, args):
        self.loop, self.args = loop, list(args)

    def key(self):
        return ('Jump', self.loop.n) + tuple(a.key() for a in self.args)


# ---- conditions (as in the C11 translator)
def b_atom(t):
    return ('atom', t)


def b_not(b):
    return ('not', b)


def mk_if(b, t, e):
    k = b[0]
    if k == 'const':
        return t if b[1] else e
    if k == 'atom':
        return t if t.key() == e.key() else If(b[1], t, e)
    if k == 'not':
        return mk_if(b[1], e, t)
    if k == 'and':
        return t if not b[1] else mk_if(b[1][0], mk_if(('and', b[1][1:]), t, e), e)
    if k == 'or':
        return e if not b[1] else mk_if(b[1][0], t, mk_if(('or', b[1][1:]), t, e))
    raise Problem('internal: condition %r' % (b,))


def b_term(b):
    k = b[0]
    if k == 'const':
        return K('true' if b[1] else 'false')
    if k == 'atom':
        return b[1]
    if k == 'not':
        return A('negb', [b_term(b[1])])
    ts = [b_term(x) for x in b[1]]
    out = ts[-1]
    for t in reversed(ts[:-1]):
        out = A('andb' if k == 'and' else 'orb', [t, out])
    return out


def _with(d, k, v):
    d = dict(d)
    d[k] = v
    return d


def simplify(t, known):
    if isinstance(t, If):
        ak = t.atom.key()
        if ak in known:
            return simplify(t.t if known[ak] else t.e, known)
        a = simplify(t.t, _with(known, ak, True))
        b = simplify(t.e, _with(known, ak, False))
        return a if a.key() == b.key() else If(t.atom, a, b)
    if isinstance(t, MOpt):
        return MOpt(t.scrut, simplify(t.none, known), t.var, simplify(t.some, known))
    if isinstance(t, MCall):
        return MCall(t.call, t.s, t.v, simplify(t.body, {}))
    if isinstance(t, Fix):
        return Fix(t.loop, simplify(t.nil, {}), simplify(t.cons, {}), t.it, t.init)
    return t


# ---- rendering
def render(t, ind):
    sp = ' ' * ind
    if isinstance(t, V):
        return t.name
    if isinstance(t, K):
        return t.text
    if isinstance(t, A):
        return '%s %s' % (t.fn, ' '.join(paren(a, ind) for a in t.args))
    if isinstance(t, Pair):
        return '(%s, %s)' % (render(t.a, ind), render(t.b, ind))
    if isinstance(t, App):
        return '%s ++ [%s]' % (paren(t.l, ind), render(t.x, ind))
    if isinstance(t, Jump):
        lp = t.loop
        return '%s %s' % (lp.f, ' '.join([lp.t] + [paren(a, ind) for a in t.args]))
    if isinstance(t, If):
        return 'if %s\n%sthen%s\n%selse%s' % (render(t.atom, ind), sp, render_in(t.t, ind + 2), sp, render_in(t.e, ind + 2))
    if isinstance(t, MOpt):
        return 'match %s with\n%s| None =>%s\n%s| Some %s =>%s\n%send' % (
            render(t.scrut, ind), sp, render_in(t.none, ind + 4), sp, t.var, render_in(t.some, ind + 4), sp)
    if isinstance(t, MCall):
        return 'match %s with\n%s| (%s, Ok %s) =>%s\n%s| (%s, Err e_%s) => (%s, Err e_%s)\n%send' % (
            render(t.call, ind), sp, t.s, t.v, render_in(t.body, ind + 4), sp, t.s, t.s, t.s, t.s, sp)
    if isinstance(t, Fix):
        lp = t.loop
        bind = '(%s : list (%s))' % (lp.l, lp.elem_ty)
        if lp.stateful:
            bind += ' (%s : st)' % lp.s
        for _, b, ty in lp.carried:
            bind += ' (%s : %s)' % (b, '_' if ty == NEWLIST else ty)
        args = [paren(t.it, ind)] + [paren(a, ind) for a in t.init]
        return '(fix %s %s {struct %s} : %s :=\n%s   match %s with\n%s   | [] =>%s\n%s   | %s :: %s =>%s\n%s   end) %s' % (
            lp.f, bind, lp.l, lp.ret, sp, lp.l, sp, render_in(t.nil, ind + 6), sp, lp.x, lp.t,
            render_in(t.cons, ind + 6), sp, ' '.join(args))
    raise Problem('internal: cannot render %r' % (t,))


def render_in(t, ind):
    s = render(t, ind)
    if isinstance(t, (If, MOpt, Fix, MCall)):
        return '\n' + ' ' * ind + s
    return ' ' + s


def paren(t, ind):
    s = render(t, ind)
    if isinstance(t, Pair) or (isinstance(t, (V, K)) and ' ' not in s):
        return s
    return '(' + s + ')'


class Lst(Term):
    def __init__(self, items):
        self.items = list(items)

    def key(self):
        return ('Lst',) + tuple(a.key() for a in self.items)


_render0 = render


def render(t, ind):                                       # noqa: F811  (adds list literals)
    if isinstance(t, Lst):
        return '[%s]' % '; '.join(_render0(a, ind) if not isinstance(a, Lst) else render(a, ind) for a in t.items)
    return _render0(t, ind)


_paren0 = paren


def paren(t, ind):                                        # noqa: F811
    if isinstance(t, Lst):
        return render(t, ind)
    return _paren0(t, ind)


CONFIG = 'configurator'

# methods of the introspector that translated code may call: name -> (generated function, argument types, result type)
METHODS = {
    'add': ('gen_add', [INTR], UNIT),
    'get': ('gen_get', [TEXT, TEXT], OINTR),
    'related': ('gen_related', [INTR], INTRS),
    'get_category': ('gen_get_category', [TEXT], OROWS),
    'categories': ('gen_categories', [], TEXTS),
    '_get_intrs_by_pairs': ('gen_intrs_by_pairs', [PAIRS], INTRS),
    'relate': ('gen_relate', '*pairs', UNIT),
    'unrelate': ('gen_unrelate', '*pairs', UNIT),
    'remove': ('gen_remove', [TEXT, TEXT], UNIT),
}

S0 = 's'
P_SELF = (None, HANDLE)

FUNCS = [
    dict(qual='Introspector.add', gen='gen_add', kind='state', ret='unit',
         params=[P_SELF, (V('i'), INTR)], sig='(s : st) (i : intr)'),
    dict(qual='Introspector.get', gen='gen_get', kind='state', ret='option intr',
         params=[P_SELF, (V('c'), TEXT), (V('d'), TEXT), (K('None'), NONE)], defaults={3: None},
         sig='(s : st) (c d : text)'),
    dict(qual='Introspector.related', gen='gen_related', kind='state', ret='list intr',
         params=[P_SELF, (V('i'), INTR)], sig='(s : st) (i : intr)'),
    dict(qual='Introspector.get_category', gen='gen_get_category', kind='state',
         ret='option (list ((intr * N) * list intr))', ret_wrap=True,
         params=[P_SELF, (V('c'), TEXT), (K('None'), NONE), (K('None'), NONE)], defaults={2: None, 3: None},
         sig='(s : st) (c : text)'),
    dict(qual='Introspector.categories', gen='gen_categories', kind='state', ret='list text',
         params=[P_SELF], sig='(s : st)'),
    dict(qual='Introspector._get_intrs_by_pairs', gen='gen_intrs_by_pairs', kind='state', ret='list intr',
         params=[P_SELF, (V('ps'), PAIRS)], sig='(s : st) (ps : list (text * text))'),
    dict(qual='Introspector.relate', gen='gen_relate', kind='state', ret='unit',
         params=[P_SELF], vararg=(V('ps'), PAIRS), sig='(s : st) (ps : list (text * text))'),
    dict(qual='Introspector.unrelate', gen='gen_unrelate', kind='state', ret='unit',
         params=[P_SELF], vararg=(V('ps'), PAIRS), sig='(s : st) (ps : list (text * text))'),
    dict(qual='Introspector.remove', gen='gen_remove', kind='state', ret='unit',
         params=[P_SELF, (V('c'), TEXT), (V('d'), TEXT)], sig='(s : st) (c d : text)'),
    dict(qual='Introspectable.relate', gen='gen_intr_relate', kind='pure', ret='list relop', result='$rels',
         params=[(V('i'), IOBJ), (V('c'), TEXT), (V('d'), TEXT)], sig='(i : intr) (rs : list relop) (c d : text)'),
    dict(qual='Introspectable.unrelate', gen='gen_intr_unrelate', kind='pure', ret='list relop', result='$rels',
         params=[(V('i'), IOBJ), (V('c'), TEXT), (V('d'), TEXT)], sig='(i : intr) (rs : list relop) (c d : text)'),
    dict(qual='Introspectable.register', gen='gen_register', kind='state', ret='unit',
         params=[(V('i'), IOBJ), P_SELF, (None, ERASED)], sig='(s : st) (i : intr) (rs : list relop)'),
    dict(qual='ActionState.execute_actions', gen='gen_exec_register', kind='state', ret='unit', fragment='exec',
         free={'introspector': (b_atom(V('has_introspector')), OHANDLE), 'introspectables': (V('l'), ITEMS),
               'info': (None, ERASED)},
         sig='(has_introspector : bool) (s : st) (l : list (intr * list relop))'),
    dict(qual='ActionConfiguratorMixin.action', gen='gen_action_filter', kind='pure', ret='list (intr * list relop)',
         fragment='action', result='introspectables',
         free={'self': (None, CONFIG), 'introspectables': (V('l'), ITEMS)},
         sig='(introspection : bool) (l : list (intr * list relop))'),
]
# every source function whose control flow is regenerated on every run (for the two fragment functions the rest of the
# body is covered by the masked pins of pins_masked.json); read by tools/coverage_map.py
TRANSLATED = ['%s:%s' % ({'Introspector': 'pyramid/registry.py', 'Introspectable': 'pyramid/registry.py',
                          'ActionState': 'pyramid/config/actions.py',
                          'ActionConfiguratorMixin': 'pyramid/config/actions.py'}[f['qual'].split('.')[0]], f['qual'])
              for f in FUNCS]
FILE_OF = {'Introspector': 'pyramid/registry.py', 'Introspectable': 'pyramid/registry.py',
           'ActionState': 'pyramid/config/actions.py', 'ActionConfiguratorMixin': 'pyramid/config/actions.py'}
DEFAULT_BODY = {'state': '(s, Err KeyError)', 'pure': '[]'}
RESERVED = {'undefer', 'sorted', 'set', 'operator', 'KeyError', 'ValueError'}


def _ident(s):
    if not (s.isascii() and s.isidentifier()):
        raise Problem('identifier %r cannot be used as a binder name' % s)
    return s


class FnTranslator:
    def __init__(self, fn, spec, stmts=None):
        self.fn, self.spec = fn, spec
        self.stmts = stmts                 # fragment: the statements to translate instead of the whole body
        self.nloops = 0
        self.nbind = 0
        self.stateful = spec['kind'] == 'state'
        self.rty = ('st * res (%s)' % spec['ret']) if self.stateful else spec['ret']
        self.own = {}                      # local name -> created by [] in this function
        self.seen_type = {}                # local list name -> list type after its first append

    def fresh(self, p):
        self.nbind += 1
        return '%s%d' % (p, self.nbind)

    # ------------------------------------------------------------ state helpers
    @staticmethod
    def set_state_from(env, svar):
        env['$cats'] = (A('cats', [V(svar)]), 'cats')
        env['$refs'] = (A('refs', [V(svar)]), 'refs')
        env['$counter'] = (A('counter', [V(svar)]), NAT)

    @staticmethod
    def mk_state(env):
        c, r, n = env['$cats'][0], env['$refs'][0], env['$counter'][0]
        if all(isinstance(x, A) and len(x.args) == 1 and isinstance(x.args[0], V) for x in (c, r, n)) \
                and (c.fn, r.fn, n.fn) == ('cats', 'refs', 'counter') \
                and c.args[0].name == r.args[0].name == n.args[0].name:
            return V(c.args[0].name)
        return A('mkSt', [c, r, n])

    def nopending(self, env, what):
        if env.get('$pending') is not None:
            raise Problem('%s while the store of an entry still waits for its `.order = ..` assignment' % what)

    def need_state(self, what):
        if not self.stateful:
            raise Problem('%s in a function without introspector state' % what)

    def ret(self, env, term):
        self.nopending(env, 'return')
        if not self.stateful:
            raise Problem('return in a fragment / attribute-mutating function')
        return Pair(self.mk_state(env), A('Ok', [term]))

    def throw(self, env, exc):
        self.nopending(env, 'raise')
        self.need_state('raise')
        return Pair(self.mk_state(env), A('Err', [K(exc)]))

    def finish(self, env):
        """control reaches the end of the function / fragment"""
        self.nopending(env, 'end of function')
        if self.stateful:
            return Pair(self.mk_state(env), A('Ok', [K('tt')]))
        key = self.spec['result']
        if key not in env or env[key][0] is None:
            raise Problem('the result variable is unbound at the end')
        return env[key][0]

    # ------------------------------------------------------------ entry
    def translate(self):
        fn, spec = self.fn, self.spec
        if not isinstance(fn, ast.FunctionDef):
            raise Problem('not a plain def')
        env = {}
        for n in ast.walk(fn):
            if isinstance(n, ast.Name) and isinstance(n.ctx, (ast.Store, ast.Del)) and n.id in RESERVED:
                raise Problem('the name %s of the primitive table is rebound inside the function' % n.id)
            if isinstance(n, ast.arg) and n.arg in RESERVED:
                raise Problem('the name %s of the primitive table is a parameter' % n.arg)
        if self.stmts is None:
            if fn.decorator_list:
                raise Problem('decorated def')
            a = fn.args
            if a.kwarg or a.kwonlyargs or a.kw_defaults or getattr(a, 'posonlyargs', []):
                raise Problem('unexpected parameter list (**kwargs, keyword-only)')
            if len(a.args) != len(spec['params']):
                raise Problem('expected %d parameters, found %d' % (len(spec['params']), len(a.args)))
            ndef = len(a.defaults)
            want = spec.get('defaults', {})
            have = {}
            for k, dv in enumerate(a.defaults):
                have[len(a.args) - ndef + k] = dv
            if sorted(have) != sorted(want):
                raise Problem('parameters with defaults are at positions %s, expected %s' % (sorted(have), sorted(want)))
            for pos, dv in have.items():
                if not (isinstance(dv, ast.Constant) and dv.value is want[pos]):
                    raise Problem('default of parameter %d is %s, expected %r' % (pos, u(dv), want[pos]))
            for arg, (obj, ty) in zip(a.args, spec['params']):
                env[arg.arg] = (obj, ty)
            if (a.vararg is None) != (spec.get('vararg') is None):
                raise Problem('unexpected / missing *args')
            if a.vararg is not None:
                env[a.vararg.arg] = spec['vararg']
            body = list(fn.body)
        else:
            env.update(spec['free'])
            body = list(self.stmts)
        for st in body:
            for n in ast.walk(st):
                if isinstance(n, (ast.Global, ast.Nonlocal, ast.Lambda, ast.SetComp, ast.DictComp, ast.NamedExpr,
                                  ast.Await, ast.Yield, ast.YieldFrom, ast.While, ast.Try, ast.With,
                                  ast.FunctionDef, ast.AsyncFunctionDef, ast.ClassDef)):
                    raise Problem('construct outside the subset: %s' % type(n).__name__)
        if self.stateful:
            self.set_state_from(env, S0)
        if any(ty == IOBJ for _, ty in env.values()):
            env['$rels'] = (V('rs'), RELS)
        self.pair_check(body)
        t = self.block(body, env, self.finish, None)
        return simplify(t, {})

    def pair_check(self, body):
        """every store / del under X.discriminator_hash needs the same statement under X.discriminator beside it"""
        def scan(stmts):
            texts = []
            for st in stmts:
                for f in ('body', 'orelse'):
                    sub = getattr(st, f, None)
                    if isinstance(sub, list) and sub and isinstance(sub[0], ast.stmt):
                        scan(sub)
                if not hasattr(st, 'body'):
                    texts.append(u(st))
            for t in texts:
                if '.discriminator_hash]' in t and t.replace('.discriminator_hash]', '.discriminator]') not in texts:
                    raise Problem('`%s` without the same statement on .discriminator beside it (the second key is '
                                  'not modelled)' % t)
        scan(body)

    # ------------------------------------------------------------ statements
    def block(self, stmts, env, k, jumps):
        if not stmts:
            return k(env)
        s, rest = stmts[0], stmts[1:]

        def k_next(env2):
            return self.block(rest, env2, k, jumps)

        if isinstance(s, ast.Expr) and isinstance(s.value, ast.Constant) and isinstance(s.value.value, str):
            return k_next(env)
        if isinstance(s, ast.Pass):
            return k_next(env)
        if isinstance(s, ast.Return):
            return self.return_stmt(s, env, rest, k, jumps)
        if isinstance(s, ast.Raise):
            e = s.exc
            if s.cause is None and isinstance(e, ast.Call) and isinstance(e.func, ast.Name) \
                    and e.func.id in ('KeyError', 'ValueError') and e.func.id not in env:
                return self.throw(env, e.func.id)
            raise Problem('raise outside the table: %s' % u(s))
        if isinstance(s, ast.Continue):
            if jumps is None:
                raise Problem('continue outside a loop')
            return jumps[0](env)
        if isinstance(s, ast.Break):
            if jumps is None:
                raise Problem('break outside a loop')
            return jumps[1](env)
        if isinstance(s, ast.Assign):
            return self.assign(s, env, k_next)
        if isinstance(s, ast.AugAssign):
            if isinstance(s.op, ast.Add) and isinstance(s.value, ast.Constant) and s.value.value == 1 \
                    and type(s.value.value) is int and self.is_field(s.target, env, '_counter'):
                env = dict(env)
                env['$counter'] = (A('N.add', [env['$counter'][0], K('1%N')]), NAT)
                return k_next(env)
            raise Problem('augmented assignment outside the table: %s' % u(s))
        if isinstance(s, ast.Delete):
            return self.delete(s, env, k_next)
        if isinstance(s, ast.Expr):
            c = s.value
            if isinstance(c, ast.Call) and isinstance(c.func, ast.Attribute) and c.func.attr in ('append', 'remove') \
                    and isinstance(c.func.value, (ast.Subscript, ast.Call)):
                # <container expression>.append(..): name the receiver first (it is an alias, not a copy)
                tmp = self.fresh('tmp_recv')
                new = ast.parse('%s = %s\n%s.%s(%s)' % (tmp, u(c.func.value), tmp, c.func.attr,
                                                        ', '.join(u(a) for a in c.args))).body
                if c.keywords:
                    raise Problem('call with keywords: %s' % u(c))
                return self.block(new + list(rest), env, k, jumps)
            return self.call_stmt(s.value, env, k_next)
        if isinstance(s, ast.If):
            return self.if_stmt(s, env, k_next, jumps)
        if isinstance(s, ast.For):
            return self.for_loop(s, env, k_next)
        raise Problem('statement outside the subset: %s' % u(s).split('\n')[0])

    def return_stmt(self, s, env, rest, k, jumps):
        if s.value is None:
            return self.ret(env, K('tt'))
        v = s.value
        if isinstance(v, ast.ListComp):
            return self.block(self.desugar_comp(v), env, k, jumps)
        if isinstance(v, ast.Call) and self.handle_call(v, env) is not None:
            tmp = '_ret_tmp'
            new = ast.parse('%s = %s\nreturn %s' % (tmp, u(v), tmp)).body
            return self.block(new, env, k, jumps)
        obj, ty = self.expr(v, env)
        obj, ty = self.valof(obj, ty, env)
        if ty in (ERASED, METHOD, HANDLE, CONFIG) or obj is None:
            raise Problem('return of an unmodelled value: %s' % u(s))
        if self.spec.get('ret_wrap'):
            obj = K('None') if ty == NONE else A('Some', [obj])
        if ty == BOOL:
            obj = b_term(obj)
        return self.ret(env, obj)

    def desugar_comp(self, comp):
        if len(comp.generators) != 1 or comp.generators[0].ifs or comp.generators[0].is_async:
            raise Problem('list comprehension outside the subset: %s' % u(comp))
        g = comp.generators[0]
        used = {n.id for n in ast.walk(self.fn) if isinstance(n, ast.Name)}
        acc = 'acc_rows'
        if acc in used:
            raise Problem('name clash with the comprehension accumulator')
        pre, k = [], [0]
        tr = self

        class R(ast.NodeTransformer):
            def visit_Call(self, n):
                if tr.handle_call_shape(n):
                    k[0] += 1
                    nm = 'tmp_call%d' % k[0]
                    if nm in used:
                        raise Problem('name clash with a comprehension temporary')
                    pre.append('%s = %s' % (nm, u(n)))
                    return ast.Name(id=nm, ctx=ast.Load())
                return self.generic_visit(n)
        elt = R().visit(ast.parse(u(comp.elt), mode='eval').body)
        src = '%s = []\nfor %s in %s:\n' % (acc, u(g.target), u(g.iter))
        for p in pre:
            src += '    %s\n' % p
        src += '    %s.append(%s)\nreturn %s\n' % (acc, u(elt), acc)
        return ast.parse(src).body

    @staticmethod
    def handle_call_shape(n):
        return isinstance(n, ast.Call) and isinstance(n.func, ast.Attribute) and isinstance(n.func.value, ast.Name) \
            and n.func.attr in METHODS

    def handle_call(self, n, env):
        """(gen, arg terms, result type) when n is a call of a translated introspector method, else None"""
        if not self.handle_call_shape(n):
            return None
        recv = n.func.value.id
        if recv not in env or env[recv][1] != HANDLE:
            return None
        gen, atys, rty = METHODS[n.func.attr]
        if n.keywords or any(isinstance(a, ast.Starred) for a in n.args):
            raise Problem('call with keywords / star arguments: %s' % u(n))
        args = [self.expr(a, env) for a in n.args]
        if atys == '*pairs':
            for (o, ty), a in zip(args, n.args):
                if ty != PAIR:
                    raise Problem('%s: argument %s is a %s, expected a (category, discriminator) pair' % (u(n), u(a), ty))
            terms = [Lst([o for o, _ in args])]
        else:
            if len(args) != len(atys):
                raise Problem('%s: expected %d arguments' % (u(n), len(atys)))
            terms = []
            for (o, ty), want, a in zip(args, atys, n.args):
                terms.append(self.coerce(o, ty, want, env, u(n)))
        return gen, terms, rty

    def coerce(self, o, ty, want, env, where):
        if want == INTR and ty in (INTR, IOBJ):
            return o
        if want == INTR and ty == EOBJ:
            return A('fst', [o])
        if ty == want and o is not None:
            return o
        if want in ELEM:
            o2, ty2 = self.valof(o, ty, env)
            if ty2 == want:
                return o2
        raise Problem('%s: argument is a %s, expected a %s' % (where, ty, want))

    def bind(self, call, env, k):
        """k(env', (value term, type))"""
        gen, terms, rty = call
        self.nopending(env, 'a call')
        self.need_state('a call of an introspector method')
        self.nbind += 1
        s1, v1 = 'sc%d' % self.nbind, 'r%d' % self.nbind
        env2 = dict(env)
        self.set_state_from(env2, s1)
        body = k(env2, (V(v1), rty))
        return MCall(A(gen, [self.mk_state(env)] + terms), s1, v1, body)

    def is_field(self, n, env, attr):
        return isinstance(n, ast.Attribute) and n.attr == attr and isinstance(n.value, ast.Name) \
            and n.value.id in env and env[n.value.id][1] == HANDLE

    def is_empty(self, n, kind):
        if kind == 'dict':
            return isinstance(n, ast.Dict) and not n.keys
        return isinstance(n, ast.List) and not n.elts

    def effect(self, n, env, k):
        """statement-level evaluation of a right-hand side that may change the state or raise; k(env', (term, ty))"""
        if isinstance(n, ast.Call):
            hc = self.handle_call(n, env)
            if hc is not None:
                return self.bind(hc, env, k)
            f = n.func
            if isinstance(f, ast.Attribute) and not n.keywords:
                if f.attr == 'setdefault' and len(n.args) == 2:
                    if self.is_field(f.value, env, '_categories') and self.is_empty(n.args[1], 'dict'):
                        self.nopending(env, 'setdefault')
                        c = self.texpr(n.args[0], env, TEXT)
                        env = dict(env)
                        env['$cats'] = (A('assoc_setdefault', [c, K('[]'), env['$cats'][0]]), 'cats')
                        return k(env, (c, CATALIAS))
                    if self.is_field(f.value, env, '_refs') and self.is_empty(n.args[1], 'list'):
                        x = self.texpr(n.args[0], env, INTR)
                        env = dict(env)
                        env['$refs'] = (A('refs_setdefault', [x, K('[]'), env['$refs'][0]]), 'refs')
                        return k(env, (x, REFALIAS))
                    raise Problem('setdefault outside the table: %s' % u(n))
                if f.attr == 'pop' and len(n.args) == 2 and self.is_field(f.value, env, '_refs') \
                        and self.is_empty(n.args[1], 'list'):
                    x = self.texpr(n.args[0], env, INTR)
                    val = A('refs_at', [env['$refs'][0], x])
                    env = dict(env)
                    env['$refs'] = (A('refs_del', [x, env['$refs'][0]]), 'refs')
                    return k(env, (val, INTRS))
        if isinstance(n, ast.Subscript) and isinstance(n.ctx, ast.Load):
            if self.is_field(n.value, env, '_categories'):
                self.nopending(env, 'a read of the categories')
                c = self.texpr(n.slice, env, TEXT)
                return MOpt(A('assoc', [c, env['$cats'][0]]), self.throw(env, 'KeyError'), '_', k(env, (c, CATALIAS)))
            if self.is_field(n.value, env, '_refs'):
                x = self.texpr(n.slice, env, INTR)
                return MOpt(A('refs_get', [x, env['$refs'][0]]), self.throw(env, 'KeyError'), '_', k(env, (x, REFALIAS)))
        return k(env, self.expr(n, env))

    def assign(self, s, env, k_next):
        if len(s.targets) != 1:
            raise Problem('chained assignment: %s' % u(s))
        tg = s.targets[0]
        if isinstance(tg, ast.Name):
            def k(env2, val):
                obj, ty = val
                if ty == EMPTY:
                    old = env2.get(tg.id)
                    if old is None or old[1] not in ELEM:
                        raise Problem('() assigned to a name that is not a modelled sequence: %s' % u(s))
                    obj, ty = K('[]'), old[1]
                env3 = dict(env2)
                env3[tg.id] = (obj, ty)
                self.own[tg.id] = (ty == NEWLIST)
                return k_next(env3)
            return self.effect(s.value, env, k)
        if isinstance(tg, ast.Tuple) and all(isinstance(e, ast.Name) for e in tg.elts) \
                and len({e.id for e in tg.elts}) == len(tg.elts):
            names = [e.id for e in tg.elts]
            if isinstance(s.value, ast.Tuple) and len(s.value.elts) == len(names):
                vals = [self.expr(e, env) for e in s.value.elts]
                env = dict(env)
                for nm, v in zip(names, vals):
                    env[nm] = v
                return k_next(env)
            obj, ty = self.expr(s.value, env)
            return k_next(self.unpack(names, obj, ty, env, u(s)))
        if isinstance(tg, ast.Subscript):
            return k_next(self.store_entry(tg, s.value, env, u(s)))
        if isinstance(tg, ast.Attribute) and isinstance(tg.value, ast.Name) and tg.value.id in env:
            obj, ty = env[tg.value.id]
            if tg.attr == 'order' and ty == INTR:
                pend = env.get('$pending')
                if pend is None or pend[1].key() != obj.key():
                    raise Problem('%s: the object is not being stored in a category here' % u(s))
                val = self.texpr(s.value, env, NAT)
                c = pend[0]
                cats = env['$cats'][0]
                env = dict(env)
                env['$pending'] = None
                env['$cats'] = (A('assoc_set', [c, A('assoc_set', [A('idisc', [obj]), Pair(obj, val),
                                                                      A('cat_at', [cats, c])]), cats]), 'cats')
                return k_next(env)
            if ty == IOBJ and tg.attr == 'discriminator' and u(s.value) == 'undefer(%s.discriminator)' % tg.value.id:
                return k_next(env)
            if ty == IOBJ and tg.attr == 'action_info':
                o2, t2 = self.expr(s.value, env)
                if t2 == ERASED:
                    return k_next(env)
        raise Problem('assignment outside the table: %s' % u(s))

    def unpack(self, names, obj, ty, env, where):
        env = dict(env)
        if ty in (PAIR, IPAIR) and len(names) == 2:
            ety = TEXT if ty == PAIR else INTR
            env[names[0]] = (A('fst', [obj]), ety)
            env[names[1]] = (A('snd', [obj]), ety)
            return env
        if ty == RELOP and len(names) == 3:
            env[names[0]] = (b_atom(A('rel_flag', [obj])), BOOL)
            env[names[1]] = (A('rel_cat', [obj]), TEXT)
            env[names[2]] = (A('rel_disc', [obj]), TEXT)
            return env
        raise Problem('unpacking of a %s into %d names: %s' % (ty, len(names), where))

    def entry_key(self, sub, env, where):
        """A[X.discriminator] / A[X.discriminator_hash] -> (category key term, X term, hashed?)"""
        if not (isinstance(sub.value, ast.Name) and sub.value.id in env and env[sub.value.id][1] == CATALIAS):
            raise Problem('subscript outside the table: %s' % where)
        c = env[sub.value.id][0]
        sl = sub.slice
        if isinstance(sl, ast.Attribute) and sl.attr in ('discriminator', 'discriminator_hash') \
                and isinstance(sl.value, ast.Name) and sl.value.id in env and env[sl.value.id][1] == INTR:
            return c, env[sl.value.id][0], sl.attr == 'discriminator_hash'
        raise Problem('category key outside the table (expected X.discriminator): %s' % where)

    def store_entry(self, tg, value, env, where):
        c, x, hashed = self.entry_key(tg, env, where)
        vobj, vty = self.expr(value, env)
        if vty != INTR or vobj.key() != x.key():
            raise Problem('%s: the stored value must be the object whose discriminator is the key' % where)
        if hashed:
            return env
        self.nopending(env, 'a second store')
        env = dict(env)
        env['$pending'] = (c, x)
        return env

    def delete(self, s, env, k_next):
        if len(s.targets) != 1 or not isinstance(s.targets[0], ast.Subscript):
            raise Problem('del outside the table: %s' % u(s))
        c, x, hashed = self.entry_key(s.targets[0], env, u(s))
        if hashed:
            return k_next(env)
        self.nopending(env, 'del')
        cats = env['$cats'][0]
        cur = A('cat_at', [cats, c])
        env2 = dict(env)
        env2['$cats'] = (A('assoc_set', [c, A('assoc_del', [A('idisc', [x]), cur]), cats]), 'cats')
        return MOpt(A('assoc', [A('idisc', [x]), cur]), self.throw(env, 'KeyError'), '_', k_next(env2))

    def call_stmt(self, c, env, k_next):
        if not isinstance(c, ast.Call) or c.keywords:
            raise Problem('expression statement outside the subset: %s' % u(c))
        hc = self.handle_call(c, env)
        if hc is not None:
            return self.bind(hc, env, lambda env2, val: k_next(env2))
        f = c.func
        if isinstance(f, ast.Name) and f.id in env and env[f.id][1] == METHOD:
            args = [self.expr(a, env) for a in c.args]
            if any(ty != PAIR for _, ty in args):
                raise Problem('%s: arguments must be (category, discriminator) pairs' % u(c))
            call = (env[f.id][0].text, [Lst([o for o, _ in args])], UNIT)
            return self.bind(call, env, lambda env2, val: k_next(env2))
        if isinstance(f, ast.Attribute) and f.attr == 'register' and isinstance(f.value, ast.Name) \
                and f.value.id in env and env[f.value.id][1] == ITEM and len(c.args) == 2:
            h = self.expr(c.args[0], env)
            inf = self.expr(c.args[1], env)
            if h[1] != HANDLE or inf[1] != ERASED:
                raise Problem('%s: expected (introspector, action info)' % u(c))
            x = env[f.value.id][0]
            call = ('gen_register', [A('fst', [x]), A('snd', [x])], UNIT)
            return self.bind(call, env, lambda env2, val: k_next(env2))
        if isinstance(f, ast.Attribute) and f.attr in ('append', 'remove') and len(c.args) == 1:
            recv = f.value
            # self._relations.append((flag, c, d))
            if isinstance(recv, ast.Attribute) and recv.attr == '_relations' and isinstance(recv.value, ast.Name) \
                    and recv.value.id in env and env[recv.value.id][1] == IOBJ and f.attr == 'append':
                v = self.texpr(c.args[0], env, RELOP)
                env = dict(env)
                env['$rels'] = (App(env['$rels'][0], v), RELS)
                return k_next(env)
            if isinstance(recv, ast.Name) and recv.id in env:
                lobj, lty = env[recv.id]
                aobj, aty = self.expr(c.args[0], env)
                if lty in (REFALIAS, REFTEMP):
                    y = self.coerce(aobj, aty, INTR, env, u(c))
                    refs = env['$refs'][0]
                    cur = A('refs_at', [refs, lobj])
                    setter = 'refs_set' if lty == REFALIAS else 'refs_set_if_present'
                    if f.attr == 'append':
                        env = dict(env)
                        env['$refs'] = (A(setter, [lobj, App(cur, y), refs]), 'refs')
                        return k_next(env)
                    b = self.fresh('rest')
                    env2 = dict(env)
                    env2['$refs'] = (A(setter, [lobj, V(b), refs]), 'refs')
                    return MOpt(A('remove_first', [y, cur]), self.throw(env, 'ValueError'), b, k_next(env2))
                if f.attr == 'append' and lty in (NEWLIST, INTRS, ROWS) and isinstance(lobj, (K, App, V)):
                    if aty == BOOL or aobj is None or aty not in LISTOF:
                        raise Problem('%s: cannot append a %s' % (u(c), aty))
                    if lty != NEWLIST and LISTOF[aty] != lty:
                        raise Problem('%s: appending a %s to a %s' % (u(c), aty, lty))
                    if not self.own.get(recv.id):
                        raise Problem('%s: the list was not created by [] in this function (aliasing is not modelled)' % u(c))
                    env = dict(env)
                    env[recv.id] = (App(lobj, aobj), LISTOF[aty])
                    self.seen_type[recv.id] = LISTOF[aty]
                    return k_next(env)
        raise Problem('call outside the table: %s' % u(c))

    # ------------------------------------------------------------ if / for
    def none_test(self, t, env):
        """`v is None` / `v is not None` on a variable -> (name, positive?) or None"""
        if isinstance(t, ast.Compare) and len(t.ops) == 1 and isinstance(t.ops[0], (ast.Is, ast.IsNot)) \
                and isinstance(t.left, ast.Name) and isinstance(t.comparators[0], ast.Constant) \
                and t.comparators[0].value is None and t.left.id in env:
            return t.left.id, isinstance(t.ops[0], ast.Is)
        return None

    def if_stmt(self, s, env, k_next, jumps):
        nt = self.none_test(s.test, env)
        if nt is not None:
            name, is_none = nt
            obj, ty = env[name]
            b_none, b_some = (s.body, s.orelse) if is_none else (s.orelse, s.body)
            if ty in (OINTR, OCAT):
                if ty == OINTR:
                    binder = self.fresh('j_%s_' % _ident(name))
                    scrut, some_val = obj, (V(binder), INTR)
                else:
                    self.nopending(env, 'a read of the categories')
                    binder = '_'
                    scrut, some_val = A('assoc', [obj, env['$cats'][0]]), (obj, CATALIAS)
                none = self.block(list(b_none), _with(env, name, (K('None'), NONE)), k_next, jumps)
                some = self.block(list(b_some), _with(env, name, some_val), k_next, jumps)
                return MOpt(scrut, none, binder, some)
            if ty == OHANDLE:
                none = self.block(list(b_none), _with(env, name, (K('None'), NONE)), k_next, jumps)
                some = self.block(list(b_some), _with(env, name, (None, HANDLE)), k_next, jumps)
                return mk_if(obj, some, none)
        c = self.cond(s.test, env)
        if c[0] == 'const':                 # decided by a parameter the model fixes: only the live branch exists
            return self.block(list(s.body if c[1] else s.orelse), env, k_next, jumps)
        t = self.block(list(s.body), env, k_next, jumps)
        e = self.block(list(s.orelse), env, k_next, jumps)
        return mk_if(c, t, e)

    def for_loop(self, s, env, k_rest):
        if s.orelse:
            raise Problem('for .. else')
        self.nopending(env, 'a loop')
        itobj, itty = self.expr(s.iter, env)
        if itty in (REFALIAS, REFTEMP):
            raise Problem('loop over a list that lives in _refs (it could be mutated while iterated): %s' % u(s.iter))
        if itty not in ELEM:
            raise Problem('loop over a %s: %s' % (itty, u(s.iter)))
        self.nloops += 1
        lp = Loop(self.nloops, ELEM[itty], self.rty)
        lp.stateful = self.stateful
        tg = s.target
        if isinstance(tg, ast.Name):
            lp.x = 'x_%s_%d' % (_ident(tg.id), lp.n)
            tnames = [tg.id]
        elif isinstance(tg, ast.Tuple) and all(isinstance(e, ast.Name) for e in tg.elts) \
                and len({e.id for e in tg.elts}) == len(tg.elts):
            lp.x = 'x_elem_%d' % lp.n
            tnames = [e.id for e in tg.elts]
        else:
            raise Problem('loop target outside the subset: %s' % u(tg))
        occurs, assigned = [], []
        for st in s.body:
            for n in ast.walk(st):
                if isinstance(n, ast.Name) and n.id not in occurs:
                    occurs.append(n.id)
        for n in self.stores_in(s.body):
            if n not in assigned:
                assigned.append(n)
        carried = []
        env_head = dict(env)
        for nm in tnames:
            env_head.pop(nm, None)
        for nm in sorted(occurs):
            if nm in assigned and nm in env and nm not in tnames and not nm.startswith('$'):
                obj, ty = env[nm]
                if ty in (NEWLIST, INTRS, ROWS) and self.own.get(nm):
                    carried.append((nm, 'c_%s_%d' % (_ident(nm), lp.n), ty))
                elif ty in (CATALIAS, CATRO, OCAT, REFALIAS, REFTEMP, TEXT, INTR, OINTR, PAIR, METHOD, BOOL, EOBJ):
                    # re-bound in every iteration before use? then it is local to the iteration
                    env_head.pop(nm, None)
                else:
                    raise Problem('variable %s (%s) is assigned inside a loop and bound before it' % (nm, ty))
        lp.carried = carried
        if self.stateful:
            self.set_state_from(env_head, lp.s)
        for nm, b, ty in carried:
            env_head[nm] = (V(b), ty)

        def after(env2):
            out = dict(env_head)
            for key in ('$cats', '$refs', '$counter', '$pending'):
                if key in env2:
                    out[key] = env2[key]
            for nm, b, ty in carried:
                if nm not in env2 or env2[nm][1] not in (ty, ) + ((INTRS, ROWS) if ty == NEWLIST else ()):
                    raise Problem('loop-carried variable %s changes type inside the loop' % nm)
                out[nm] = env2[nm]
            return out

        def args_of(env2):
            self.nopending(env2, 'the end of a loop iteration')
            a = after(env2)
            return ([self.mk_state(a)] if self.stateful else []) + [a[nm][0] for nm, _, _ in carried]

        def k_continue(env2):
            return Jump(lp, args_of(env2))

        def k_break(env2):
            return k_rest(after(env2))

        env_body = dict(env_head)
        xterm = V(lp.x)
        if len(tnames) == 1:
            env_body[tnames[0]] = (xterm, lp.elem_ty)
        else:
            env_body = self.unpack(tnames, xterm, lp.elem_ty, env_body, u(tg))
        cons = self.block(list(s.body), env_body, k_continue, (k_continue, k_break))
        # after the loop the carried lists have whatever element type the body gave them
        env_nil = dict(env_head)
        for nm, b, ty in carried:
            if ty == NEWLIST and self.seen_type.get(nm):
                env_nil[nm] = (V(b), self.seen_type[nm])
        nil = k_rest(env_nil)
        init = ([self.mk_state(env)] if self.stateful else []) + [env[nm][0] for nm, _, _ in carried]
        return Fix(lp, nil, cons, itobj, init)

    @staticmethod
    def stores_in(stmts):
        out = []
        for st in stmts:
            for n in ast.walk(st):
                if isinstance(n, ast.Name) and isinstance(n.ctx, ast.Store):
                    out.append(n.id)
                if isinstance(n, ast.Call) and isinstance(n.func, ast.Attribute) and isinstance(n.func.value, ast.Name) \
                        and n.func.attr in ('append', 'remove', 'extend', 'insert', 'pop', 'clear', 'sort', 'reverse'):
                    out.append(n.func.value.id)
        return out

    # ------------------------------------------------------------ expressions
    def cond(self, n, env):
        obj, ty = self.expr(n, env)
        if ty != BOOL:
            raise Problem('truth value of a %s is outside the table: %s' % (ty, u(n)))
        return obj

    def texpr(self, n, env, want):
        obj, ty = self.expr(n, env)
        return self.coerce(obj, ty, want, env, u(n))

    def valof(self, obj, ty, env):
        """aliases are read through the current state"""
        if ty in (CATALIAS, CATRO):
            self.nopending(env, 'a read of a category')
            return A('cat_at', [env['$cats'][0], obj]), 'entries'
        if ty in (REFALIAS, REFTEMP):
            return A('refs_at', [env['$refs'][0], obj]), INTRS
        if ty == NEWLIST:
            return obj, NEWLIST
        return obj, ty

    def expr(self, n, env):
        if isinstance(n, ast.Name):
            if n.id in env and not n.id.startswith('$'):
                return env[n.id]
            raise Problem('name %s is unbound here (or local to a loop iteration), or outside the table' % n.id)
        if isinstance(n, ast.Constant):
            if n.value is None:
                return K('None'), NONE
            if isinstance(n.value, bool):
                return ('const', n.value), BOOL
            if isinstance(n.value, str):
                return None, ERASED
        if isinstance(n, ast.List) and not n.elts:
            return K('[]'), NEWLIST
        if isinstance(n, ast.Tuple):
            if not n.elts:
                return K('[]'), EMPTY
            vals = [self.expr(e, env) for e in n.elts]
            tys = [t for _, t in vals]
            if tys == [TEXT, TEXT]:
                return Pair(vals[0][0], vals[1][0]), PAIR
            if tys == [BOOL, TEXT, TEXT]:
                return A('mk_relop', [b_term(vals[0][0]), vals[1][0], vals[2][0]]), RELOP
            raise Problem('tuple outside the table: %s' % u(n))
        if isinstance(n, ast.Dict):
            keys = [k.value if isinstance(k, ast.Constant) else None for k in n.keys]
            if keys == ['introspectable', 'related']:
                a = self.expr(n.values[0], env)
                b = self.expr(n.values[1], env)
                b = self.valof(b[0], b[1], env)
                if a[1] == EOBJ and b[1] == INTRS:
                    return Pair(a[0], b[0]), ROW
            raise Problem('dict display outside the table: %s' % u(n))
        if isinstance(n, ast.Attribute) and isinstance(n.value, ast.Name) and n.value.id in env:
            obj, ty = env[n.value.id]
            if n.attr in ('category_name', 'discriminator') and ty in (INTR, IOBJ, EOBJ):
                o = self.coerce(obj, ty, INTR, env, u(n))
                return A('icat' if n.attr == 'category_name' else 'idisc', [o]), TEXT
            if n.attr == '_counter' and ty == HANDLE:
                return env['$counter'][0], NAT
            if n.attr == '_relations' and ty == IOBJ:
                return env['$rels'][0], RELS
            if n.attr in ('relate', 'unrelate') and ty == HANDLE:
                return K(METHODS[n.attr][0]), METHOD
            if n.attr == 'introspection' and ty == CONFIG:
                return b_atom(V('introspection')), BOOL
        if isinstance(n, ast.UnaryOp) and isinstance(n.op, ast.Not):
            return b_not(self.cond(n.operand, env)), BOOL
        if isinstance(n, ast.BoolOp):
            return ('and' if isinstance(n.op, ast.And) else 'or', [self.cond(v, env) for v in n.values]), BOOL
        if isinstance(n, ast.Compare):
            if len(n.ops) != 1:
                raise Problem('chained comparison: %s' % u(n))
            return self.compare(n.ops[0], n.left, n.comparators[0], env, n), BOOL
        if isinstance(n, ast.GeneratorExp):
            g = n.generators
            if len(g) == 2 and not any(x.ifs or x.is_async for x in g) and isinstance(n.elt, ast.Tuple) \
                    and len(n.elt.elts) == 2 and all(isinstance(x.target, ast.Name) for x in g) \
                    and [u(e) for e in n.elt.elts] == [g[0].target.id, g[1].target.id] \
                    and g[0].target.id != g[1].target.id:
                a = self.texpr(g[0].iter, env, INTRS)
                if g[0].target.id in {x.id for x in ast.walk(g[1].iter) if isinstance(x, ast.Name)}:
                    raise Problem('dependent generator: %s' % u(n))
                b = self.texpr(g[1].iter, env, INTRS)
                return A('pairs_of', [a, b]), IPAIRS
            raise Problem('generator expression outside the table: %s' % u(n))
        if isinstance(n, ast.Call):
            return self.call(n, env)
        raise Problem('expression outside the table: %s' % u(n))

    def compare(self, op, l, r, env, whole):
        lobj, lty = self.expr(l, env)
        robj, rty = self.expr(r, env)
        if isinstance(op, (ast.Is, ast.IsNot)):
            if rty == NONE and lty == NONE:
                b = ('const', True)
            elif rty == NONE and lty in (INTR, TEXT, INTRS, EOBJ, HANDLE):
                b = ('const', False)
            elif lty in (INTR, IOBJ) and rty in (INTR, IOBJ):
                b = b_atom(A('same_obj', [lobj, robj]))
            else:
                raise Problem('`is` between a %s and a %s is outside the table (test optional values by name): %s'
                              % (lty, rty, u(whole)))
            return b_not(b) if isinstance(op, ast.IsNot) else b
        if isinstance(op, (ast.In, ast.NotIn)):
            y = self.coerce(lobj, lty, INTR, env, u(whole))
            lv, lvt = self.valof(robj, rty, env)
            if lvt != INTRS:
                raise Problem('`in` on a %s is outside the table: %s' % (rty, u(whole)))
            b = b_atom(A('mem_intr', [y, lv]))
            return b_not(b) if isinstance(op, ast.NotIn) else b
        raise Problem('comparison operator outside the table: %s' % u(whole))

    def call(self, n, env):
        f = n.func
        if isinstance(f, ast.Name) and f.id not in env:
            if f.id == 'undefer' and len(n.args) == 1 and not n.keywords:
                obj, ty = self.expr(n.args[0], env)
                if ty != TEXT:
                    raise Problem('undefer of a %s: %s' % (ty, u(n)))
                return obj, ty
            if f.id == 'sorted' and len(n.args) == 1:
                a = n.args[0]
                if not n.keywords and isinstance(a, ast.Call) and isinstance(a.func, ast.Attribute) \
                        and a.func.attr == 'keys' and not a.args and self.is_field(a.func.value, env, '_categories'):
                    self.nopending(env, 'a read of the categories')
                    return A('sorted_texts', [A('map', [K('fst'), env['$cats'][0]])]), TEXTS
                if len(n.keywords) == 1 and n.keywords[0].arg == 'key' and isinstance(a, ast.Call) \
                        and isinstance(a.func, ast.Name) and a.func.id == 'set' and 'set' not in env \
                        and len(a.args) == 1 and not a.keywords:
                    v = self.expr(a.args[0], env)
                    kk = self.expr(n.keywords[0].value, env)
                    if v[1] == ELIST and kk[1] == SORTKEY:
                        return A('sort_by_order', [v[0]]), ELIST
                raise Problem('sorted(..) outside the table: %s' % u(n))
        if isinstance(f, ast.Attribute) and u(f) == 'operator.attrgetter' and 'operator' not in env:
            if len(n.args) == 1 and not n.keywords and isinstance(n.args[0], ast.Constant) and n.args[0].value == 'order':
                return None, SORTKEY
            raise Problem('attrgetter outside the table: %s' % u(n))
        if isinstance(f, ast.Attribute) and not n.keywords:
            if f.attr == 'get':
                if self.is_field(f.value, env, '_categories'):
                    c = self.texpr(n.args[0], env, TEXT) if n.args else None
                    if len(n.args) == 1:
                        return c, OCAT
                    if len(n.args) == 2 and self.is_empty(n.args[1], 'dict'):
                        return c, CATRO
                elif self.is_field(f.value, env, '_refs'):
                    if len(n.args) == 2 and self.is_empty(n.args[1], 'list'):
                        return self.texpr(n.args[0], env, INTR), REFTEMP
                else:
                    base = self.expr(f.value, env)
                    if base[1] in (CATALIAS, CATRO) and len(n.args) in (1, 2):
                        if len(n.args) == 2 and self.expr(n.args[1], env)[1] != NONE:
                            raise Problem('default of .get must be None: %s' % u(n))
                        d = self.texpr(n.args[0], env, TEXT)
                        cur, _ = self.valof(base[0], base[1], env)
                        return A('entry_get', [d, cur]), OINTR
                raise Problem('.get outside the table: %s' % u(n))
            if f.attr == 'values' and not n.args:
                base = self.expr(f.value, env)
                if base[1] in (CATALIAS, CATRO):
                    cur, _ = self.valof(base[0], base[1], env)
                    return A('map', [K('snd'), cur]), ELIST
        raise Problem('call outside the table: %s' % u(n))


# ---- locating functions and fragments
def find_method(tree, qual):
    node = tree
    for part in qual.split('.'):
        nxt = [c for c in node.body if isinstance(c, (ast.FunctionDef, ast.ClassDef)) and c.name == part]
        if len(nxt) != 1:
            return None
        node = nxt[0]
    return node


def find_fragment(fn, which):
    """-> (list that holds the statement, index)"""
    if which == 'action':
        hits = [(fn.body, i) for i, st in enumerate(fn.body)
                if any(isinstance(n, ast.Name) and n.id == 'introspectables' and isinstance(n.ctx, (ast.Store, ast.Del))
                       for n in ast.walk(st))]
        if len(hits) != 1:
            raise Problem('expected exactly one top-level statement of action() that assigns `introspectables`, found %d'
                          % len(hits))
        if 'introspectables' not in [a.arg for a in fn.args.args]:
            raise Problem('action() has no parameter `introspectables`')
        return hits[0]
    loops = [n for n in ast.walk(fn) if isinstance(n, ast.While)]
    if len(loops) != 1:
        raise Problem('expected exactly one while loop in execute_actions')
    body = loops[0].body
    hits = [(body, i) for i, st in enumerate(body)
            if any(isinstance(n, ast.Attribute) and n.attr == 'register' for n in ast.walk(st))]
    if len(hits) != 1:
        raise Problem('expected exactly one statement of the execute_actions loop that calls .register, found %d' % len(hits))
    if 'introspector' not in [a.arg for a in fn.args.args]:
        raise Problem('execute_actions has no parameter `introspector`')
    return hits[0]


def masked_shape(fn, holder, idx):
    """shape pin of a function with the translated fragment cut out"""
    from harness.common import facts as F
    saved = holder[idx]
    holder[idx] = ast.Expr(value=ast.Constant(value='<translated fragment>'))
    try:
        return hashlib.sha1(ast.dump(F.strip_doc(fn)).encode()).hexdigest()[:16]
    finally:
        holder[idx] = saved


# ---- class-level checks: the members the translation does not see must be the pinned ones
CLASS_MEMBERS = {
    'Introspector': ['__init__', 'add', 'get', 'get_category', 'categorized', 'categories', 'remove',
                     '_get_intrs_by_pairs', 'relate', 'unrelate', 'related'],
    'Introspectable': ['order = 0', 'action_info = None', '__init__', 'relate', 'unrelate', '_assert_resolved',
                       'discriminator_hash', '__hash__', '__repr__', '__bool__', 'register'],
}
CLASS_HEAD = {'Introspector': ([], ['implementer(IIntrospector)']), 'Introspectable': (['dict'], ['implementer(IIntrospectable)'])}


def check_class(tree, name, problems):
    cls = [c for c in tree.body if isinstance(c, ast.ClassDef) and c.name == name]
    if len(cls) != 1:
        problems.append('translator: class %s not found exactly once' % name)
        return
    c = cls[0]
    head = ([u(b) for b in c.bases], [u(d) for d in c.decorator_list])
    if head != CLASS_HEAD[name] or c.keywords:
        problems.append('translator: class %s has bases/decorators %s, expected %s' % (name, head, CLASS_HEAD[name]))
    members = []
    for st in c.body:
        if isinstance(st, ast.Expr) and isinstance(st.value, ast.Constant) and isinstance(st.value.value, str):
            continue
        members.append(st.name if isinstance(st, ast.FunctionDef) else u(st).split('\n')[0][:60])
    if sorted(members) != sorted(CLASS_MEMBERS[name]):
        problems.append('translator: members of class %s are %s, expected exactly %s' % (name, members, CLASS_MEMBERS[name]))
    for st in c.body:
        if isinstance(st, ast.FunctionDef) and st.decorator_list and not (
                name == 'Introspectable' and st.name == 'discriminator_hash' and [u(d) for d in st.decorator_list] == ['property']):
            problems.append('translator: %s.%s is decorated' % (name, st.name))


def check_module_names(tree, rel, problems):
    """names of the primitive table must not be rebound at module level"""
    bound = {}
    for st in tree.body:
        if isinstance(st, (ast.FunctionDef, ast.ClassDef)):
            bound.setdefault(st.name, []).append('def')
        elif isinstance(st, ast.ImportFrom):
            for al in st.names:
                bound.setdefault(al.asname or al.name, []).append('from %s import %s' % (st.module, al.name))
        elif isinstance(st, ast.Import):
            for al in st.names:
                bound.setdefault((al.asname or al.name).split('.')[0], []).append('import %s' % al.name)
        else:
            for n in ast.walk(st):
                if isinstance(n, ast.Name) and isinstance(n.ctx, (ast.Store, ast.Del)):
                    bound.setdefault(n.id, []).append('assign')
    want = {'undefer': ['def'], 'operator': ['import operator']}
    for nm in ('sorted', 'set', 'KeyError', 'ValueError'):
        if bound.get(nm):
            problems.append('translator: builtin %s is rebound at module level in %s' % (nm, rel))
    if rel.endswith('registry.py'):
        for nm, w in want.items():
            if bound.get(nm) != w:
                problems.append('translator: module-level binding of %s in %s is %s, expected %s' % (nm, rel, bound.get(nm), w))


# ---- driver
def load_fallback():
    try:
        with open(FALLBACK) as f:
            return json.load(f)
    except (OSError, ValueError):
        return {}


def translate_tree(src_root, want_masked=None):
    """-> (coq text, problems, summary, masked pins {qual: shape})"""
    problems, out, summary, masked = [], [], {}, {}
    fb = load_fallback()
    trees = {}
    for rel in sorted(set(FILE_OF.values())):
        try:
            with open(os.path.join(src_root, rel)) as f:
                trees[rel] = ast.parse(f.read())
        except (OSError, SyntaxError) as e:
            problems.append('translator: cannot parse %s: %s' % (rel, e))
            trees[rel] = None
    reg = trees.get('pyramid/registry.py')
    if reg is not None:
        check_class(reg, 'Introspector', problems)
        check_class(reg, 'Introspectable', problems)
    for rel, tr in trees.items():
        if tr is not None:
            check_module_names(tr, rel, problems)
    for spec in FUNCS:
        gen = spec['gen']
        body = None
        tree = trees.get(FILE_OF[spec['qual'].split('.')[0]])
        if tree is not None:
            fn = find_method(tree, spec['qual'])
            if fn is None:
                problems.append('translator: %s not found (exactly once)' % spec['qual'])
            else:
                try:
                    stmts = None
                    if spec.get('fragment'):
                        holder, idx = find_fragment(fn, spec['fragment'])
                        stmts = [holder[idx]]
                        masked.setdefault(FILE_OF[spec['qual'].split('.')[0]], {})[spec['qual']] = masked_shape(fn, holder, idx)
                    term = FnTranslator(fn, spec, stmts).translate()
                    body = render(term, 2)
                except Problem as e:
                    problems.append('translator: %s: %s' % (spec['qual'], e))
                except RecursionError:
                    problems.append('translator: %s: nesting too deep' % spec['qual'])
                except Exception as e:      # a translator bug must never pass silently
                    problems.append('translator: %s: internal error %s: %s' % (spec['qual'], type(e).__name__, e))
        if body is None:
            summary[gen] = 'FALLBACK (stored translation of the reference text)'
            body = fb.get(gen)
            if body is None:
                problems.append('translator: no stored fallback for %s' % gen)
                body = DEFAULT_BODY[spec['kind']]
        else:
            summary[gen] = 'translated from source (%d lines of Gallina)' % (body.count('\n') + 1)
        rty = ('st * res (%s)' % spec['ret']) if spec['kind'] == 'state' else spec['ret']
        out.append('Definition %s %s : %s :=\n  %s.\n' % (gen, spec['sig'], rty, body))
    return '\n'.join(out), problems, summary, masked


if __name__ == '__main__':
    import sys
    root = sys.argv[1] if len(sys.argv) > 1 and not sys.argv[1].startswith('--') else '/repo/src'
    if '--write-fallback' in sys.argv:
        coq, problems, summary, masked = translate_tree(root)
        if problems:
            print('refusing to write a fallback: problems', problems)
            sys.exit(1)
        fbs = {}
        for chunk in coq.split('\nDefinition ')[0:]:
            pass
        trees = {}
        for spec in FUNCS:
            rel = FILE_OF[spec['qual'].split('.')[0]]
            with open(os.path.join(root, rel)) as f:
                tree = ast.parse(f.read())
            fn = find_method(tree, spec['qual'])
            stmts = None
            if spec.get('fragment'):
                holder, idx = find_fragment(fn, spec['fragment'])
                stmts = [holder[idx]]
            fbs[spec['gen']] = render(FnTranslator(fn, spec, stmts).translate(), 2)
        with open(FALLBACK, 'w') as f:
            json.dump(fbs, f, indent=1, sort_keys=True)
        with open(os.path.join(HERE, 'pins_masked.json'), 'w') as f:
            json.dump(masked, f, indent=1, sort_keys=True)
        print('wrote', FALLBACK, 'and pins_masked.json', masked)
    else:
        coq, problems, summary, masked = translate_tree(root)
        print(coq)
        for p in problems:
            print('PROBLEM:', p)
        print(summary, masked)
