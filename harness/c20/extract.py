"""Regenerated introspectable tables: one record per `X = <cfg>.introspectable(...)` site."""
import ast
import os

FILES = ['adapters', 'assets', 'factories', 'i18n', 'predicates', 'rendering', 'routes', 'security',
         'tweens', 'views']


def _params(fn):
    a = fn.args
    names = [x.arg for x in a.posonlyargs + a.args + a.kwonlyargs]
    if a.vararg:
        names.append(a.vararg.arg)
    if a.kwarg:
        names.append(a.kwarg.arg)
    return [n for n in names if n not in ('self', 'config')]


def _names(e):
    return sorted({n.id for n in ast.walk(e) if isinstance(n, ast.Name)})


def _assigns(fn):
    """name -> list of rhs expressions assigned anywhere in fn (plain Name targets only)."""
    out = {}
    for n in ast.walk(fn):
        if isinstance(n, ast.Assign):
            for t in n.targets:
                if isinstance(t, ast.Name):
                    out.setdefault(t.id, []).append(n.value)
                elif isinstance(t, ast.Tuple):
                    for el in t.elts:
                        if isinstance(el, ast.Name):
                            out.setdefault(el.id, []).append(n.value)
        elif isinstance(n, ast.AugAssign) and isinstance(n.target, ast.Name):
            out.setdefault(n.target.id, []).append(n.value)
    return out


def _callname(c):
    f = c.func
    if isinstance(f, ast.Name):
        return f.id
    if isinstance(f, ast.Attribute):
        return f.attr
    return '?'


def _parents(fn):
    par = {}
    for n in ast.walk(fn):
        for ch in ast.iter_child_nodes(n):
            par[id(ch)] = n
    return par


def _truth_facts(test, truth, out):
    """names whose truth value is certain when `test` evaluates to `truth`"""
    if isinstance(test, ast.Name):
        out[test.id] = truth
    elif isinstance(test, ast.UnaryOp) and isinstance(test.op, ast.Not):
        _truth_facts(test.operand, not truth, out)
    elif isinstance(test, ast.BoolOp):
        if (isinstance(test.op, ast.And) and truth) or (isinstance(test.op, ast.Or) and not truth):
            for v in test.values:
                _truth_facts(v, truth, out)


def path_facts(fn, node, par):
    """{name: bool} decided by the if-tests enclosing `node` inside fn; a name re-assigned ONCE, by a top-level statement of
    fn that precedes the test, to an `or` (resp. `and`) of names passes its falsity (resp. truth) on to the operands
    (`property = property or reify` ... `else:` => reify is false)."""
    facts = {}
    cur = node
    while id(cur) in par and cur is not fn:
        up = par[id(cur)]
        if isinstance(up, ast.If):
            if any(cur is st for st in up.body):
                _truth_facts(up.test, True, facts)
            elif any(cur is st for st in up.orelse):
                _truth_facts(up.test, False, facts)
        if isinstance(up, (ast.FunctionDef, ast.Lambda)) and up is not fn:
            return {}                      # inside a closure: runs later, the tests say nothing
        cur = up
    assigned = {}
    for n in ast.walk(fn):
        if isinstance(n, (ast.Assign, ast.AugAssign, ast.AnnAssign, ast.For, ast.With, ast.NamedExpr)):
            tgs = n.targets if isinstance(n, ast.Assign) else [getattr(n, 'target', None)]
            for t in tgs:
                for x in (ast.walk(t) if t is not None else []):
                    if isinstance(x, ast.Name):
                        assigned.setdefault(x.id, []).append(n)
    for nm, truth in list(facts.items()):
        ns = assigned.get(nm, [])
        if not ns:
            continue
        n = ns[0]
        ok = len(ns) == 1 and isinstance(n, ast.Assign) and len(n.targets) == 1 and isinstance(n.targets[0], ast.Name) \
            and any(n is st for st in fn.body) and n.lineno < node.lineno and isinstance(n.value, ast.BoolOp) \
            and all(isinstance(v, ast.Name) for v in n.value.values)
        if not ok:
            del facts[nm]                  # re-assigned in a way we do not follow: the test says nothing about the argument
            continue
        if (isinstance(n.value.op, ast.Or) and not truth) or (isinstance(n.value.op, ast.And) and truth):
            for v in n.value.values:
                if v.id == nm or not assigned.get(v.id):
                    facts[v.id] = truth
        elif nm in [v.id for v in n.value.values]:
            del facts[nm]                  # `p = p or q` true says nothing about the original p
    return facts


def normal_form(expr, params, assigns, depth=0, key=None, facts=None):
    """-> ('arg', p) | ('norm', f, p) | ('const', repr) | ('other', src)"""
    src = ast.unparse(expr)
    if isinstance(expr, ast.Constant):
        if isinstance(expr.value, bool) and key in params and facts and facts.get(key) is expr.value:
            # the literal is the truth value of the argument the key is named after, on this path
            return ('norm', 'path-truth', key)
        return ('const', repr(expr.value))
    if isinstance(expr, ast.Name):
        nm = expr.id
        rhss = assigns.get(nm, [])
        if nm in params:
            if not rhss:
                return ('arg', nm)
            # re-assigned parameter: every rhs must be a normalisation of itself
            fs = []
            for r in rhss:
                if isinstance(r, ast.Call) and nm in _names(r) and all(
                        x == nm or x not in params for x in _names(r)):
                    fs.append(_callname(r))
                elif isinstance(r, ast.Constant) or (isinstance(r, (ast.List, ast.Tuple, ast.Dict)) and not _names(r)):
                    fs.append('default')
                elif isinstance(r, ast.Name) and r.id not in params:
                    fs.append('default')
                else:
                    fs.append('expr')
            return ('norm', '+'.join(sorted(set(fs))), nm)
        if len(rhss) == 1 and depth < 3:
            inner = normal_form(rhss[0], params, assigns, depth + 1)
            if inner[0] in ('arg', 'norm'):
                return ('norm', 'local:' + nm + ('' if inner[0] == 'arg' else ':' + inner[1]), inner[-1])
        return ('other', src)
    if isinstance(expr, ast.Attribute) and isinstance(expr.value, ast.Name) and expr.value.id not in params and depth < 3:
        # attribute of a local built ONCE by a call with the keyword `attr=<argument>`: options.safe_methods
        rhss = assigns.get(expr.value.id, [])
        if len(rhss) == 1 and isinstance(rhss[0], ast.Call):
            kws = [kw.value for kw in rhss[0].keywords if kw.arg == expr.attr]
            if len(kws) == 1:
                inner = normal_form(kws[0], params, assigns, depth + 1)
                if inner[0] in ('arg', 'norm'):
                    return ('norm', 'attr:%s.%s' % (expr.value.id, expr.attr) + ('' if inner[0] == 'arg' else ':' + inner[1]),
                            inner[-1])
    if isinstance(expr, ast.Call):
        ps = [x for x in _names(expr) if x in params]
        if len(ps) == 1:
            return ('norm', _callname(expr), ps[0])
        if not ps and len(expr.args) == 1 and not expr.keywords and depth < 3:
            inner = normal_form(expr.args[0], params, assigns, depth + 1)      # f(<normal form of an argument>)
            if inner[0] in ('arg', 'norm'):
                return ('norm', _callname(expr) + ('' if inner[0] == 'arg' else ':' + inner[1]), inner[-1])
    ps = [x for x in _names(expr) if x in params]
    if len(ps) == 1:
        return ('norm', 'expr', ps[0])
    return ('other', src)


def documented(repo_root):
    """docs/narr/introspector.rst -> {category: [documented keys]} (headings at column 0 / 2)."""
    import re
    cats, cur = {}, None
    generic = {'title', 'category_name', 'discriminator', 'discriminator_hash', 'type_name', 'action_info'}
    with open(os.path.join(repo_root, 'docs', 'narr', 'introspector.rst')) as f:
        for line in f:
            m = re.match(r'^``([^`]+)``\s*$', line)
            if m:
                cur = m.group(1)
                if cur not in generic:
                    cats[cur] = []
                else:
                    cur = None
                continue
            m = re.match(r'^  ``([^`]+)``\s*$', line)
            if m and cur:
                cats[cur].append(m.group(1))
    return cats


# site functions that are not action methods themselves: the public directives (action methods) through which they run
HELPERS = {
    'pyramid/config/views.py:StaticURLInfo.add': ['pyramid/config/views.py:ViewsConfiguratorMixin.add_static_view'],
    'pyramid/config/views.py:StaticURLInfo.add_cache_buster': ['pyramid/config/views.py:ViewsConfiguratorMixin.add_cache_buster'],
    'pyramid/config/tweens.py:TweensConfiguratorMixin._add_tween': ['pyramid/config/tweens.py:TweensConfiguratorMixin.add_tween'],
    'pyramid/config/predicates.py:PredicateConfiguratorMixin._add_predicate': [
        'pyramid/config/views.py:ViewsConfiguratorMixin.add_view_predicate',
        'pyramid/config/routes.py:RoutesConfiguratorMixin.add_route_predicate',
        'pyramid/config/adapters.py:AdaptersConfiguratorMixin.add_subscriber_predicate'],
}


def _quals(tree):
    out = {}

    def walk(node, prefix, chain):
        for n in ast.iter_child_nodes(node):
            if isinstance(n, (ast.FunctionDef, ast.AsyncFunctionDef, ast.ClassDef)):
                q = prefix + n.name
                out[id(n)] = (q, chain)
                walk(n, q + '.', chain + ([n] if isinstance(n, ast.FunctionDef) else []))
            else:
                walk(n, prefix, chain)
    walk(tree, '', [])
    return out


def _is_action_method(fn):
    return any(ast.unparse(d) == 'action_method' for d in fn.decorator_list)


def _registered(outer, var):
    """does `var` reach the `introspectables=` argument of an `.action(..)` call of the (outermost) directive function?"""
    carriers = set()
    for n in ast.walk(outer):
        if isinstance(n, ast.Call) and isinstance(n.func, ast.Attribute) and n.func.attr == 'action':
            for kw in n.keywords:
                if kw.arg == 'introspectables':
                    if var in _names(kw.value):
                        return True
                    if isinstance(kw.value, ast.Name):
                        carriers.add(kw.value.id)
    for n in ast.walk(outer):
        if isinstance(n, ast.Assign) and any(isinstance(t, ast.Name) and t.id in carriers for t in n.targets) \
                and var in _names(n.value):
            return True
        if isinstance(n, ast.Call) and isinstance(n.func, ast.Attribute) and isinstance(n.func.value, ast.Name) \
                and n.func.value.id in carriers and n.func.attr in ('append', 'extend', 'insert') \
                and any(var in _names(a) for a in n.args):
            return True
    return False


def documented_normalised(repo_root):
    """(category, key) pairs whose description in docs/narr/introspector.rst says the value is a normalised version of
    the argument (the word normalized / normalised occurs in the text under the key)"""
    import re
    out, cur, key = set(), None, None
    with open(os.path.join(repo_root, 'docs', 'narr', 'introspector.rst')) as f:
        for line in f:
            m = re.match(r'^``([^`]+)``\s*$', line)
            if m:
                cur, key = m.group(1), None
                continue
            m = re.match(r'^  ``([^`]+)``\s*$', line)
            if m and cur:
                key = m.group(1)
                continue
            if cur and key and re.search(r'normali[sz]ed', line, re.I):
                out.add((cur, key))
    return out


def extract(src_root):
    sites, problems = [], []
    trees = {}
    for base in FILES:
        rel = 'pyramid/config/%s.py' % base
        path = os.path.join(src_root, rel)
        try:
            tree = ast.parse(open(path).read())
        except (OSError, SyntaxError) as e:
            problems.append('cannot parse %s: %s' % (rel, e))
            continue
        trees[rel] = tree
    allquals = {rel: _quals(tree) for rel, tree in trees.items()}
    byqual = {'%s:%s' % (rel, q): None for rel in trees for q, _ in allquals[rel].values()}
    for rel, tree in trees.items():
        for n in ast.walk(tree):
            if id(n) in allquals[rel] and isinstance(n, ast.FunctionDef):
                byqual['%s:%s' % (rel, allquals[rel][id(n)][0])] = n
    for rel, tree in trees.items():
        quals = allquals[rel]
        funcs = [n for n in ast.walk(tree) if isinstance(n, (ast.FunctionDef,))]
        # innermost enclosing function for every introspectable(...) call
        for fn in funcs:
            inner_funcs = [n for n in ast.walk(fn) if isinstance(n, ast.FunctionDef) and n is not fn]
            inner_nodes = set()
            for f2 in inner_funcs:
                inner_nodes.update(id(x) for x in ast.walk(f2))
            params = _params(fn)
            assigns = _assigns(fn)
            sites_here = []
            for n in ast.walk(fn):
                if id(n) in inner_nodes:
                    continue
                if isinstance(n, ast.Assign) and isinstance(n.value, ast.Call) \
                        and isinstance(n.value.func, ast.Attribute) and n.value.func.attr == 'introspectable' \
                        and len(n.targets) == 1 and isinstance(n.targets[0], ast.Name):
                    var = n.targets[0].id
                    call = n.value
                    if len(call.args) != 4 or call.keywords:
                        problems.append('%s:%s: introspectable() call with unexpected arguments' % (rel, fn.name))
                        continue
                    cat = call.args[0]
                    template = None
                    if isinstance(cat, ast.BinOp) and isinstance(cat.op, ast.Mod) and isinstance(cat.left, ast.Constant) \
                            and isinstance(cat.left.value, str) and cat.left.value.count('%s') == 1 \
                            and cat.left.value.count('%') == 1 and isinstance(cat.right, ast.Name) and cat.right.id in params:
                        template = (cat.left.value, cat.right.id)       # category parametrised by a parameter
                        cat = cat.left
                    if not (isinstance(cat, ast.Constant) and isinstance(cat.value, str)):
                        problems.append('%s:%s: category is not a string literal' % (rel, fn.name))
                        continue
                    qual, chain = quals[id(fn)]
                    outer = chain[0] if chain else fn
                    am = _is_action_method(fn) or any(_is_action_method(f2) for f2 in chain)
                    via = []
                    if not am:
                        for dq in HELPERS.get('%s:%s' % (rel, qual), []):
                            d = byqual.get(dq)
                            calls = d is not None and any(
                                isinstance(x, ast.Call) and isinstance(x.func, ast.Attribute) and x.func.attr == fn.name
                                for x in ast.walk(d))
                            if d is None or not _is_action_method(d) or not calls:
                                problems.append('%s:%s: the directive %s through which this entry is made is missing, is not '
                                                'an action method, or no longer calls it' % (rel, qual, dq))
                                via = []
                                break
                            via.append(dq)
                        am = bool(via)
                        if not am:
                            problems.append('%s:%s builds an introspectable but is not an action method (the entry would '
                                            'not point at the statement)' % (rel, qual))
                    reg = _registered(outer, var)
                    if not reg:
                        problems.append('%s:%s: introspectable %s is never passed to an action (introspectables=)'
                                        % (rel, qual, var))
                    site = {'file': rel, 'func': fn.name, 'qual': qual, 'var': var, 'category': cat.value,
                            'template': template, 'action_method': am, 'registered': reg,
                            'discriminator': ast.unparse(call.args[1]), 'title': ast.unparse(call.args[2]),
                            'type_name': ast.unparse(call.args[3]), 'params': params, 'keys': [],
                            'updates': [], 'relates': [], 'line': n.lineno}
                    site['_node'] = n
                    sites_here.append(site)
            # attribute every store on a variable to the site that assigned the variable last before it
            par = _parents(fn)
            # NAMES BOUND ONCE: a variable that holds an introspectable is bound exactly once on every path, and when one
            # name serves several sites (exclusive branches) no closure may read it -- a closure sees the LAST binding
            for var in sorted({x['var'] for x in sites_here}):
                mine = [x for x in sites_here if x['var'] == var]
                binds = [n2 for n2 in ast.walk(fn) if isinstance(n2, ast.Name) and n2.id == var
                         and isinstance(n2.ctx, (ast.Store, ast.Del)) and id(n2) not in inner_nodes]
                # `var = None` before the site is an initialisation, not a second object
                binds = [n2 for n2 in binds if not (
                    isinstance(par.get(id(n2)), ast.Assign) and isinstance(par[id(n2)].value, ast.Constant)
                    and par[id(n2)].value.value is None and par[id(n2)].lineno < min(x['_node'].lineno for x in mine))]
                if len(binds) != len(mine):
                    problems.append('%s:%s: the introspectable variable %s is also bound by something else than its %d '
                                    'introspectable(..) site(s)' % (rel, fn.name, var, len(mine)))
                if len(mine) > 1:
                    def branch_path(node):
                        out, cur = [], node
                        while id(cur) in par and cur is not fn:
                            up = par[id(cur)]
                            if isinstance(up, ast.If):
                                out.append((id(up), 'T' if any(cur is st for st in up.body) else 'F'))
                            cur = up
                        return dict(out)
                    paths = [branch_path(x['_node']) for x in mine]
                    for i in range(len(mine)):
                        for j in range(i + 1, len(mine)):
                            if not any(k in paths[j] and paths[j][k] != v for k, v in paths[i].items()):
                                problems.append('%s:%s: the name %s is bound to two introspectables on one path (the second '
                                                'binding shadows the first for every later store)' % (rel, fn.name, var))
                    reads = [n2 for n2 in ast.walk(fn) if isinstance(n2, ast.Name) and n2.id == var and id(n2) in inner_nodes]
                    if reads:
                        problems.append('%s:%s: the name %s is bound to several introspectables and read inside a closure '
                                        '(late binding: the closure sees the last one bound)' % (rel, fn.name, var))
            # NO MUTABLE DEFAULTS in a function that builds an entry (state kept across calls)
            if sites_here:
                for dv in list(fn.args.defaults) + [d for d in fn.args.kw_defaults if d is not None]:
                    if isinstance(dv, (ast.List, ast.Dict, ast.Set, ast.ListComp, ast.DictComp, ast.SetComp, ast.Call)):
                        problems.append('%s:%s: mutable default argument %s' % (rel, fn.name, ast.unparse(dv)))

            def owner_sites(m, var):
                cands = [x for x in sites_here if x['var'] == var]
                cur = m
                while id(cur) in par:
                    up = par[id(cur)]
                    for field in ('body', 'orelse', 'finalbody'):
                        blk = getattr(up, field, None)
                        if isinstance(blk, list) and any(cur is st for st in blk):
                            before = blk[:[i for i, st in enumerate(blk) if st is cur][0]]
                            own = [x for x in cands if any(x['_node'] is st for st in before)]
                            if own:
                                return [own[-1]]
                    if up is fn:
                        break
                    cur = up
                return cands

            def add_key(m, var, k, v):
                for site in owner_sites(m, var):
                    site['keys'].append({'key': k, 'src': ast.unparse(v),
                                         'form': list(normal_form(v, params, assigns, key=k,
                                                                  facts=path_facts(fn, m, par))),
                                         'line': m.lineno})

            vars_here = {x['var'] for x in sites_here}
            for m in ast.walk(fn):
                if isinstance(m, ast.Assign):
                    for tg in m.targets:                      # chained targets: X['a'] = X['b'] = e
                        if isinstance(tg, ast.Subscript) and isinstance(tg.value, ast.Name) and tg.value.id in vars_here:
                            k = tg.slice
                            if isinstance(k, ast.Constant) and isinstance(k.value, str):
                                add_key(m, tg.value.id, k.value, m.value)
                            else:
                                problems.append('%s:%s: non-literal key on %s' % (rel, fn.name, tg.value.id))
                elif isinstance(m, (ast.AugAssign, ast.Delete, ast.AnnAssign)):
                    tgs = m.targets if isinstance(m, ast.Delete) else [m.target]
                    for tg in tgs:
                        if isinstance(tg, ast.Subscript) and isinstance(tg.value, ast.Name) and tg.value.id in vars_here:
                            problems.append('%s:%s: %s changes a key of %s in a way the table does not follow'
                                            % (rel, fn.name, type(m).__name__, tg.value.id))
                elif isinstance(m, ast.Call) and isinstance(m.func, ast.Attribute) \
                        and isinstance(m.func.value, ast.Name) and m.func.value.id in vars_here:
                    var = m.func.value.id
                    if m.func.attr == 'update':
                        arg = m.args[0] if m.args else None
                        pairs = None
                        if isinstance(arg, ast.Call) and isinstance(arg.func, ast.Name) and arg.func.id == 'dict' \
                                and not arg.args and all(kw.arg for kw in arg.keywords):
                            pairs = [(kw.arg, kw.value) for kw in arg.keywords]
                        elif isinstance(arg, ast.Dict) and all(isinstance(k, ast.Constant) and isinstance(k.value, str)
                                                               for k in arg.keys):
                            pairs = [(k.value, v) for k, v in zip(arg.keys, arg.values)]
                        if pairs is None or m.keywords or len(m.args) != 1:
                            for site in owner_sites(m, var):
                                site['updates'].append(ast.unparse(arg) if arg is not None else ast.unparse(m))
                        else:
                            for k, v in pairs:
                                add_key(m, var, k, v)
                    elif m.func.attr in ('relate', 'unrelate'):
                        for site in owner_sites(m, var):
                            site['relates'].append([m.func.attr, ast.unparse(m.args[0]), ast.unparse(m.args[1])])
                    elif m.func.attr in ('setdefault', 'pop', 'popitem', 'clear', '__setitem__', '__delitem__'):
                        problems.append('%s:%s: %s.%s(..) changes the entry in a way the table does not follow'
                                        % (rel, fn.name, var, m.func.attr))
            for site in sites_here:
                del site['_node']
            sites += sites_here
    # a category parametrised by a parameter: one row per literal value the callers pass
    out = []
    for site in sites:
        tp = site.pop('template')
        if tp is None:
            out.append(site)
            continue
        fmt, pname = tp
        pos = site['params'].index(pname)
        vals = []
        for rel, tree in trees.items():
            for x in ast.walk(tree):
                if isinstance(x, ast.Call) and isinstance(x.func, ast.Attribute) and x.func.attr == site['func']:
                    a = x.args[pos] if len(x.args) > pos else next((kw.value for kw in x.keywords if kw.arg == pname), None)
                    if isinstance(a, ast.Constant) and isinstance(a.value, str):
                        vals.append(a.value)
                    else:
                        problems.append('%s: a call of %s passes a non-literal %s' % (rel, site['func'], pname))
        if not vals:
            problems.append('%s:%s: no caller found for the parametrised category' % (site['file'], site['func']))
        for v in sorted(set(vals)):
            out.append(dict(site, category=fmt % v, keys=list(site['keys'])))
    return out, problems


# ---------------------------------------------------------------- discriminators (a key computed two ways) / leaked loop variables
def _bindings(fns, name):
    """every statement of the functions `fns` (innermost first) that binds `name`, as text with the if-tests guarding it"""
    out = []
    for fn in fns:
        par = _parents(fn)
        inner = set()
        for f2 in ast.walk(fn):
            if isinstance(f2, (ast.FunctionDef, ast.Lambda)) and f2 is not fn:
                inner.update(id(x) for x in ast.walk(f2) if x is not f2)
        for n in ast.walk(fn):
            if id(n) in inner:
                continue
            tgs = []
            if isinstance(n, ast.Assign):
                tgs = n.targets
            elif isinstance(n, (ast.AugAssign, ast.AnnAssign, ast.For, ast.NamedExpr)):
                tgs = [n.target]
            elif isinstance(n, ast.With):
                tgs = [i.optional_vars for i in n.items if i.optional_vars is not None]
            if not any(isinstance(x, ast.Name) and x.id == name for t in tgs for x in ast.walk(t)):
                continue
            guards, tests, cur = [], [], n
            while id(cur) in par and cur is not fn:
                up = par[id(cur)]
                if isinstance(up, ast.If):
                    tests.append(up.test)          # the binding depends on what the test reads
                    guards.append(('if ' if any(cur is st for st in up.body) else 'unless ') + ast.unparse(up.test))
                elif isinstance(up, (ast.For, ast.While)):
                    guards.append('in-loop ' + (ast.unparse(up.target) if isinstance(up, ast.For) else ast.unparse(up.test)))
                elif isinstance(up, ast.Try):
                    guards.append('in-try')
                cur = up
            if isinstance(n, ast.For):
                txt = 'for %s in %s' % (ast.unparse(n.target), ast.unparse(n.iter))
                rhs = [n.iter]
            elif isinstance(n, ast.With):
                txt = 'with ' + ', '.join(ast.unparse(i) for i in n.items)
                rhs = [i.context_expr for i in n.items]
            else:
                txt = ast.unparse(n)
                rhs = [n.value] if getattr(n, 'value', None) is not None else []
            out.append(('; '.join(reversed(guards)) + (': ' if guards else '') + txt, rhs + tests))
        if out:
            break           # the innermost function that binds the name (a closure reads the enclosing binding otherwise)
    return out


def disc_slice(fns, expr, depth=0, seen=None):
    """(text, roots): the expression together with every binding of the local names it reads, transitively; roots = the names
    it finally depends on that no statement binds (parameters, globals)"""
    seen = set() if seen is None else seen
    lines, roots = [ast.unparse(expr)], set()
    for nm in _names(expr):
        if nm in seen:
            continue
        bs = _bindings(fns, nm)
        if not bs or depth >= 4:
            roots.add(nm)
            continue
        seen = seen | {nm}
        selfref = False
        for txt, rhs in bs:
            lines.append('  ' * (depth + 1) + txt)
            for r in rhs:
                if nm in _names(r):
                    selfref = True
                t2, r2 = disc_slice(fns, r, depth + 1, seen)
                lines += t2[1:]
                roots |= r2
        isparam = any(nm in [x.arg for x in f.args.posonlyargs + f.args.args + f.args.kwonlyargs] for f in fns)
        if selfref or isparam:
            roots.add(nm)           # `name = name + '/'`: still the parameter
    if depth == 0:
        seen_l, out_l = set(), []
        for l in lines:
            if l not in seen_l:
                seen_l.add(l)
                out_l.append(l)
        lines = out_l
    return lines, roots


def _action_calls(outer):
    out = []
    for n in ast.walk(outer):
        if isinstance(n, ast.Call) and isinstance(n.func, ast.Attribute) and n.func.attr == 'action' \
                and isinstance(n.func.value, ast.Name) and n.func.value.id in ('self', 'config'):
            d = n.args[0] if n.args else next((kw.value for kw in n.keywords if kw.arg == 'discriminator'), None)
            intrs = next((kw.value for kw in n.keywords if kw.arg == 'introspectables'), None)
            out.append((n, d, intrs))
    return sorted(out, key=lambda t: (t[0].lineno, t[0].col_offset))


def _is_none(e):
    return e is None or (isinstance(e, ast.Constant) and e.value is None)


def leaked_loop_vars(fn):
    """names bound by a `for` target of fn (closures excluded) and READ outside every loop that binds them, while nothing
    else binds them outside those loops: after the loop such a name is the LAST element (or unbound)"""
    inner = set()
    for f2 in ast.walk(fn):
        if isinstance(f2, (ast.FunctionDef, ast.Lambda, ast.ListComp, ast.SetComp, ast.DictComp, ast.GeneratorExp)) and f2 is not fn:
            inner.update(id(x) for x in ast.walk(f2) if x is not f2)
    loops = {}
    for n in ast.walk(fn):
        if isinstance(n, ast.For) and id(n) not in inner:
            for x in ast.walk(n.target):
                if isinstance(x, ast.Name):
                    loops.setdefault(x.id, []).append(n)
    out = []
    params = {x.arg for x in fn.args.posonlyargs + fn.args.args + fn.args.kwonlyargs}
    for nm, ls in sorted(loops.items()):
        inside = set()
        for l in ls:
            inside.update(id(x) for x in ast.walk(l))
        uses = [x for x in ast.walk(fn) if isinstance(x, ast.Name) and x.id == nm and id(x) not in inside]
        # closures / comprehensions reading the name after the loop count as reads too (late binding)
        reads = [x for x in uses if isinstance(x.ctx, ast.Load)]
        binds = [x for x in uses if isinstance(x.ctx, ast.Store) and id(x) not in inner]
        if reads and not binds and nm not in params:
            out.append((nm, min(x.lineno for x in reads)))
    return out


# actions without a discriminator beside discriminated ones that only VALIDATE (register nothing): (directive, callable)
VALIDATION_ONLY = {('SecurityConfiguratorMixin.set_authorization_policy', 'ensure')}


def _all_params(fns):
    out = set()
    for f in fns:
        a = f.args
        out.update(x.arg for x in a.posonlyargs + a.args + a.kwonlyargs)
        if a.vararg:
            out.add(a.vararg.arg)
        if a.kwarg:
            out.add(a.kwarg.arg)
    return out


def disc_facts(src_root):
    """-> (rows, problems).  One row per introspectable site: the slice of its discriminator, the slice of the discriminator
    of every action its directive issues, and the root names both depend on.  Structural facts (fail-closed):
      * a directive that issues two or more actions gives each of them a discriminator (an overridden statement is dropped
        as a whole by conflict resolution, never half of it);
      * no loop variable of an entry-building function is read outside its loop."""
    rows, problems = [], []
    for base in FILES:
        rel = 'pyramid/config/%s.py' % base
        try:
            tree = ast.parse(open(os.path.join(src_root, rel)).read())
        except (OSError, SyntaxError) as e:
            problems.append('cannot parse %s: %s' % (rel, e))
            continue
        quals = _quals(tree)
        done_outer = set()
        for fn in [n for n in ast.walk(tree) if isinstance(n, ast.FunctionDef)]:
            inner = set()
            for f2 in ast.walk(fn):
                if isinstance(f2, ast.FunctionDef) and f2 is not fn:
                    inner.update(id(x) for x in ast.walk(f2))
            calls = [n for n in ast.walk(fn) if id(n) not in inner and isinstance(n, ast.Assign) and isinstance(n.value, ast.Call)
                     and isinstance(n.value.func, ast.Attribute) and n.value.func.attr == 'introspectable'
                     and len(n.targets) == 1 and isinstance(n.targets[0], ast.Name) and len(n.value.args) >= 2]
            if not calls:
                continue
            qual, chain = quals[id(fn)]
            outer = chain[0] if chain else fn
            fns = [fn] + list(reversed(chain))
            for nm, line in leaked_loop_vars(fn):
                problems.append('%s:%s: the loop variable %s is read outside its loop (line %d): there it is the LAST element, '
                                'whatever the entry being built' % (rel, qual, nm, line))
            acts = _action_calls(outer)
            if id(outer) not in done_outer:
                done_outer.add(id(outer))
                if len(acts) >= 2:
                    for a, d, intrs in acts:
                        cb = a.args[1] if len(a.args) > 1 else next((kw.value for kw in a.keywords if kw.arg == 'callable'), None)
                        if _is_none(d) and (quals[id(outer)][0], ast.unparse(cb) if cb is not None else '') in VALIDATION_ONLY:
                            continue
                        if _is_none(d):
                            problems.append('%s:%s issues %d actions and the one at line %d has no discriminator: conflict '
                                            'resolution would drop only part of an overridden statement'
                                            % (rel, quals[id(outer)][0], len(acts), a.lineno))
            act_rows = []
            for a, d, intrs in acts:
                if _is_none(d):
                    act_rows.append({'text': ['None'], 'roots': [], 'none': True,
                                     'carries': _names(intrs) if intrs is not None else []})
                else:
                    t, r = disc_slice([outer], d)
                    act_rows.append({'text': t, 'roots': sorted(r), 'none': False,
                                     'carries': _names(intrs) if intrs is not None else []})
            for n in calls:
                var = n.targets[0].id
                t, r = disc_slice(fns, n.value.args[1])
                cat = n.value.args[0]
                ps = _all_params(fns)
                carrying = [a_ for a_ in act_rows if a_['carries']]
                rows.append({'site': '%s:%s.%s' % (rel, qual, var), 'line': n.lineno,
                             'category': ast.unparse(cat), 'intr': t, 'intr_roots': sorted(r),
                             'intr_none': _is_none(n.value.args[1]), 'actions': act_rows,
                             # parameters the discriminators of the actions that carry entries depend on
                             'action_param_roots': sorted({x for a_ in carrying for x in a_['roots'] if x in ps})})
    # two sites of one function may share a variable name (exclusive branches): number them
    seen = {}
    for r_ in rows:
        k = r_['site']
        seen[k] = seen.get(k, 0) + 1
        if seen[k] > 1:
            r_['site'] = '%s#%d' % (k, seen[k])
    return rows, problems


if __name__ == '__main__':
    import sys
    if '--write-disc-pins' in sys.argv:
        import json
        rows, problems = disc_facts(sys.argv[1])
        with open(os.path.join(os.path.dirname(os.path.abspath(__file__)), 'pins_discriminators.json'), 'w') as f:
            json.dump({r['site']: {'entry': r['intr'], 'actions': [a['text'] for a in r['actions']]} for r in rows}, f, indent=1)
        print('wrote %d rows; problems: %s' % (len(rows), problems))
        sys.exit(0)
    sites, problems = extract(sys.argv[1])
    for s in sites:
        print('%s %s.%s [%s] disc=%s' % (s['file'].split('/')[-1], s['func'], s['var'], s['category'], s['discriminator']))
        for k in s['keys']:
            flag = ''
            if k['key'] in s['params'] and k['form'][-1] != k['key']:
                flag = '   <<<<<< MISMATCH'
            print('     %-22s = %-40s %s%s' % (k['key'], k['src'][:40], k['form'], flag))
        for u in s['updates']:
            print('     update(%s)' % u)
        for r in s['relates']:
            print('     %s' % r)
    print(problems)
