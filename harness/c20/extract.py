"""Regenerated introspectable tables: one record per `X = <cfg>.introspectable(...)` site."""
import ast
import os

FILES = ['adapters', 'assets', 'factories', 'i18n', 'predicates', 'rendering', 'routes', 'security',
         'tweens', 'views']


def _params(fn):
    a = fn.args
    names = [x.arg for x in a.posonlyargs + a.args + a.kwonlyargs]
    if a.vararg:
        names.append(a.vararg.arg)
    if a.kwarg:
        names.append(a.kwarg.arg)
    return [n for n in names if n not in ('self', 'config')]


def _names(e):
    return sorted({n.id for n in ast.walk(e) if isinstance(n, ast.Name)})


def _assigns(fn):
    """name -> list of rhs expressions assigned anywhere in fn (plain Name targets only)."""
    out = {}
    for n in ast.walk(fn):
        if isinstance(n, ast.Assign):
            for t in n.targets:
                if isinstance(t, ast.Name):
                    out.setdefault(t.id, []).append(n.value)
                elif isinstance(t, ast.Tuple):
                    for el in t.elts:
                        if isinstance(el, ast.Name):
                            out.setdefault(el.id, []).append(n.value)
        elif isinstance(n, ast.AugAssign) and isinstance(n.target, ast.Name):
            out.setdefault(n.target.id, []).append(n.value)
    return out


def _callname(c):
    f = c.func
    if isinstance(f, ast.Name):
        return f.id
    if isinstance(f, ast.Attribute):
        return f.attr
    return '?'


def normal_form(expr, params, assigns, depth=0):
    """-> ('arg', p) | ('norm', f, p) | ('const', repr) | ('other', src)"""
    src = ast.unparse(expr)
    if isinstance(expr, ast.Constant):
        return ('const', repr(expr.value))
    if isinstance(expr, ast.Name):
        nm = expr.id
        rhss = assigns.get(nm, [])
        if nm in params:
            if not rhss:
                return ('arg', nm)
            # re-assigned parameter: every rhs must be a normalisation of itself
            fs = []
            for r in rhss:
                if isinstance(r, ast.Call) and nm in _names(r) and all(
                        x == nm or x not in params for x in _names(r)):
                    fs.append(_callname(r))
                elif isinstance(r, ast.Constant) or (isinstance(r, (ast.List, ast.Tuple, ast.Dict)) and not _names(r)):
                    fs.append('default')
                elif isinstance(r, ast.Name) and r.id not in params:
                    fs.append('default')
                else:
                    fs.append('expr')
            return ('norm', '+'.join(sorted(set(fs))), nm)
        if len(rhss) == 1 and depth < 3:
            inner = normal_form(rhss[0], params, assigns, depth + 1)
            if inner[0] in ('arg', 'norm'):
                return ('norm', 'local:' + nm + ('' if inner[0] == 'arg' else ':' + inner[1]), inner[-1])
        return ('other', src)
    if isinstance(expr, ast.Call):
        ps = [x for x in _names(expr) if x in params]
        if len(ps) == 1:
            return ('norm', _callname(expr), ps[0])
    ps = [x for x in _names(expr) if x in params]
    if len(ps) == 1:
        return ('norm', 'expr', ps[0])
    return ('other', src)


def documented(repo_root):
    """docs/narr/introspector.rst -> {category: [documented keys]} (headings at column 0 / 2)."""
    import re
    cats, cur = {}, None
    generic = {'title', 'category_name', 'discriminator', 'discriminator_hash', 'type_name', 'action_info'}
    with open(os.path.join(repo_root, 'docs', 'narr', 'introspector.rst')) as f:
        for line in f:
            m = re.match(r'^``([^`]+)``\s*$', line)
            if m:
                cur = m.group(1)
                if cur not in generic:
                    cats[cur] = []
                else:
                    cur = None
                continue
            m = re.match(r'^  ``([^`]+)``\s*$', line)
            if m and cur:
                cats[cur].append(m.group(1))
    return cats


def extract(src_root):
    sites, problems = [], []
    for base in FILES:
        rel = 'pyramid/config/%s.py' % base
        path = os.path.join(src_root, rel)
        try:
            tree = ast.parse(open(path).read())
        except (OSError, SyntaxError) as e:
            problems.append('cannot parse %s: %s' % (rel, e))
            continue
        funcs = [n for n in ast.walk(tree) if isinstance(n, (ast.FunctionDef,))]
        # innermost enclosing function for every introspectable(...) call
        for fn in funcs:
            inner_funcs = [n for n in ast.walk(fn) if isinstance(n, ast.FunctionDef) and n is not fn]
            inner_nodes = set()
            for f2 in inner_funcs:
                inner_nodes.update(id(x) for x in ast.walk(f2))
            params = _params(fn)
            assigns = _assigns(fn)
            for n in ast.walk(fn):
                if id(n) in inner_nodes:
                    continue
                if isinstance(n, ast.Assign) and isinstance(n.value, ast.Call) \
                        and isinstance(n.value.func, ast.Attribute) and n.value.func.attr == 'introspectable' \
                        and len(n.targets) == 1 and isinstance(n.targets[0], ast.Name):
                    var = n.targets[0].id
                    call = n.value
                    if len(call.args) != 4 or call.keywords:
                        problems.append('%s:%s: introspectable() call with unexpected arguments' % (rel, fn.name))
                        continue
                    cat = call.args[0]
                    if not (isinstance(cat, ast.Constant) and isinstance(cat.value, str)):
                        problems.append('%s:%s: category is not a string literal' % (rel, fn.name))
                        continue
                    site = {'file': rel, 'func': fn.name, 'var': var, 'category': cat.value,
                            'discriminator': ast.unparse(call.args[1]), 'title': ast.unparse(call.args[2]),
                            'type_name': ast.unparse(call.args[3]), 'params': params, 'keys': [],
                            'updates': [], 'relates': [], 'line': n.lineno}
                    # all uses of var inside fn (including closures such as register())
                    for m in ast.walk(fn):
                        if isinstance(m, ast.Assign) and len(m.targets) == 1 and isinstance(m.targets[0], ast.Subscript) \
                                and isinstance(m.targets[0].value, ast.Name) and m.targets[0].value.id == var:
                            k = m.targets[0].slice
                            if isinstance(k, ast.Constant) and isinstance(k.value, str):
                                site['keys'].append({'key': k.value, 'src': ast.unparse(m.value),
                                                     'form': list(normal_form(m.value, params, assigns)),
                                                     'line': m.lineno})
                            else:
                                problems.append('%s:%s: non-literal key on %s' % (rel, fn.name, var))
                        elif isinstance(m, ast.Call) and isinstance(m.func, ast.Attribute) \
                                and isinstance(m.func.value, ast.Name) and m.func.value.id == var:
                            if m.func.attr == 'update':
                                arg = m.args[0] if m.args else None
                                pairs = None
                                if isinstance(arg, ast.Call) and isinstance(arg.func, ast.Name) and arg.func.id == 'dict' \
                                        and not arg.args and all(kw.arg for kw in arg.keywords):
                                    pairs = [(kw.arg, kw.value) for kw in arg.keywords]
                                elif isinstance(arg, ast.Dict) and all(isinstance(k, ast.Constant) and isinstance(k.value, str)
                                                                       for k in arg.keys):
                                    pairs = [(k.value, v) for k, v in zip(arg.keys, arg.values)]
                                if pairs is None:
                                    site['updates'].append(ast.unparse(arg) if arg is not None else ast.unparse(m))
                                else:
                                    for k, v in pairs:
                                        site['keys'].append({'key': k, 'src': ast.unparse(v),
                                                             'form': list(normal_form(v, params, assigns)),
                                                             'line': m.lineno})
                            elif m.func.attr in ('relate', 'unrelate'):
                                site['relates'].append([m.func.attr, ast.unparse(m.args[0]), ast.unparse(m.args[1])])
                    sites.append(site)
    # several sites may share (func, var) when a variable is rebound (factories.py): keep them distinct by line
    return sites, problems


if __name__ == '__main__':
    import sys
    sites, problems = extract(sys.argv[1])
    for s in sites:
        print('%s %s.%s [%s] disc=%s' % (s['file'].split('/')[-1], s['func'], s['var'], s['category'], s['discriminator']))
        for k in s['keys']:
            flag = ''
            if k['key'] in s['params'] and k['form'][-1] != k['key']:
                flag = '   <<<<<< MISMATCH'
            print('     %-22s = %-40s %s%s' % (k['key'], k['src'][:40], k['form'], flag))
        for u in s['updates']:
            print('     update(%s)' % u)
        for r in s['relates']:
            print('     %s' % r)
    print(problems)
