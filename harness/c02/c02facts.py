"""Facts extractor for C02: reads src/pyramid/traversal.py with the ast module.

Value facts (emitted as Coq definitions, used by Model/C02.v):
  view_selector, selector_len         VIEW_SELECTOR and the k of `segment[:k] == view_selector`
  ret_selector/noitem/keyerror/final  the four returned dictionaries, value expressions translated
                                      into Lib/C02Expr terms
  vpath_tuple_mode                    how vpath_tuple is computed (joined text / separate tuples)
  vroot_idx_off, vroot_idx_absent     `len(vroot_tuple) - 1` and `-1`
  path_segment_safe                   PATH_SEGMENT_SAFE
  lru sizes, VH_ROOT_KEY
Shape pins: pins.json for the helper functions.  ResourceTreeTraverser.__call__ and find_root are not pinned:
they are translated as a whole (translate.py: gen_call_preamble ; gen_call_tail, gen_find_root_c02).
"""
import ast
import copy
import json
import os

from harness.common import facts as F
from harness.c02 import translate

HERE = os.path.dirname(os.path.abspath(__file__))

DEFAULTS = {
    'view_selector': '@@', 'selector_len': 2,
    'ret_selector': 'mkRet ROb (SSegFrom 2) (TSliceFrom TVpath (IAdd IVarI (IConst 1))) '
                    '(TSliceTo TVpath (IAdd (IAdd IVrootIdx IVarI) (IConst 1))) RVroot TVrootTuple RRoot',
    'ret_noitem': 'mkRet ROb SSegment (TSliceFrom TVpath (IAdd IVarI (IConst 1))) '
                  '(TSliceTo TVpath (IAdd (IAdd IVrootIdx IVarI) (IConst 1))) RVroot TVrootTuple RRoot',
    'ret_keyerror': 'mkRet ROb SSegment (TSliceFrom TVpath (IAdd IVarI (IConst 1))) '
                    '(TSliceTo TVpath (IAdd (IAdd IVrootIdx IVarI) (IConst 1))) RVroot TVrootTuple RRoot',
    'ret_final': 'mkRet ROb (SConst []%N) TSubpath TVpath RVroot TVrootTuple RRoot',
    'vpath_tuple_mode': 'VSeparate', 'vroot_idx_off': -1, 'vroot_idx_absent': -1,
    'path_segment_safe': "~!$&'()*+,;=:@", 'lru_split_path_info': 1000, 'lru_traversal_path_info': 1000,
    'lru_join_path_tuple': 1000, 'vh_root_key': 'HTTP_X_VHM_ROOT',
    'ret_keys': ['context', 'view_name', 'subpath', 'traversed', 'virtual_root', 'virtual_root_path', 'root'],
    'router_root_key': 'root', 'router_updates_attrs': True,
}

KEYS = ['context', 'view_name', 'subpath', 'traversed', 'virtual_root', 'virtual_root_path', 'root']
KIND = {'context': 'r', 'virtual_root': 'r', 'root': 'r', 'view_name': 's',
        'subpath': 't', 'traversed': 't', 'virtual_root_path': 't'}


class Unknown(Exception):
    pass


def zlit(n):
    return '(%d)' % n if n < 0 else '%d' % n


def iexp(e):
    if isinstance(e, ast.Constant) and isinstance(e.value, int) and not isinstance(e.value, bool):
        return '(IConst %s)' % zlit(e.value)
    if isinstance(e, ast.UnaryOp) and isinstance(e.op, ast.USub) and isinstance(e.operand, ast.Constant) \
            and isinstance(e.operand.value, int):
        return '(IConst %s)' % zlit(-e.operand.value)
    if isinstance(e, ast.Name) and e.id == 'i':
        return 'IVarI'
    if isinstance(e, ast.Name) and e.id == 'vroot_idx':
        return 'IVrootIdx'
    if isinstance(e, ast.BinOp) and isinstance(e.op, ast.Add):
        return '(IAdd %s %s)' % (iexp(e.left), iexp(e.right))
    if isinstance(e, ast.BinOp) and isinstance(e.op, ast.Sub):
        return '(ISub %s %s)' % (iexp(e.left), iexp(e.right))
    raise Unknown('integer expression %s' % ast.unparse(e))


def texp(e):
    if isinstance(e, ast.Name) and e.id in ('vpath_tuple', 'subpath', 'vroot_tuple'):
        return {'vpath_tuple': 'TVpath', 'subpath': 'TSubpath', 'vroot_tuple': 'TVrootTuple'}[e.id]
    if isinstance(e, ast.Tuple) and not e.elts:
        return 'TEmpty'
    if isinstance(e, ast.Subscript) and isinstance(e.slice, ast.Slice) and e.slice.step is None:
        lo, hi = e.slice.lower, e.slice.upper
        if lo is not None and hi is None:
            return '(TSliceFrom %s %s)' % (texp(e.value), iexp(lo))
        if lo is None and hi is not None:
            return '(TSliceTo %s %s)' % (texp(e.value), iexp(hi))
    raise Unknown('tuple expression %s' % ast.unparse(e))


SEG = ['segment']            # name of the walk loop's target (read off the source in extract())


def sexp(e):
    if isinstance(e, ast.Name) and e.id == SEG[0]:
        return 'SSegment'
    if isinstance(e, ast.Constant) and isinstance(e.value, str):
        return '(SConst %s)' % F.coq_text(e.value)
    if isinstance(e, ast.Subscript) and isinstance(e.value, ast.Name) and e.value.id == SEG[0] \
            and isinstance(e.slice, ast.Slice) and e.slice.step is None and e.slice.upper is None \
            and isinstance(e.slice.lower, ast.Constant) and isinstance(e.slice.lower.value, int):
        return '(SSegFrom %s)' % zlit(e.slice.lower.value)
    raise Unknown('string expression %s' % ast.unparse(e))


def rexp(e):
    if isinstance(e, ast.Name) and e.id in ('ob', 'vroot', 'root'):
        return {'ob': 'ROb', 'vroot': 'RVroot', 'root': 'RRoot'}[e.id]
    raise Unknown('resource expression %s' % ast.unparse(e))


def retdict(d):
    if not isinstance(d, ast.Dict):
        raise Unknown('return value is not a dict literal')
    got = {}
    for k, v in zip(d.keys, d.values):
        if not (isinstance(k, ast.Constant) and isinstance(k.value, str)):
            raise Unknown('non-literal key')
        got[k.value] = v
    if sorted(got) != sorted(KEYS):
        raise Unknown('keys %r' % sorted(got))
    parts = []
    for k in KEYS:
        parts.append({'r': rexp, 's': sexp, 't': texp}[KIND[k]](got[k]))
    return 'mkRet ' + ' '.join(parts)


def dict_key_order(d):
    return [k.value for k in d.keys]


HOLE = ast.Constant(value='<<fact>>')


def extract(src_root):
    """-> (values dict, problems list, skeleton hash or None)"""
    vals = dict(DEFAULTS)
    problems = []
    skeleton = None
    try:
        m = F.Module(src_root, 'pyramid/traversal.py')
    except Exception as e:
        return vals, ['cannot parse pyramid/traversal.py: %r' % e], None

    def attempt(name, fn):
        try:
            vals[name] = fn()
        except Exception as e:
            problems.append('fact %s unrecognised: %s' % (name, e))

    attempt('path_segment_safe', lambda: _str(m.const('PATH_SEGMENT_SAFE')))

    def lru(fname, may_be_plain=False):
        node = m.find(fname)
        if node is not None and may_be_plain and not node.decorator_list:
            return 0            # not memoised at all: a memo table bounded by 0 entries never holds anything
        if node is None or len(node.decorator_list) != 1:
            raise Unknown('decorators of %s' % fname)
        d = node.decorator_list[0]
        if isinstance(d, ast.Call) and isinstance(d.func, ast.Name) and d.func.id == 'lru_cache' \
                and len(d.args) == 1 and isinstance(d.args[0], ast.Constant) and isinstance(d.args[0].value, int) \
                and not d.keywords:
            return d.args[0].value
        raise Unknown('decorator of %s: %s' % (fname, ast.unparse(d)))
    attempt('lru_split_path_info', lambda: lru('split_path_info'))
    attempt('lru_traversal_path_info', lambda: lru('traversal_path_info'))
    # since the repair 883ea66 _join_path_tuple is a plain function (the tuple-level lru collided on 1 / 1.0 / True);
    # both texts are recognised, the bound 0 stands for "no memoisation"
    attempt('lru_join_path_tuple', lambda: lru('_join_path_tuple', may_be_plain=True))

    try:
        mi = F.Module(src_root, 'pyramid/interfaces.py')
        vals['vh_root_key'] = _str(mi.const('VH_ROOT_KEY'))
    except Exception as e:
        problems.append('fact vh_root_key unrecognised: %r' % e)

    cls = m.find('ResourceTreeTraverser')
    call = m.find('ResourceTreeTraverser.__call__')
    if cls is None or call is None:
        problems.append('ResourceTreeTraverser.__call__ not found')
        return vals, problems, None

    def selector():
        for st in cls.body:
            if isinstance(st, ast.Assign) and len(st.targets) == 1 and isinstance(st.targets[0], ast.Name) \
                    and st.targets[0].id == 'VIEW_SELECTOR':
                return _str(ast.literal_eval(st.value))
        raise Unknown('VIEW_SELECTOR')
    attempt('view_selector', selector)

    call2 = copy.deepcopy(call)
    fors = [n for n in ast.walk(call2) if isinstance(n, ast.For) and isinstance(n.target, ast.Name)
            and ast.unparse(n.iter) == 'vpath_tuple']
    SEG[0] = fors[0].target.id if len(fors) == 1 else 'segment'
    try:
        rets = [n for n in ast.walk(call2) if isinstance(n, ast.Return)]
        rets.sort(key=lambda n: (n.lineno, n.col_offset))
        if len(rets) != 4:
            raise Unknown('%d return statements' % len(rets))
        for name, r in zip(['ret_selector', 'ret_noitem', 'ret_keyerror', 'ret_final'], rets):
            try:
                vals[name] = retdict(r.value)
                order = dict_key_order(r.value)
                if name == 'ret_selector':
                    vals['ret_keys'] = order
                elif order != vals['ret_keys']:
                    raise Unknown('key order differs between the returned dictionaries')
                r.value.values = [HOLE for _ in r.value.values]
            except Unknown as e:
                problems.append('fact %s unrecognised: %s' % (name, e))
    except Unknown as e:
        problems.append('return dictionaries unrecognised: %s' % e)

    # `if segment[:K] == view_selector:`
    def sel_len():
        def is_slice(x):
            return isinstance(x, ast.Subscript) and isinstance(x.value, ast.Name) and x.value.id == SEG[0] \
                and isinstance(x.slice, ast.Slice) and x.slice.lower is None and x.slice.step is None \
                and isinstance(x.slice.upper, ast.Constant) and isinstance(x.slice.upper.value, int)

        def is_sel(x):
            return (isinstance(x, ast.Name) and x.id == 'view_selector') or ast.unparse(x) == 'self.VIEW_SELECTOR'
        hits = []
        for n in ast.walk(call2):
            if isinstance(n, ast.Compare) and len(n.ops) == 1 and isinstance(n.ops[0], ast.Eq):
                l, r = n.left, n.comparators[0]
                if is_slice(l) and is_sel(r):
                    hits.append(l)
                elif is_slice(r) and is_sel(l):
                    hits.append(r)
        if len(hits) != 1:
            raise Unknown('selector test (%d candidates)' % len(hits))
        k = hits[0].slice.upper.value
        hits[0].slice.upper = HOLE
        return k
    attempt('selector_len', sel_len)

    # vpath_tuple = ... inside the loop branch; vroot_idx = ...
    def assigns(name):
        return [n for n in ast.walk(call2) if isinstance(n, ast.Assign) and len(n.targets) == 1
                and isinstance(n.targets[0], ast.Name) and n.targets[0].id == name]

    def mode():
        cands = [a for a in assigns('vpath_tuple') if not (isinstance(a.value, ast.Tuple) and not a.value.elts)]
        if len(cands) != 1:
            raise Unknown('vpath_tuple assignment (%d candidates)' % len(cands))
        txt = ast.unparse(cands[0].value)
        cands[0].value = HOLE
        if txt == 'split_path_info(vpath)':
            return 'VJoined'
        if txt == 'vroot_tuple + split_path_info(path)':
            return 'VSeparate'
        raise Unknown('vpath_tuple = %s' % txt)
    attempt('vpath_tuple_mode', mode)

    def vidx():
        a = assigns('vroot_idx')
        if len(a) != 2:
            raise Unknown('vroot_idx assignments')
        # one of the two is `len(vroot_tuple) +- k` (header present), the other an int literal (header absent),
        # in either textual order
        a.sort(key=lambda n: 0 if isinstance(n.value, ast.BinOp) else 1)
        t0 = ast.unparse(a[0].value)
        e0 = a[0].value
        if not (isinstance(e0, ast.BinOp) and isinstance(e0.op, (ast.Sub, ast.Add)) and ast.unparse(e0.left) == 'len(vroot_tuple)'
                and isinstance(e0.right, ast.Constant) and isinstance(e0.right.value, int)):
            raise Unknown('vroot_idx = %s' % t0)
        off = e0.right.value if isinstance(e0.op, ast.Add) else -e0.right.value
        absent = ast.literal_eval(a[1].value)
        if not isinstance(absent, int) or isinstance(absent, bool):
            raise Unknown('vroot_idx = %s' % ast.unparse(a[1].value))
        a[0].value = HOLE
        a[1].value = HOLE
        return off, absent
    try:
        vals['vroot_idx_off'], vals['vroot_idx_absent'] = vidx()
    except Exception as e:
        problems.append('fact vroot_idx unrecognised: %s' % e)

    try:
        # only the PREAMBLE of __call__ (the statements before `root = self.root`: match dictionary / PATH_INFO /
        # virtual-root header plumbing) is still pinned; everything from there on is translated (translate.py)
        idx = [i for i, st in enumerate(call2.body) if ast.unparse(st) == 'root = self.root']
        if len(idx) != 1:
            raise Unknown('`root = self.root` not found exactly once at the top level of __call__')
        skeleton = F.shape(ast.Module(body=call2.body[:idx[0]], type_ignores=[]))
    except Exception as e:
        problems.append('cannot hash the preamble of __call__: %s' % e)
    router_skel = None
    try:
        router_skel = extract_router(src_root, vals)
    except Exception as e:
        problems.append('Router.handle_request traversal part unrecognised: %s' % e)
    return vals, problems, {'call': skeleton, 'router': router_skel}


def extract_router(src_root, vals):
    """Router.handle_request: the statements from `root = root_factory(request)` to
    `attrs.update(tdict)` -> shape hash of that slice; facts: the key of `attrs[KEY] = root`,
    and that the dictionary is copied with attrs.update(tdict) where attrs = request.__dict__."""
    m = F.Module(src_root, 'pyramid/router.py')
    fn = m.find('Router.handle_request')
    if fn is None:
        raise Unknown('Router.handle_request not found')
    body = fn.body
    txt = [ast.unparse(st) for st in body]
    if 'attrs = request.__dict__' not in txt:
        raise Unknown('attrs = request.__dict__ not found')
    try:
        a0 = txt.index('root_factory = self.root_factory')
        a = txt.index('root = root_factory(request)')
        b = txt.index('attrs.update(tdict)')
    except ValueError:
        raise Unknown('root_factory = self.root_factory ... root = root_factory(request) ... attrs.update(tdict) '
                      'not found at the top level')
    if not a0 < a < b:
        raise Unknown('statement order')
    sl = body[a:b + 1]
    key = None
    for st in sl:
        if isinstance(st, ast.Assign) and len(st.targets) == 1 and isinstance(st.targets[0], ast.Subscript) \
                and ast.unparse(st.targets[0].value) == 'attrs' and ast.unparse(st.value) == 'root' \
                and isinstance(st.targets[0].slice, ast.Constant) and isinstance(st.targets[0].slice.value, str):
            key = st.targets[0].slice.value
    if key is None:
        raise Unknown("attrs['root'] = root not found")
    if 'tdict = traverser(request)' not in [ast.unparse(st) for st in sl]:
        raise Unknown('tdict = traverser(request) not found')
    for st in body[a:]:
        for n in ast.walk(st):
            if isinstance(n, ast.Delete) or (isinstance(n, ast.Call) and ast.unparse(n.func) in ('attrs.pop', 'attrs.clear')):
                raise Unknown('attrs entries are removed after traversal')
    for st in body[b + 1:]:
        for n in ast.walk(st):
            tgts = []
            if isinstance(n, ast.Assign):
                tgts = n.targets
            elif isinstance(n, (ast.AugAssign, ast.AnnAssign)):
                tgts = [n.target]
            for t in tgts:
                if isinstance(t, ast.Subscript) and ast.unparse(t.value) == 'attrs' and isinstance(t.slice, ast.Constant) \
                        and t.slice.value in vals['ret_keys']:
                    raise Unknown('attrs[%r] is overwritten after attrs.update(tdict)' % t.slice.value)
                if isinstance(t, ast.Attribute) and ast.unparse(t.value) == 'request' and t.attr in vals['ret_keys']:
                    raise Unknown('request.%s is overwritten after attrs.update(tdict)' % t.attr)
    vals['router_root_key'] = key
    vals['router_updates_attrs'] = True
    # the pinned slice: route matching (which match dictionary / root factory the traverser gets) .. attrs.update(tdict),
    # with the `if debug_routematch:` logging blocks masked out
    class Mask(ast.NodeTransformer):
        def visit_If(self, n):
            if ast.unparse(n.test) == 'debug_routematch':
                return ast.Pass()
            return self.generic_visit(n)
    masked = [Mask().visit(copy.deepcopy(st)) for st in body[a0:b + 1]]
    return F.shape(ast.Module(body=masked, type_ignores=[]))


def _str(v):
    if not isinstance(v, str):
        raise Unknown('not a str literal: %r' % (v,))
    return v


def coq(vals):
    out = [F.HEADER, 'Require Import Verif.Lib.Text Verif.Lib.C02Expr Verif.Model.C02_base.\n']
    out.append('Definition view_selector : text := %s.\n' % F.coq_text(vals['view_selector']))
    out.append('Definition selector_len : Z := %s%%Z.\n' % zlit(vals['selector_len']))
    for k in ('ret_selector', 'ret_noitem', 'ret_keyerror', 'ret_final'):
        out.append('Definition %s : retdict := (%s)%%Z.\n' % (k, vals[k]))
    out.append('Definition vpath_tuple_mode : vpath_mode := %s.\n' % vals['vpath_tuple_mode'])
    out.append('Definition vroot_idx_off : Z := %s%%Z.\n' % zlit(vals['vroot_idx_off']))
    out.append('Definition vroot_idx_absent : Z := %s%%Z.\n' % zlit(vals['vroot_idx_absent']))
    out.append('Definition path_segment_safe : text := %s.\n' % F.coq_text(vals['path_segment_safe']))
    for k in ('lru_split_path_info', 'lru_traversal_path_info', 'lru_join_path_tuple'):
        out.append('Definition %s : nat := %d.\n' % (k, vals[k]))
    out.append('Definition vh_root_key : text := %s.\n' % F.coq_text(vals['vh_root_key']))
    out.append('Definition ret_keys : list text := %s.\n' % F.coq_texts(vals['ret_keys']))
    out.append('Definition router_root_key : text := %s.\n' % F.coq_text(vals['router_root_key']))
    out.append('Definition router_updates_attrs : bool := %s.\n' % F.coq_bool(vals['router_updates_attrs']))
    return ''.join(out)


TRAVERSAL_BINDINGS = {
    # names the pinned / translated functions of traversal.py resolve at module level
    'lru_cache': ['from functools import lru_cache'], 'unquote_to_bytes': ['from urllib.parse import unquote_to_bytes'],
    'url_quote': ['from pyramid.encode import url_quote'], 'URLDecodeError': ['from pyramid.exceptions import URLDecodeError'],
    'VH_ROOT_KEY': ['from pyramid.interfaces import VH_ROOT_KEY'],
    'IRequestFactory': ['from pyramid.interfaces import IRequestFactory'], 'ITraverser': ['from pyramid.interfaces import ITraverser'],
    'lineage': ['from pyramid.location import lineage'],
    'get_current_registry': ['from pyramid.threadlocal import get_current_registry'],
    'ascii_': ['from pyramid.util import ascii_'], 'is_nonstr_iter': ['from pyramid.util import is_nonstr_iter'],
    'text_': ['from pyramid.util import text_'],
    'find_root': ['def'], 'find_resource': ['def'], 'traverse': ['def'], 'traversal_path': ['def'],
    'traversal_path_info': ['def'], 'split_path_info': ['def'], 'decode_path_info': ['def'],
    'unquote_bytes_to_wsgi': ['def'], 'quote_path_segment': ['def'], '_join_path_tuple': ['def'],
    'ResourceTreeTraverser': ['class'], 'PATH_SEGMENT_SAFE': ['assign'], '_segment_cache': ['assign'],
    'find_model': ['assign'], 'ModelGraphTraverser': ['assign'],
}
MODULE_ASSIGNED = ('ModelGraphTraverser', 'PATH_SAFE', 'PATH_SEGMENT_SAFE', '_model_path_list', '_segment_cache',
                   'find_model', 'model_path', 'model_path_tuple')
BUILTINS_USED = ('str', 'bytes', 'tuple', 'len', 'isinstance', 'hasattr', 'KeyError', 'AttributeError',
                 'UnicodeDecodeError')


def check_environment(src_root, problems, summary):
    """fail-closed facts about what is NOT a function body: module-level bindings of traversal.py, the class body
    of ResourceTreeTraverser, the initial value of _segment_cache, encode._url_quote, URLDecodeError's base class"""
    try:
        m = F.Module(src_root, 'pyramid/traversal.py')
        binds = translate.module_bindings(m.tree)
        for nm, want in sorted(TRAVERSAL_BINDINGS.items()):
            if binds.get(nm, []) != want:
                problems.append('module-level binding of %s in traversal.py is %s, expected %s'
                                % (nm, binds.get(nm) or 'missing', want))
        # no module-level state beyond the known caches / constants / aliases: every name bound by an assignment (or
        # deleted) at module level of traversal.py is one of these (a new module-level variable could carry state
        # from one traversal into another, or into a traversal nested inside an item lookup)
        assigned = sorted(k for k, v in binds.items() if 'assign' in v or 'del' in v)
        if assigned != sorted(MODULE_ASSIGNED):
            problems.append('module-level assignments of traversal.py are %s, expected %s' % (assigned, sorted(MODULE_ASSIGNED)))
        for st in m.tree.body:
            if isinstance(st, (ast.Global, ast.Nonlocal)):
                problems.append('global statement at module level of traversal.py')
        for fn in ast.walk(m.tree):
            if isinstance(fn, ast.Global):
                problems.append('traversal.py: `global %s` inside a function' % ', '.join(fn.names))
        for nm in BUILTINS_USED:
            if binds.get(nm):
                problems.append('builtin %s is rebound at module level in traversal.py' % nm)
        for nm, txt in (('_segment_cache', '{}'), ('find_model', 'find_resource'),
                        ('ModelGraphTraverser', 'ResourceTreeTraverser')):
            try:
                got = ast.unparse(m.const_expr(nm))
            except KeyError:
                got = None
            if got != txt:
                problems.append('%s = %s at module level of traversal.py, expected %s' % (nm, got, txt))
        cls = m.find('ResourceTreeTraverser')
        if cls is not None:
            members = []
            for st in cls.body:
                if isinstance(st, ast.Expr) and isinstance(st.value, ast.Constant):
                    continue
                members.append(ast.unparse(st).split('\n')[0] if not isinstance(st, ast.FunctionDef)
                               else 'def ' + st.name)
            want = ['VH_ROOT_KEY = VH_ROOT_KEY', "VIEW_SELECTOR = %r" % ast.literal_eval(
                [st.value for st in cls.body if isinstance(st, ast.Assign) and ast.unparse(st.targets[0]) == 'VIEW_SELECTOR'][0]),
                'def __init__', 'def __call__']
            if members != want:
                problems.append('class body of ResourceTreeTraverser is %s, expected %s' % (members, want))
            decos = [ast.unparse(d) for d in cls.decorator_list]
            if decos != ['implementer(ITraverser)'] or cls.bases or cls.keywords:
                problems.append('ResourceTreeTraverser: decorators %s / bases / keywords changed' % decos)
            summary['pyramid/traversal.py:class ResourceTreeTraverser (body)'] = members
            # a traverser keeps no state across calls: __call__ never writes to self (attribute store, setattr,
            # __dict__, vars), declares no global / nonlocal, and has no mutable default argument
            for meth in [st for st in cls.body if isinstance(st, ast.FunctionDef) and st.name == '__call__']:
                for n in ast.walk(meth):
                    if isinstance(n, ast.Attribute) and isinstance(n.ctx, (ast.Store, ast.Del)):
                        problems.append('ResourceTreeTraverser.__call__ stores an attribute: %s' % ast.unparse(n))
                    if isinstance(n, (ast.Global, ast.Nonlocal)):
                        problems.append('ResourceTreeTraverser.__call__ declares global / nonlocal names')
                    if isinstance(n, ast.Call) and ast.unparse(n.func) in ('setattr', 'delattr', 'vars', 'object.__setattr__'):
                        problems.append('ResourceTreeTraverser.__call__ calls %s' % ast.unparse(n.func))
                    if isinstance(n, ast.Attribute) and n.attr == '__dict__' and ast.unparse(n.value) == 'self':
                        problems.append('ResourceTreeTraverser.__call__ touches self.__dict__')
                if meth.args.defaults or meth.args.kw_defaults:
                    problems.append('ResourceTreeTraverser.__call__ has default arguments')
    except Exception as e:
        problems.append('environment facts of traversal.py unrecognised: %r' % e)
    try:
        me = F.Module(src_root, 'pyramid/encode.py')
        b = translate.module_bindings(me.tree)
        if b.get('_url_quote') != ['from urllib.parse import quote'] or b.get('url_quote') != ['def']:
            problems.append('pyramid/encode.py: _url_quote / url_quote bound as %s / %s' % (b.get('_url_quote'), b.get('url_quote')))
    except Exception as e:
        problems.append('pyramid/encode.py unrecognised: %r' % e)
    try:
        mx = F.Module(src_root, 'pyramid/exceptions.py')
        c = mx.find('URLDecodeError')
        if c is None or [ast.unparse(x) for x in c.bases] != ['UnicodeDecodeError'] \
                or any(isinstance(st, ast.FunctionDef) for st in c.body):
            problems.append('pyramid/exceptions.py: URLDecodeError is not a plain subclass of UnicodeDecodeError')
    except Exception as e:
        problems.append('pyramid/exceptions.py unrecognised: %r' % e)


def facts(src_root):
    problems = []
    summary = F.check_shapes(src_root, os.path.join(HERE, 'pins.json'), problems)
    check_environment(src_root, problems, summary)
    vals, p2, skeleton = extract(src_root)
    problems += p2
    with open(os.path.join(HERE, 'skeleton.json')) as f:
        wants = json.load(f)
    skeleton = skeleton or {}
    # the preamble of __call__ is no longer pinned: it is translated (translate.py, gen_call_preamble); its hash is
    # only reported
    summary['pyramid/traversal.py:ResourceTreeTraverser.__call__[preamble, informational]'] = skeleton.get('call')
    wantr = wants.get('pyramid/router.py', {}).get('Router.handle_request')
    summary['pyramid/router.py:Router.handle_request[traversal part]'] = skeleton.get('router')
    if skeleton.get('router') is not None and skeleton['router'] != wantr:
        problems.append('shape pin pyramid/router.py:Router.handle_request (statements root_factory = self.root_factory '
                        '.. attrs.update(tdict), debug_routematch logging masked) changed (%s -> %s): the model of the attribute copy follows the '
                        'previous text' % (wantr, skeleton['router']))
    summary.update({k: vals[k] for k in vals})
    # control flow of split_path_info / decode_path_info / traversal_path_info / the tail of __call__,
    # regenerated from the source (harness/c02/translate.py)
    gen, tproblems, tsummary = translate.translate_tree(src_root)
    problems += tproblems
    summary.update({'translated:' + k: v for k, v in tsummary.items()})
    text = coq(vals) + ('\n(* ---- regenerated from src/pyramid/traversal.py by harness/c02/translate.py: control flow\n'
                        '   translated mechanically, leaves through the primitive table (see that file) ---- *)\n') + gen
    return {'coq': text, 'summary': summary, 'problems': problems}
