"""C02 -- traversal resolves context, view name, subpath and traversed as documented.

A case is a HISTORY: one resource tree and 3..10 operations run in one process
with warm caches (split_path_info / traversal_path_info / _join_path_tuple are
lru_cache'd, quote_path_segment has a module dictionary):

  req   ResourceTreeTraverser(root)(request)  PATH_INFO or matchdict entry, optional HTTP_X_VHM_ROOT; run on a FRESH
        traverser and on the ONE traverser object shared by all `req` operations of the history (must agree);
        PATH_INFO requests are ALSO sent through Router.__call__ and the request attributes seen by a
        ContextFound subscriber are compared with the dictionary
  api   pyramid.traversal.traverse(resource, path)      path str or tuple, resource anywhere in the tree
  find  pyramid.traversal.find_resource(resource, path)
  tpi   traversal_path_info(path)        tp   traversal_path(path)
  quote quote_path_segment(segment, safe)   (fills the segment cache under several safe sets)
  router the request through Router.__call__ (no routes): observation = the attributes written on the request
         (read off request.__dict__ in a ContextFound subscriber), model = Model.router_traversal
  route  the request through a Router whose application declares routes (`*traverse`, `{traverse}/*subpath`,
         `traverse=` predicate, `{subpath}`); the match dictionary comes from REAL route matching (the routes mapper
         is asked in to_wire, as an oracle) and is what the model's traverser receives

thorough tier: additionally an EXHAUSTIVE small-scope sweep (see sweep_cases), reported through evidence_extra.
"""
import itertools
import os

from harness.common import facts as F
from harness.c02 import c02facts

ID = 'C02'
HERE = os.path.dirname(os.path.abspath(__file__))
CASES = {'quick': 3000, 'thorough': 100000}
PARALLEL = True
PROOF_TIMEOUT = 1500
ALLOWED_AXIOMS = ()
RULE = ('random histories of 3-10 operations over one random tree (depth<=5, fan-out<=4, Unicode names, names that '
        "look like '..', '@@x', 'a%2Fb', names that are NOT in a Unicode normal form / are case- or compatibility-"
        "equivalent to a sibling (decomposed accents, jamo, ANGSTROM SIGN, CJK compatibility, ligatures, fullwidth, "
        "default-ignorables), leaves without __getitem__); paths mix existing/missing segments, '', '.', "
        "'..', '@@v', percent-encoded and multi-byte text, trailing slashes; vroot absent / '/' / existing / missing / "
        'trailing slash / malformed; entry via PATH_INFO (direct + Router), matchdict traverse/subpath (str and tuple), '
        'traverse()/find_resource() (str and tuple, absolute and relative); every direct traverser call is made on a fresh '
        'traverser and on one traverser object reused for the whole history (different virtual roots / match dictionaries '
        'in sequence); Router without routes (request attributes), '
        'Router with 7 declared routes (*traverse, {traverse}/*subpath, traverse= predicate, {subpath}: match dictionaries '
        'from real route matching). Half of the histories build the tree from odd-but-legitimate resource objects (falsy, '
        '__len__ 0, equal to everything, equal to nothing, unhashable, an always-empty dict subclass with __missing__, '
        '__getitem__ bound per instance, a proxy forwarding __getitem__ through __getattr__, a RE-ENTRANT container whose '
        '__getitem__ runs other traversals first -- then the ContextFound subscriber calls back in too; one kind '
        'for the whole tree or mixed), a fifth pass every str argument / match-dictionary value as an instance of a str '
        'subclass (and tuple paths as lists). Names include near misses of the special segments (three and more dots, '
        "'.a', 'a.', '@', '@@@', look-alike code points). `rmd` operations compare the match dictionary the REAL routes mapper "
        'produces (11 routes: *stararg remainders, the traverse= option incl. a literal piece and swapped captures, a captured '
        '{traverse} / *traverse / {traverse:.*} next to a traverse= option -- also with EMPTY captured values: URLs that end right '
        'after the fixed part or whose remainder normalises to nothing) with the model (Model.traverse_entry: a captured value wins '
        'however empty; (split_path_info of the decoded pieces); `tpi` / `tp` operations '
        'are judged by the normalisation clause. thorough adds the exhaustive small-scope sweep (coverage.exhaustive_subruns). non-trivial = the history has a traversal '
        'that consumed at least one segment AND one that stopped early (missing/leaf/@@) or ran under a virtual root; '
        'distinct by full case')
ASSUMPTIONS = [
    'resources are location-aware objects whose __getitem__ is a pure lookup (first entry with that key) raising KeyError; '
    'a resource without __getitem__ is a leaf; the __name__ of a child is its key; the __parent__ of the root is None '
    '(a root WITHOUT the attribute is not location-aware: find_root raises AttributeError on it -- outside the quantifier). '
    'Truth value, length, equality and hashability of a resource are NOT assumed: the harness varies them and the model '
    'has no such notion',
    'WSGI strings (PATH_INFO, HTTP_X_VHM_ROOT) are str; code points >= 256 are modelled (UnicodeEncodeError)',
    'match dictionary values are str or tuples of str',
    'paths that webob Request.blank reads as a URL with a scheme (^[a-z]+:) are outside the model of traverse() '
    '(DESIGN section 5 item 13, property C07)',
    'lru_cache / dict memoisation keys are str or tuples of str (== is structural equality)',
]
TRUSTED = [
    'translator harness/c02/translate.py: its PRIMITIVE TABLE (which Python leaf expression / method / try shape / dict '
    'literal corresponds to which Gallina primitive of Model/C02_base.v, Lib/Text, Lib/C02Expr -- listed in its docstring) '
    'is trusted; its control-flow rules are mechanical; anything outside subset or table is a broken tie, never a guess',
    'hand-written reference model coq/Model/C02.v (proved equal to the regenerated program for split_path_info, '
    'decode_path_info, traversal_path_info, traversal_path (str argument), find_root, _join_path_tuple (tuple of str) and '
    'the WHOLE of ResourceTreeTraverser.__call__ = preamble ; tail); hand-modelled AND shape-pinned: traverse, find_resource, '
    'quote_path_segment, unquote_bytes_to_wsgi, ascii_, is_nonstr_iter, url_quote, lineage',
    'primitive-table entries added for the preamble: request.matchdict / request.environ / request.path_info (webob: '
    'KeyError when PATH_INFO is absent, else latin-1 -> UTF-8), matchdict.get for the keys traverse / subpath with values '
    'that are a str or a tuple of str, is_nonstr_iter on such a value, self.VH_ROOT_KEY in environ; for find_root: '
    'lineage(x) = the chain of __parent__ up to the root, x.__parent__ is None = x is the root',
    'Lib/Utf8 (CPython strict UTF-8), Lib/Percent (urllib quote / unquote_to_bytes), Lib/Text (str.strip/split): modelled, '
    'validated by correspondence',
    'webob: Request.blank/environ_from_url/compat.unquote (modelled incl. the int(x,16) leniency), '
    'BaseRequest.path_info decoding -- validated by the correspondence run, not verified',
    'Router.handle_request, traversal part (attrs[\'root\'] = root; tdict = traverser(request); attrs.update(tdict)): '
    'modelled (Model.router_traversal), the statement slice is shape-pinned; the rest of handle_request is not modelled',
    'route matching is an ORACLE for the `route` operations (the match dictionary handed to the model is the one the real '
    'routes mapper returns; C01 verifies the matcher), but its traverse / subpath entries are no longer taken on trust: the '
    '`rmd` operations recompute them in the model from the decoded PATH_INFO, the literal pieces of the pattern and the values '
    'of the {name} captures in front of the remainder (Model.route_remainder / route_piece; which pieces belong to which '
    'route is a per-route table in prop.py) and pyramid.predicates.TraversePredicate is shape-pinned',
]
TECHNIQUE = ('Coq proof (induction over the segment list / the walk) about a Gallina program whose control flow is translated '
             'from the Python source on every run (fail-closed ast translator, leaves through a small primitive table), proved '
             'equal to a hand-written reference model + extracted-model differential correspondence over histories')
LEVEL_TEXT = ('Machine-checked theorems for trees, paths and virtual roots of any size, stated about the program REGENERATED '
              'from traversal.py on this run (split_path_info, decode_path_info, traversal_path_info, traversal_path, find_root, _join_path_tuple '
              'and the whole of ResourceTreeTraverser.__call__: gen_call = gen_call_preamble ; gen_call_tail; '
              'C02_gen_*_is_model tie it to the reference model): the loop of '
              'ResourceTreeTraverser.__call__ equals the declarative outcome (context = resource at the longest walkable '
              'prefix, view name / subpath from the rest, virtual root = resource at the virtual-root segments, walk never '
              "leaves the virtual root's subtree), the characterisation of the walk is unique, '..' never climbs above the "
              'root / virtual root, the preamble ignores PATH_INFO when a route matched and treats the falsy-but-valid inputs '
              "(absent / empty PATH_INFO, absent / '' / () traverse, absent subpath) like their defaults, the only exceptions "
              'are the decoders\' (URLDecodeError exactly for an undecodable PATH_INFO without a route match), find_root '
              'returns the root of the tree for every resource of it, traverse() resolves an absolute path from that root '
              'whichever resource is passed and a relative path from the resource passed, split_path_info drops ONLY the '
              "segments '', '.', '..' (every list of other segments survives unchanged), the public normalisers meet the "
              'normalisation clause whenever the text decodes, a request whose item lookups run nested traversals answers like '
              'the cache-free traverser and leaves every later history unaffected (its order premise -- no memoised call at or '
              'after the entry of the walk loop -- is a fact the translator regenerates), Router.handle_request writes exactly the dictionary onto the request, and memoisation '
              '(split_path_info, traversal_path_info, _join_path_tuple LRUs and the (segment, safe) dictionary; any valid '
              'cache state, any history of traversals, Router requests, traverse()/find_resource() calls, path splits and '
              'segment quotings) never changes an answer, nor does reusing one traverser object for a history of requests '
              '(the source facts say __call__ never writes to self). End to end: what a route pattern captured / its traverse= option '
              'generated is exactly the segment list the regenerated traverser walks (C02_route_star_to_resolution, '
              'C02_route_option_to_resolution, C02_route_str_to_resolution), and without a virtual-root header every field incl. `traversed` is as the property '
              'says (C02_gen_call_no_vroot_full). `traversed` is proved equal to the consumed segments without a virtual '
              'root or when the path is exhausted, and refuted otherwise (known finding). The percent/UTF-8 plumbing of '
              'traverse()/find_resource() is modelled here and validated by correspondence (its round trip is proved in C07).')
LEVEL_NOTE = ('Trusted: Coq kernel; the translator (mechanical control-flow rules + the primitive table in the docstring of '
              'harness/c02/translate.py -- the table is the trusted part); the hand-written model of what is not translated '
              '(preamble of __call__, traverse()/find_resource plumbing: shape-pinned, validated by correspondence); Python harness; webob request parsing and CPython codecs modelled and validated, not verified. '
              'The history clause is proved for the memo state machines of Proofs/C02 and validated on the real caches by '
              'running every case as a history in one process.')

facts = c02facts.facts

# ------------------------------------------------------------------ generation
# text that some Unicode canonicaliser would rewrite (the property says names are looked up as decoded, code point
# for code point): not in NFC (decomposed accent, conjoining jamo, ANGSTROM SIGN, CJK compatibility ideograph, two
# combining marks in non-canonical order), not in NFD (precomposed), not in NFKC (ligature, fullwidth, superscript),
# case-fold / case-map sensitive, default-ignorable and bidi code points, non-BMP, NUL-free controls
UNORM = ['cafe\u0301', '\u1100\u1161', '\u212b', '\uf900', 'q\u0307\u0323', '\ufb01n', '\uff21', 'x\u00b2', 'Stra\u00dfe',
         '\u0130', '\u03c2\u03c3', 'a\u200db', '\u202eab', '\u00c5', 'e\u0301\u0301', '\x7f', 'a\u00a0b']
NAMES = ['a', 'b', 'c', 'x', 'ab', 'A', 'é', '日本', 'a b', '%41', 'a%2Fb', '+', 'a:b', '\U0001f600', '~u'] + UNORM[:9]
WEIRD = ['..', '.', '@@v', '@@', '@x', '', 'a/b', '%', '%zz', 'http:', 'x?y', 'a#b', '\ud800', ' 1', '-0', '0', 'None']
# near misses of the segments the normaliser / the walk treat specially ('', '.', '..', '@@name'): more dots, dots with
# other characters, one '@', '@@' inside, look-alike code points -- all of them ORDINARY names
NEARMISS = ['...', '....', '.....', '.a', 'a.', '..a', '. ', ' .', '.\u200b', '\u2024', '\uff0e\uff0e', '@', '@ @', 'a@@v', '@\u200b@v',
            '\uff20\uff20v', '@@@', ' ', '\u2215', 'a\\b']
SAFES = ['', '/', '%', "~!$&'()*+,;=:@", "~!$&'()*+,;=:@/", ':@', 'ab']


def gen_tree(rng, depth):
    if depth <= 0 or rng.random() < 0.12:
        return None
    if rng.random() < 0.08:
        return []
    n = rng.choice([1, 2, 2, 3, 3, 4])
    out = []
    for _ in range(n):
        r = rng.random()
        nm = rng.choice(WEIRD) if r < 0.10 else rng.choice(NEARMISS) if r < 0.16 else rng.choice(UNORM) if r < 0.24 \
            else rng.choice(NAMES)
        out.append([nm, gen_tree(rng, depth - 1)])
        if rng.random() < 0.06:
            # a sibling whose name is canonically / compatibly / case-wise "the same" text, but other code points
            alt = _variant(rng, nm)
            if alt != nm:
                out.append([alt, gen_tree(rng, depth - 1)])
    return out


def _variant(rng, s):
    import unicodedata
    f = rng.choice(['NFC', 'NFD', 'NFKC', 'NFKD', 'lower', 'upper', 'casefold'])
    try:
        return unicodedata.normalize(f, s) if f.startswith('NF') else getattr(s, f)()
    except Exception:
        return s


def node_at(tree, pos):
    t = tree
    for i in pos:
        t = t[i][1]
    return t


def all_positions(tree, pos=()):
    yield list(pos)
    if tree:
        for i, (_, c) in enumerate(tree):
            yield from all_positions(c, pos + (i,))


def gen_segments(rng, tree, start=None):
    """intended path segments: a walk in the tree with disturbances"""
    t = tree if start is None else start
    segs = []
    n = rng.choice([0, 1, 1, 2, 2, 3, 3, 4, 5])
    for _ in range(n):
        r = rng.random()
        if r < 0.60 and t:
            nm, c = rng.choice(t)
            segs.append(nm)
            t = c
        elif r < 0.66:
            segs.append(rng.choice(NAMES))            # probably missing
            t = None
        elif r < 0.68 and t:
            segs.append(_variant(rng, rng.choice(t)[0]))   # an equivalent-looking spelling of an existing name
            t = None
        elif r < 0.76:
            segs.append('..')
            t = None
        elif r < 0.82:
            segs.append(rng.choice(['', '.']))
        elif r < 0.90:
            segs.append('@@' + rng.choice(['', 'v', 'view'] + ([x[0] for x in t] if t else [])))
        elif r < 0.95:
            segs.append(rng.choice(WEIRD))
        else:
            segs.append(rng.choice(NEARMISS))
    return segs


def wsgi(s):
    """unicode -> the latin-1 str a WSGI server would hand over"""
    return s.encode('utf-8', 'surrogatepass').decode('latin-1')


def join_plain(rng, segs, lead=True):
    p = ('/' if lead else '') + '/'.join(segs)
    if rng.random() < 0.2:
        p += '/'
    if rng.random() < 0.05:
        p = '/' + p
    return p


def gen_vroot(rng, tree):
    r = rng.random()
    if r < 0.45:
        return None
    if r < 0.52:
        return rng.choice(['/', '', '//'])
    segs = []
    t = tree
    for _ in range(rng.choice([1, 1, 2, 2, 3])):
        if t and rng.random() < 0.85:
            nm, c = rng.choice(t)
            segs.append(nm)
            t = c
        else:
            segs.append(rng.choice(NAMES + ['..', '.', '@@v', '...', '.a', '@']))
            t = None
    v = '/' + '/'.join(segs)
    if rng.random() < 0.25:
        v += '/'
    if rng.random() < 0.1:
        v = v[1:]
    r = rng.random()
    if r < 0.04:
        return v + '\xff'                  # malformed UTF-8
    if r < 0.06:
        return v + '€'                # not latin-1
    return wsgi(v)


def gen_req(rng, tree):
    segs = gen_segments(rng, tree)
    vroot = gen_vroot(rng, tree)
    r = rng.random()
    if r < 0.55:
        q = rng.random()
        if q < 0.04:
            pi = None
        elif q < 0.08:
            pi = rng.choice(['', '/'])
        elif q < 0.12:
            pi = join_plain(rng, segs).encode('utf-8', 'surrogatepass').decode('latin-1')
            k = rng.randrange(len(pi) + 1)
            pi = pi[:k] + rng.choice(['\xff', '\xc3', '\xe6\x97', '\x80', 'Ł']) + pi[k:]
        else:
            pi = wsgi(join_plain(rng, segs, lead=rng.random() < 0.93))
        return {'k': 'req', 'path_info': pi, 'md': None, 'vroot': vroot}
    md = {}
    q = rng.random()
    if q < 0.42:
        md['traverse'] = join_plain(rng, segs, lead=rng.random() < 0.8)
    elif q < 0.84:
        md['traverse'] = list(segs)
    elif q < 0.90:
        md['traverse'] = rng.choice(['', []])
    q = rng.random()
    if q < 0.3:
        md['subpath'] = join_plain(rng, gen_segments(rng, None), lead=rng.random() < 0.5)
    elif q < 0.6:
        md['subpath'] = gen_segments(rng, None)
    pi = wsgi(join_plain(rng, gen_segments(rng, tree))) if rng.random() < 0.5 else '/'
    return {'k': 'req', 'path_info': pi, 'md': md, 'vroot': vroot}


def quote_seg(rng, s):
    from urllib.parse import quote
    try:
        q = quote(s.encode('utf-8'), safe="~!$&'()*+,;=:@")
    except UnicodeEncodeError:
        return 'bad'
    if rng.random() < 0.05 and q:
        k = rng.randrange(len(q) + 1)
        q = q[:k] + rng.choice(['%', '%4', '%zz', '% 1', '%+f', '%-0', '%-1', '%0x', '%2f', '%C3']) + q[k:]
    return q


def gen_api(rng, tree, kind):
    poss = list(all_positions(tree))
    start = rng.choice(poss) if rng.random() < 0.6 else []
    st = node_at(tree, start)
    absolute = rng.random() < 0.5
    segs = gen_segments(rng, tree if absolute else None, None if absolute else st)
    if rng.random() < 0.5:
        path = ([''] if absolute else []) + segs
        if rng.random() < 0.03:
            path = []
    else:
        r = rng.random()
        if r < 0.06:
            path = join_plain(rng, segs, lead=absolute)              # unquoted: non-ascii raises
        else:
            path = ('/' if absolute else '') + '/'.join(quote_seg(rng, s) for s in segs)
            if rng.random() < 0.15:
                path += '/'
            if rng.random() < 0.06:
                path += '?x=/a/b'
        if rng.random() < 0.03:
            path = ''
    return {'k': kind, 'start': start, 'path': path}


ROUTES = [('r_star', '/r/*traverse', None), ('r_sub', '/s/{traverse}/*subpath', None),
          ('r_pred', '/t/{a}/{b}', '/{a}/{b}'), ('r_pred_sub', '/u/{a}/*subpath', '/{a}'),
          ('r_plain', '/v/{x}', None), ('r_strsub', '/w/{subpath}', None), ('r_both', '/x/{subpath}/*traverse', None),
          ('r_cap', '/y/{traverse}/{b}', '/{b}'), ('r_pred3', '/z/{a}/{b}/*subpath', '/{b}/x/{a}'),
          # BOTH mechanisms on one route, where the captured value may be EMPTY (() / ''): the capture still wins
          ('r_cap_star', '/q/{b}/*traverse', '/{b}'), ('r_cap_re', '/p/{b}/{traverse:.*}', '/{b}/k')]

# what the match dictionary of each route must hold under 'traverse' / 'subpath' (operation `rmd`), as a recipe over
# the OTHER captures of the same match (c = match dictionary, rem = decoded PATH_INFO after the literal prefix and the
# captures before the star):  ('parts', names) = tuple split_path_info('/' + '/'.join(c[n] for n in names)) -- the
# traverse= option;  ('rem', prefix pieces) = tuple split_path_info(remainder) -- a *stararg;  ('seg', k) = the k-th
# '/'-separated piece of the decoded path as a str -- a {traverse} / {subpath} placeholder (never normalised, and a
# captured {traverse} wins over the traverse= option)
# per route: 'cap' = how the PATTERN captures `traverse` (None = it does not), 'opt' = the pieces of the traverse= option
# (None = the route has none), 'subpath' = how the pattern captures `subpath`.  The model decides what the entry is:
# a captured value -- even an empty one -- wins over the option (Model.traverse_entry).
#   ('rem', prefix pieces) tuple split_path_info(decoded remainder)   ('remstr', prefix pieces) the remainder as a str
#   ('seg', k) the k-th '/'-piece of the decoded path as a str         option pieces: capture names, '=x' = the literal x
RECIPES = {
    'r_star': {'cap': ('rem', ['/r/'])},
    'r_sub': {'cap': ('seg', 2), 'subpath': ('rem', ['/s/', 'traverse', '/'])},
    'r_pred': {'opt': ['a', 'b']},
    'r_pred_sub': {'opt': ['a'], 'subpath': ('rem', ['/u/', 'a', '/'])},
    'r_plain': {},
    'r_strsub': {'subpath': ('seg', 2)},
    'r_both': {'subpath': ('seg', 2), 'cap': ('rem', ['/x/', 'subpath', '/'])},
    'r_cap': {'cap': ('seg', 2), 'opt': ['b']},
    'r_pred3': {'opt': ['b', '=x', 'a'], 'subpath': ('rem', ['/z/', 'a', '/', 'b', '/'])},
    'r_cap_star': {'cap': ('rem', ['/q/', 'b', '/']), 'opt': ['b']},
    'r_cap_re': {'cap': ('remstr', ['/p/', 'b', '/']), 'opt': ['b', '=k']},
}


def _rmd_info(o):
    """(route name, match dictionary, decoded path) from the real mapper, or None"""
    if not _impl:
        setup('quick')
    try:
        info = _impl['mapper'](_impl['Request'](_env(o)))
        if info.get('route') is None:
            return None
        decoded = o['path_info'].encode('latin-1').decode('utf-8')
    except Exception:
        return None
    return info['route'].name, info['match'], decoded


def _rmd_wire(o):
    got = _rmd_info(o)
    if got is None:
        return [7, [], [], []]
    name, match, decoded = got
    rec = RECIPES.get(name, {})

    def captured(r):
        # the remainder / the k-th piece are computed by the MODEL (Model.route_remainder / route_piece) from the
        # decoded path and the pieces in front of the remainder: literals of the pattern and the values of the {name}
        # captures (taken from the real match)
        if r is None:
            return []
        if r[0] == 'seg':
            return [[3, decoded, r[1]]]
        pieces = [match[x] if (x in match and not x.startswith('/')) else x for x in r[1]]
        return [[2 if r[0] == 'remstr' else 1, decoded, pieces]]
    opt = rec.get('opt')
    optw = [] if opt is None else [[n[1:] if n.startswith('=') else match[n] for n in opt]]
    return [7, captured(rec.get('cap')), captured(rec.get('subpath')), optw]


NOTHING = [[], [''], ['.'], ['', ''], ['a', '..'], ['.', ''], ['..'], ['a', 'b', '..', '..']]     # remainders that normalise to ()


def gen_route_op(rng, tree):
    segs = gen_segments(rng, tree)
    prefix = rng.choice(['/r', '/r', '/s', '/t', '/u', '/v', '/w', '/x', '/r', '/nomatch', '/y', '/z', '/t', '/u',
                         '/q', '/q', '/p', '/p'])
    r = rng.random()
    if prefix in ('/s', '/u', '/x', '/q', '/p') and r < 0.75:
        segs = (segs[:1] or [rng.choice(NAMES)]) + gen_segments(rng, tree if prefix in ('/q', '/p') else None)
    elif prefix == '/z' and r < 0.8:
        segs = (segs + [rng.choice(NAMES), rng.choice(NAMES)])[:2] + gen_segments(rng, None)
    elif prefix in ('/y', '/t') and r < 0.8:
        segs = (segs + [rng.choice(NAMES), rng.choice(NAMES)])[:2]
    elif prefix in ('/v', '/w') and r < 0.8:
        segs = (segs + [rng.choice(NAMES)])[:1]
    if rng.random() < 0.2:
        # the URL ends right after the fixed part / the captured remainder normalises to nothing (falsy captured values)
        fixed = {'/r': 0, '/s': 1, '/u': 1, '/x': 1, '/z': 2, '/q': 1, '/p': 1}.get(prefix)
        if fixed is not None:
            head = (segs + [rng.choice(NAMES), rng.choice(NAMES)])[:fixed]
            pi = prefix + ''.join('/' + x for x in head) + '/' + '/'.join(rng.choice(NOTHING))
            return {'k': 'route' if rng.random() < 0.6 else 'rmd', 'path_info': wsgi(pi), 'vroot': gen_vroot(rng, tree)}
    pi = prefix + join_plain(rng, segs)
    if rng.random() < 0.04:
        pi = wsgi(pi) + rng.choice(['\xff', '\xc3'])
    else:
        pi = wsgi(pi)
    return {'k': 'route' if rng.random() < 0.7 else 'rmd', 'path_info': pi, 'vroot': gen_vroot(rng, tree)}


def gen_op(rng, tree):
    r = rng.random()
    if r < 0.10:
        o = gen_req(rng, tree)
        return {'k': 'router', 'path_info': o['path_info'], 'vroot': o['vroot']}
    if r < 0.24:
        return gen_route_op(rng, tree)
    if r < 0.56:
        return gen_req(rng, tree)
    if r < 0.76:
        return gen_api(rng, tree, 'api')
    if r < 0.84:
        return gen_api(rng, tree, 'find')
    if r < 0.89:
        p = join_plain(rng, gen_segments(rng, tree))
        if rng.random() < 0.15:
            k = rng.randrange(len(p) + 1)
            return {'k': 'tpi', 'path': wsgi(p)[:k] + '\xe6' + wsgi(p)[k:]}
        return {'k': 'tpi', 'path': wsgi(p)}
    if r < 0.94:
        segs = gen_segments(rng, tree)
        if rng.random() < 0.1:
            return {'k': 'tp', 'path': join_plain(rng, segs)}
        return {'k': 'tp', 'path': '/' + '/'.join(quote_seg(rng, s) for s in segs)}
    seg = rng.choice(NAMES + WEIRD)
    return {'k': 'quote', 'seg': seg, 'safe': rng.choice(SAFES)}


def gen_case(rng):
    tree = gen_tree(rng, rng.choice([1, 2, 3, 3, 4, 5]))
    while tree is None:
        tree = gen_tree(rng, 3) if rng.random() < 0.9 else None
        if tree is None and rng.random() < 0.3:
            break
    n = rng.choice([3, 4, 5, 6, 8, 10])
    ops = []
    for _ in range(n):
        r = rng.random()
        if ops and r < 0.15:
            ops.append(rng.choice(ops))                       # repeated key
        elif ops and r < 0.25:
            o = dict(rng.choice(ops))                         # same path under another vroot / entry
            if o['k'] in ('req', 'router', 'route', 'rmd'):
                o['vroot'] = gen_vroot(rng, tree)
            ops.append(o)
        else:
            ops.append(gen_op(rng, tree))
    if rng.random() < 0.10:
        # the same segment quoted under another safe set, then used in a tuple path (segment cache)
        seg = rng.choice(['%41', 'a%2Fb', '%', '%zz', 'a:b', 'a/b', 'a b', 'é'])
        k = rng.randrange(len(ops) + 1)
        pre = [''] if rng.random() < 0.7 else []
        ops[k:k] = [{'k': 'quote', 'seg': seg, 'safe': rng.choice(SAFES)},
                    {'k': rng.choice(['api', 'find']), 'start': [], 'path': pre + [seg]}]
    case = {'tree': tree, 'ops': ops}
    r = rng.random()
    if r < 0.25:
        case['flav'] = [rng.choice(FLAVOURS[1:])]                       # every resource of the same odd kind
    elif r < 0.5:
        case['flav'] = [rng.choice(FLAVOURS) for _ in range(rng.choice([2, 3, 5]))]
    r = rng.random()
    if r < 0.12:
        case['strsub'] = 1          # every str argument / match-dictionary value is an instance of a str subclass
    elif r < 0.2:
        case['strsub'] = 2          # ... and tuple arguments are lists (traverse()/find_resource() accept any sequence)
    return case


# ---- exhaustive small-scope sweep (thorough tier)
SWEEP_VOCAB = ['a', 'b', 'zz', '..', '.', '@@a']
SWEEP_VROOTS = [None, '/', '/a', '/a/b']
SWEEP_NAMES = ['a', 'b']
SWEEP_MAX_NODES = 4
SWEEP_MAX_SEGS = 4
SWEEP_CHUNK = 311
_SWEEP = {'trees': 0, 'cases': 0, 'operations': 0, 'complete': False}


def _forests(n, names):
    """all lists of (name, subtree) with distinct names from `names` (in that order) and n nodes in total"""
    if n == 0:
        yield []
        return
    if not names:
        return
    first, rest = names[0], names[1:]
    yield from _forests(n, rest)                       # name not used
    for k in range(1, n + 1):                          # subtree under `first` has k nodes
        for sub in _trees(k):
            for others in _forests(n - k, rest):
                yield [[first, sub]] + others


def _trees(n):
    """all trees with exactly n nodes: a childless node is a leaf (None) or an empty folder ([])"""
    if n == 1:
        yield None
        yield []
        return
    for f in _forests(n - 1, SWEEP_NAMES):
        if f:
            yield f


def sweep_trees():
    for n in range(1, SWEEP_MAX_NODES + 1):
        yield from _trees(n)


def sweep_paths():
    for k in range(0, SWEEP_MAX_SEGS + 1):
        for segs in itertools.product(SWEEP_VOCAB, repeat=k):
            yield '/' + '/'.join(segs)


def sweep_cases():
    """every tree with <= 4 nodes (child names from {a, b}, childless nodes as leaf or empty folder) x every
    PATH_INFO of <= 4 segments over the 6-segment vocabulary x 4 virtual roots; each traversal direct and through
    the Router"""
    paths = list(sweep_paths())
    _SWEEP.update(trees=0, cases=0, operations=0, complete=False)
    for tree in sweep_trees():
        _SWEEP['trees'] += 1
        for vr in SWEEP_VROOTS:
            for i in range(0, len(paths), SWEEP_CHUNK):
                ops = [{'k': 'req', 'path_info': pth, 'md': None, 'vroot': vr} for pth in paths[i:i + SWEEP_CHUNK]]
                _SWEEP['cases'] += 1
                _SWEEP['operations'] += len(ops)
                yield {'tree': tree, 'ops': ops, 'tag': 'sweep'}
    _SWEEP['complete'] = True


def generate(rng, tier, n):
    if tier == 'thorough' and n >= 50000:
        yield from sweep_cases()
    for _ in range(n):
        yield gen_case(rng)


def evidence_extra(stats, tier):
    if not _SWEEP['complete']:
        return {}
    clean = not stats.get('disagreements') and not stats.get('violations')
    ran = stats.get('kinds', {}).get('sweep-case', 0)
    return {'exhaustive_subruns': [{
        'what': 'all resource trees with <= %d nodes (child names from %r, childless nodes as leaf and as empty folder) x '
                'all PATH_INFO of <= %d segments over the vocabulary %r x virtual roots %r; every traversal observed '
                'directly (ResourceTreeTraverser) and through Router.__call__, compared with the extracted model and '
                'judged by the extracted specification' % (SWEEP_MAX_NODES, SWEEP_NAMES, SWEEP_MAX_SEGS, SWEEP_VOCAB,
                                                           SWEEP_VROOTS),
        'trees': _SWEEP['trees'], 'cases': _SWEEP['cases'], 'cases_evaluated': ran,
        'operations': _SWEEP['operations'],
        'exhaustive': bool(clean and ran == _SWEEP['cases']),
        'outcome': 'no disagreement, no violation (known finding C02-traversed-under-vroot aside)' if clean
                   else 'see violations / disagreements of this run'}]}


def _valid_tree(t):
    if t is None:
        return True
    if not isinstance(t, list):
        return False
    for e in t:
        if not (isinstance(e, list) and len(e) == 2 and isinstance(e[0], str) and _valid_tree(e[1])):
            return False
    return True


def _valid_path(p):
    return isinstance(p, str) or (isinstance(p, list) and all(isinstance(x, str) for x in p))


def valid(case):
    try:
        if sorted(k for k in case if k not in ('tag', 'flav', 'strsub')) != ['ops', 'tree'] or not _valid_tree(case['tree']) \
                or not case['ops']:
            return False
        if 'flav' in case and not (isinstance(case['flav'], list) and all(
                isinstance(x, int) and not isinstance(x, bool) and x in FLAVOURS for x in case['flav'])):
            return False
        if 'strsub' in case and case['strsub'] not in (1, 2):
            return False
        for o in case['ops']:
            k = o['k']
            if k == 'req':
                if sorted(o) != ['k', 'md', 'path_info', 'vroot']:
                    return False
                if not (o['path_info'] is None or isinstance(o['path_info'], str)):
                    return False
                if not (o['vroot'] is None or isinstance(o['vroot'], str)):
                    return False
                if o['md'] is not None:
                    if not isinstance(o['md'], dict) or not set(o['md']) <= {'traverse', 'subpath'}:
                        return False
                    if not all(_valid_path(v) for v in o['md'].values()):
                        return False
            elif k in ('router', 'route', 'rmd'):
                if sorted(o) != ['k', 'path_info', 'vroot']:
                    return False
                if not (o['path_info'] is None or isinstance(o['path_info'], str)):
                    return False
                if not (o['vroot'] is None or isinstance(o['vroot'], str)):
                    return False
            elif k in ('api', 'find'):
                if sorted(o) != ['k', 'path', 'start'] or not _valid_path(o['path']):
                    return False
                t = case['tree']
                for i in o['start']:
                    if not isinstance(i, int) or isinstance(i, bool) or t is None or not (0 <= i < len(t)):
                        return False
                    t = t[i][1]
            elif k in ('tpi', 'tp'):
                if sorted(o) != ['k', 'path'] or not isinstance(o['path'], str):
                    return False
            elif k == 'quote':
                if sorted(o) != ['k', 'safe', 'seg'] or not isinstance(o['seg'], str) or not isinstance(o['safe'], str):
                    return False
                if any(ord(c) > 127 for c in o['safe']):
                    return False
            else:
                return False
        return True
    except Exception:
        return False


def shrinks(case):
    """drop operations, prune the tree, then the generic structural shrinks"""
    from harness.common.main import generic_shrinks
    ops = case['ops']
    flav = case.get('flav')

    def mk(tree, ops2, fl=flav, ss=case.get('strsub')):
        c = {'tree': tree, 'ops': ops2}
        if fl:
            c['flav'] = fl
        if ss:
            c['strsub'] = ss
        return c
    if case.get('strsub'):
        yield mk(case['tree'], ops, flav, None)
    if flav:
        # resource flavours: all plain, then one flavour for every node
        yield mk(case['tree'], ops, None)
        if len(set(flav)) > 1 or len(flav) > 1:
            for f in sorted(set(flav)):
                yield mk(case['tree'], ops, [f])
    if len(ops) > 12:                                   # big histories (sweep chunks): bisect first
        h = len(ops) // 2
        yield mk(case['tree'], ops[:h])
        yield mk(case['tree'], ops[h:])
        q = max(1, len(ops) // 4)
        for i in range(0, len(ops), q):
            yield mk(case['tree'], ops[:i] + ops[i + q:])
    else:
        for i in range(len(ops)):
            if len(ops) > 1:
                yield mk(case['tree'], ops[:i] + ops[i + 1:])
        for o in ops:
            if len(ops) > 1:
                yield mk(case['tree'], [o])
    for i, o in enumerate(ops):
        if o.get('start'):
            yield mk(case['tree'], ops[:i] + [dict(o, start=[])] + ops[i + 1:])
    # keep WSGI-shaped inputs WSGI-shaped: a shrink must not strip the leading '/' of a PATH_INFO /
    # virtual-root header (that would turn one failure into a different, less telling one)
    wf = _wsgi_shaped(case)
    if len(ops) > 12:
        return
    for cand in generic_shrinks({'tree': case['tree'], 'ops': ops}):
        if wf and not _wsgi_shaped(cand):
            continue
        if flav and isinstance(cand, dict):
            cand = dict(cand, flav=flav)
        if case.get('strsub') and isinstance(cand, dict):
            cand = dict(cand, strsub=case['strsub'])
        yield cand


def _wsgi_shaped(case):
    try:
        for o in case['ops']:
            if o.get('k') in ('req', 'router', 'route', 'rmd'):
                for key in ('path_info', 'vroot'):
                    v = o.get(key)
                    if isinstance(v, str) and v != '' and not v.startswith('/'):
                        return False
        return True
    except Exception:
        return False


# ------------------------------------------------------------------ wire
def _tree_wire(t):
    if t is None:
        return 0
    return [[nm, _tree_wire(c)] for nm, c in t]


def _opt(v):
    return [] if v is None else [v]


def _path_wire(p):
    return p if isinstance(p, str) else list(p)


def _op_wire(o):
    k = o['k']
    if k == 'req':
        md = o['md']
        mdw = None
        if md is not None:
            mdw = [_opt(_path_wire(md['traverse']) if 'traverse' in md else None),
                   _opt(_path_wire(md['subpath']) if 'subpath' in md else None)]
        return [0, _opt(o['path_info']), _opt(mdw), _opt(o['vroot'])]
    if k == 'router':
        return [6, _opt(o['path_info']), _opt(None), _opt(o['vroot'])]
    if k == 'route':
        md = route_oracle(o)
        mdw = None
        if md is not None:
            mdw = [_opt(_path_wire(md['traverse']) if 'traverse' in md else None),
                   _opt(_path_wire(md['subpath']) if 'subpath' in md else None)]
        return [6, _opt(o['path_info']), _opt(mdw), _opt(o['vroot'])]
    if k == 'rmd':
        return _rmd_wire(o)
    if k == 'api':
        return [1, list(o['start']), _path_wire(o['path'])]
    if k == 'tpi':
        return [2, o['path']]
    if k == 'tp':
        return [3, o['path']]
    if k == 'find':
        return [4, list(o['start']), _path_wire(o['path'])]
    return [5, o['seg'], o['safe']]


def to_wire(case):
    return [_tree_wire(case['tree']), [_op_wire(o) for o in case['ops']]]


def from_wire(case, raw):
    if raw == [['bad']] or not isinstance(raw, list) or len(raw) != len(case['ops']):
        return {'model': ['MODEL-BAD', raw], 'spec': None}
    model = [_canon_attrs(r[0]) for r in raw]
    spec = [(_canon_attrs(r[1]) if r[1] != [] else ['none']) for r in raw]
    return {'model': model, 'spec': spec}


def _canon_attrs(o):
    """attribute dictionaries are compared as sets of items"""
    if isinstance(o, list) and len(o) == 2 and o[0] == 7:
        return [7, sorted(o[1])]
    return o


def _env(o):
    env = dict(_impl['base'])
    if o['path_info'] is None:
        del env['PATH_INFO']
    else:
        env['PATH_INFO'] = o['path_info']
    if o['vroot'] is not None:
        env[_impl['vh']] = o['vroot']
    return env


def _md_part(match):
    return {k: (list(v) if isinstance(v, (tuple, list)) else v) for k, v in match.items() if k in ('traverse', 'subpath')}


def route_oracle(o):
    """the match dictionary the REAL routes mapper (incl. the traverse= pseudo predicate) produces for this
    request; None when no route matches or matching itself raises (then PATH_INFO is undecodable and the
    traverser meets the same error)"""
    if not _impl:
        setup('quick')
    try:
        info = _impl['mapper'](_impl['Request'](_env(o)))
    except Exception:
        return None
    if info.get('route') is None:
        return None
    return _md_part(info['match'])


# ------------------------------------------------------------------ implementation
_impl = {}
EXC = {'URLDecodeError': 1, 'UnicodeDecodeError': 2, 'UnicodeEncodeError': 3}


class Leaf:
    def __init__(self, name, parent, pos):
        self.__name__, self.__parent__, self._pos = name, parent, pos

    def __repr__(self):
        return '<res %r>' % (self._pos,)


class Folder(Leaf):
    def __init__(self, name, parent, pos):
        Leaf.__init__(self, name, parent, pos)
        self._items = []

    def __getitem__(self, key):
        for k, v in self._items:
            if k == key:
                return v
        raise KeyError(key)


# ---- resource FLAVOURS: what a location-aware resource may legitimately be as a Python object, beyond
# __name__ / __parent__ / __getitem__.  The property quantifies over ANY location-aware tree and the model has no
# notion of truth value, equality or hashability of a resource, so none of this may change an outcome:
#   1 falsy (__bool__ False)        2 empty container (__len__ 0; children computed, not stored)
#   3 equal to everything (__eq__ True, hashable)   -- `==` where `is` is meant
#   4 unhashable (__eq__ by identity, __hash__ None) -- a resource used as a dictionary / cache key
#   5 equal to nothing, not even itself (__eq__ False, __ne__ True)
#   6 a dict subclass that stores nothing (children through __missing__): falsy, iterable, len 0
#   7 item lookup bound PER INSTANCE (self.__getitem__ = ...; the class defines none): `ob.__getitem__` works,
#     the subscript operator `ob[k]` (type-level lookup) does not
#   8 a proxy (security / lazy-loading wrapper) that forwards every unknown attribute, __getitem__ included, to the
#     real container through __getattr__: again reachable as an attribute only
#   9 RE-ENTRANT container (a link / catalogue-backed folder): before answering, its __getitem__ itself resolves an
#     absolute path with find_resource() / traverse() and normalises a text with traversal_path_info() -- a traversal
#     INSIDE a traversal (not nested further); the ContextFound subscriber of such a history calls back in as well
#   (the documented algorithm obtains `__getitem__` as an attribute of the resource and calls it; for leaves 7/8 = 0)
# (a root WITHOUT a __parent__ attribute is not location-aware -- the glossary demands `__parent__ = None` -- and
# find_root raises AttributeError on it; that case is outside the property's quantifier and not generated)
FLAVOURS = (0, 1, 2, 3, 4, 5, 6, 7, 8, 9)


def _flavour_ns(fl):
    ns = {}
    if fl == 1:
        ns['__bool__'] = lambda self: False
    elif fl == 2:
        ns['__len__'] = lambda self: 0
    elif fl == 3:
        ns['__eq__'] = lambda self, other: True
        ns['__ne__'] = lambda self, other: False
        ns['__hash__'] = lambda self: 7
    elif fl == 4:
        ns['__eq__'] = lambda self, other: self is other
        ns['__hash__'] = None
    elif fl == 5:
        ns['__eq__'] = lambda self, other: False
        ns['__ne__'] = lambda self, other: True
        ns['__hash__'] = lambda self: 11
    return ns


class _LazyFolder(dict, Folder):
    """flavour 6: an (always empty, hence falsy) dict whose children are materialised by __missing__"""

    def __init__(self, name, parent, pos):
        dict.__init__(self)
        Folder.__init__(self, name, parent, pos)

    def __getitem__(self, key):
        return dict.__getitem__(self, key)

    def __missing__(self, key):
        return Folder.__getitem__(self, key)

    __hash__ = object.__hash__

    def __eq__(self, other):
        return self is other

    def __ne__(self, other):
        return self is not other


class _InstFolder(Leaf):
    """flavour 7: no __getitem__ on the class; each instance binds its own"""

    def __init__(self, name, parent, pos):
        Leaf.__init__(self, name, parent, pos)
        self._items = []
        self.__getitem__ = self._lookup

    def _lookup(self, key):
        for k, v in self._items:
            if k == key:
                return v
        raise KeyError(key)


_reenter = {'depth': 0}


def _inner_traversals(node, key):
    """what a link-resolving container does inside __getitem__: other traversals, answers discarded"""
    if _reenter['depth'] or not _impl:
        return
    _reenter['depth'] += 1
    try:
        T = _impl['T']
        root = node
        while getattr(root, '__parent__', None) is not None:
            root = root.__parent__
        for f in (lambda: T.find_resource(node, ('', key, 'x')), lambda: T.traverse(node, '/a/../b/@@v/s'),
                  lambda: T.traversal_path_info('/' + key.encode('utf-8', 'surrogatepass').decode('latin-1') + '/..'),
                  lambda: T.ResourceTreeTraverser(root)(_impl['Request'](dict(_impl['base'], PATH_INFO='/x/y',
                                                                              **{_impl['vh']: '/a'})))):
            try:
                f()
            except Exception:
                pass
    finally:
        _reenter['depth'] -= 1


class _ReentrantFolder(Folder):
    def __getitem__(self, key):
        _inner_traversals(self, key)
        return Folder.__getitem__(self, key)


class _ProxyFolder(Leaf):
    """flavour 8: a location-aware proxy around a real Folder; everything it does not have itself (_items,
    __getitem__) is forwarded by __getattr__"""

    def __init__(self, name, parent, pos):
        Leaf.__init__(self, name, parent, pos)
        self.__dict__['_real'] = Folder(name, parent, pos)

    def __getattr__(self, attr):
        return getattr(self.__dict__['_real'], attr)


_CLS = {}


def _cls(fl, folder):
    key = (fl, folder)
    if key not in _CLS:
        base = Folder if folder else Leaf
        if fl == 6 and folder:
            _CLS[key] = _LazyFolder
        elif fl == 7 and folder:
            _CLS[key] = _InstFolder
        elif fl == 8 and folder:
            _CLS[key] = _ProxyFolder
        elif fl == 9 and folder:
            _CLS[key] = _ReentrantFolder
        elif fl in (0, 6, 7, 8, 9):
            _CLS[key] = base
        else:
            _CLS[key] = type('%s_f%d' % (base.__name__, fl), (base,), _flavour_ns(fl))
    return _CLS[key]


def build_tree(t, name=None, parent=None, pos=(), flav=None, ctr=None):
    """flav = list of flavour numbers, assigned to the nodes in preorder (cyclically); None/[] = all plain"""
    ctr = ctr if ctr is not None else [0]
    fl = flav[ctr[0] % len(flav)] if flav else 0
    ctr[0] += 1
    if t is None:
        node = _cls(fl, False)(name, parent, list(pos))
    else:
        node = _cls(fl, True)(name, parent, list(pos))
        for i, (nm, c) in enumerate(t):
            node._items.append((nm, build_tree(c, nm, node, pos + (i,), flav, ctr)))
    return node


def res_at(root, pos):
    r = root
    for i in pos:
        r = r._items[i][1]
    return r


def setup(tier):
    if _impl:
        return
    from pyramid.config import Configurator
    from pyramid.events import ContextFound
    from pyramid.request import Request
    from pyramid import traversal
    cur = {'root': None, 'seen': None}

    def root_factory(request):
        return cur['root']

    def on_context(event):
        r = event.request
        if cur.get('reenter'):
            # a subscriber that calls back into traversal while the router is between traversal and view lookup
            _inner_traversals(r.context, 'a')
        cur['seen'] = {'context': r.context, 'view_name': r.view_name, 'subpath': r.subpath,
                       'traversed': r.traversed, 'virtual_root': r.virtual_root,
                       'virtual_root_path': r.virtual_root_path, 'root': r.root}
        cur['attrs'] = {k: v for k, v in r.__dict__.items() if k in ATTR_KEYS}
        cur['matchdict'] = r.matchdict

    config = Configurator(root_factory=root_factory)
    config.add_subscriber(on_context, ContextFound)
    app = config.make_wsgi_app()
    config2 = Configurator(root_factory=root_factory)
    config2.add_subscriber(on_context, ContextFound)
    for name, pattern, trav in ROUTES:
        if trav is None:
            config2.add_route(name, pattern)
        else:
            config2.add_route(name, pattern, traverse=trav)
    app2 = config2.make_wsgi_app()
    _impl.update(seg0=dict(getattr(traversal, '_segment_cache', {}) or {}))
    _impl.update(cur=cur, app=app, app2=app2, mapper=config2.get_routes_mapper(), Request=Request, T=traversal,
                 base=dict(Request.blank('/').environ), vh=traversal.VH_ROOT_KEY)


ATTR_KEYS = ('context', 'view_name', 'subpath', 'traversed', 'virtual_root', 'virtual_root_path', 'root')


def _aval(v):
    if isinstance(v, Leaf):
        return [0, list(v._pos)]
    if isinstance(v, str):
        return [1, v]
    if isinstance(v, (tuple, list)) and all(isinstance(x, str) for x in v):
        return [2, list(v)]
    return ['NOT-A-VALUE', repr(v)[:40]]


def _run_router(root, o, app_key):
    cur = _impl['cur']
    cur.update(root=root, seen=None, attrs=None, matchdict=None)
    err = None
    try:
        body = _impl[app_key](_env(o), lambda status, headers, exc_info=None: None)
        for _ in body:
            pass
    except Exception as e:
        err = e
    finally:
        cur['root'] = None
    if cur['attrs'] is None:
        return _exc(err) if err is not None else ['ROUTER-NO-CONTEXT']
    if app_key == 'app2':
        want = route_oracle(o)
        got = None if cur['matchdict'] is None else _md_part(cur['matchdict'])
        if want != got:
            return ['ROUTE-MATCHDICT-DIFFERS', want, got]
    return [7, sorted([k, _aval(v)] for k, v in cur['attrs'].items())]


def _tdict(d):
    def p(x):
        return list(x._pos) if isinstance(x, Leaf) else ['NOT-A-RESOURCE', repr(x)[:40]]

    def seq(x):
        return list(x) if isinstance(x, (tuple, list)) else ['NOT-A-SEQ', repr(x)[:40]]
    return [0, p(d['context']), d['view_name'], seq(d['subpath']), seq(d['traversed']),
            p(d['virtual_root']), seq(d['virtual_root_path']), p(d['root'])]


def _exc(e):
    n = type(e).__name__
    return [1, EXC[n]] if n in EXC else ['EXC', n, str(e)[:80]]


class _S(str):
    """a str subclass (no behaviour of its own): `type(x) is str` / `x.__class__ in (str, bytes)` tests see the difference"""
    __slots__ = ()


_mode = {'strsub': 0}


def _s(x):
    return _S(x) if _mode['strsub'] and isinstance(x, str) else x


def _py_path(p):
    if isinstance(p, str):
        return _s(p)
    return tuple(_s(x) for x in p)


def _api_path(p):
    if isinstance(p, str):
        return _s(p)
    return [_s(x) for x in p] if _mode['strsub'] == 2 else tuple(_s(x) for x in p)


def _run_op(root, o, trav=None):
    T = _impl['T']
    k = o['k']
    if k == 'req':
        env = dict(_impl['base'])
        if o['path_info'] is None:
            del env['PATH_INFO']
        else:
            env['PATH_INFO'] = o['path_info']
        if o['vroot'] is not None:
            env[_impl['vh']] = o['vroot']
        req = _impl['Request'](dict(env))
        if o['md'] is not None:
            req.matchdict = {kk: _py_path(v) for kk, v in o['md'].items()}
        try:
            out = _tdict(T.ResourceTreeTraverser(root)(req))
        except Exception as e:
            out = _exc(e)
        if trav is not None:
            # the same request on the ONE traverser object that serves every `req` of this history: a traverser must
            # not remember anything from earlier calls
            req2 = _impl['Request'](dict(env))
            if o['md'] is not None:
                req2.matchdict = {kk: _py_path(v) for kk, v in o['md'].items()}
            try:
                reused = _tdict(trav(req2))
            except Exception as e:
                reused = _exc(e)
            if reused != out:
                return ['TRAVERSER-REUSE-DIFFERS', out, reused]
        if o['md'] is None:
            # the same request through the router: attributes seen after traversal
            cur = _impl['cur']
            cur['root'], cur['seen'] = root, None
            try:
                body = _impl['app'](dict(env), lambda status, headers, exc_info=None: None)
                for _ in body:
                    pass
                via = _tdict(cur['seen']) if cur['seen'] is not None else ['ROUTER-NO-CONTEXT']
            except Exception as e:
                # an exception raised after ContextFound (e.g. by the not-found rendering) is not traversal's
                via = _tdict(cur['seen']) if cur['seen'] is not None else _exc(e)
            finally:
                cur['root'] = None
            if via != out:
                return ['ROUTER-DIFFERS', out, via]
        return out
    if k == 'router':
        return _run_router(root, o, 'app')
    if k == 'route':
        return _run_router(root, o, 'app2')
    if k == 'rmd':
        got = _rmd_info(o)
        if got is None:
            return [9, [], []]
        out = [9]
        for key in ('traverse', 'subpath'):
            v = got[1].get(key, None)
            out.append([] if v is None else [v if isinstance(v, str) else list(v)])
        return out
    if k in ('api', 'find'):
        res = res_at(root, o['start'])
        try:
            if k == 'api':
                return _tdict(T.traverse(res, _api_path(o['path'])))
            r = T.find_resource(res, _api_path(o['path']))
            return [4, list(r._pos)]
        except KeyError:
            return [5]
        except Exception as e:
            return _exc(e)
    if k in ('tpi', 'tp'):
        try:
            r = (T.traversal_path_info if k == 'tpi' else T.traversal_path)(_s(o['path']))
            return [3, list(r)]
        except Exception as e:
            return _exc(e)
    try:
        return [6, T.quote_path_segment(_s(o['seg']), o['safe'])]
    except Exception as e:
        return _exc(e)


def run_impl(case):
    if not _impl:
        setup('quick')
    # a case is a self-contained history: start from cold caches so that a replay file reproduces
    # in a fresh process exactly what was observed (lru_cache.cache_clear is public functools API)
    T = _impl['T']
    for name in ('split_path_info', 'traversal_path_info', '_join_path_tuple'):
        clear = getattr(getattr(T, name, None), 'cache_clear', None)
        if clear is not None:
            clear()
    if isinstance(getattr(T, '_segment_cache', None), dict):
        # back to the IMPORT-TIME content (normally empty), not to "empty": a preloaded dictionary is part of the code
        T._segment_cache.clear()
        T._segment_cache.update(_impl.get('seg0', {}))
    root = build_tree(case['tree'], flav=case.get('flav'))
    _mode['strsub'] = case.get('strsub') or 0
    _impl['cur']['reenter'] = 9 in (case.get('flav') or [])
    trav = T.ResourceTreeTraverser(root)       # one long-lived traverser per history, next to a fresh one per call
    return [_run_op(root, o, trav) for o in case['ops']]


# ------------------------------------------------------------------ judging
def equiv(case, obs, model):
    """model [2] = outside the model (URL-with-scheme paths): anything goes"""
    if not isinstance(model, list) or len(model) != len(obs):
        return False
    return all(m == [2] or m == o for o, m in zip(obs, model))


def _constrained(s):
    return s != ['none'] and s != [2]


def spec_holds(case, obs, spec):
    if spec is None:
        return None
    any_c = False
    for o, s in zip(obs, spec):
        if not _constrained(s):
            continue
        any_c = True
        if o != s:
            return False
    return True if any_c else None


FINDING_TRAVERSED = 'C02-traversed-under-vroot'


def _as_tdict(o):
    """an attribute dictionary [7, items] in the shape of a traverser dictionary observation"""
    if isinstance(o, list) and len(o) == 2 and o[0] == 7:
        try:
            d = {k: v[1] for k, v in o[1]}
            return [0] + [d[k] for k in ATTR_KEYS]
        except Exception:
            return o
    return o


def _is_traversed_finding(op, o, s):
    o, s = _as_tdict(o), _as_tdict(s)
    """exactly: virtual root present, both sides a dictionary, every field as specified except
    `traversed`, which is the specified value followed by the next len(vroot_tuple) segments
    of the unconsumed rest (view-name segment first)"""
    if op['k'] not in ('req', 'router', 'route') or op['vroot'] is None:
        return False
    if not (isinstance(o, list) and isinstance(s, list) and len(o) == 8 and len(s) == 8 and o[0] == 0 and s[0] == 0):
        return False
    if o[1:4] != s[1:4] or o[5:] != s[5:]:
        return False
    want, got, n = s[4], o[4], len(s[6])
    if got[:len(want)] != want or len(got) == len(want) or n == 0:
        return False
    extra = got[len(want):]
    vn, sub = s[2], s[3]
    if len(extra) != min(n, 1 + len(sub)):
        return False
    # the path must not be exhausted: exhausted <=> view name '' and the subpath is the matchdict's
    return extra[0] in (vn, '@@' + vn) and extra[1:] == sub[:len(extra) - 1]


def classify(case, obs, spec):
    if spec is None:
        return None
    bad = [(op, o, s) for op, o, s in zip(case['ops'], obs, spec) if _constrained(s) and o != s]
    if bad and all(_is_traversed_finding(op, o, s) for op, o, s in bad):
        return FINDING_TRAVERSED
    return None


def _ok(o):
    o = _as_tdict(o)
    return isinstance(o, list) and len(o) == 8 and o[0] == 0


def nontrivial(case, obs):
    ds = [_as_tdict(o) for o in obs if _ok(o)]
    consumed = any(o[4] for o in ds)
    early = any((o[2] != '' or o[6]) for o in ds)
    return consumed and early


def kinds(case, obs):
    ks = []
    if case.get('tag') == 'sweep':
        ks.append('sweep-case')
        ks.append('sweep-ops:%d' % len(case['ops']))
        return ks + sorted(set('sweep-out:' + ('ok' if _ok(o) else 'other') for o in obs))
    for op, o in zip(case['ops'], obs):
        k = op['k']
        if k == 'rmd':
            got = _rmd_info(op)
            ks.append('rmd:' + ('no-match' if got is None else got[0]))
            if got is not None and got[1].get('traverse') in ('', ()) :
                ks.append('rmd-empty-captured-traverse')
        if k in ('router', 'route'):
            ks.append('entry:' + k)
            ks.append('vroot:' + ('absent' if op['vroot'] is None else 'present'))
            if k == 'route':
                md = route_oracle(op)
                ks.append('route:' + ('no-match' if md is None else 'md[%s]' % ','.join(
                    '%s=%s' % (kk, 'str' if isinstance(v, str) else 'tuple') for kk, v in sorted(md.items()))))
        o = _as_tdict(o)
        if k == 'req':
            entry = 'pathinfo+router' if op['md'] is None else \
                'md-' + ('none' if 'traverse' not in op['md'] else 'str' if isinstance(op['md']['traverse'], str) else 'tuple')
            ks.append('entry:' + entry)
            ks.append('vroot:' + ('absent' if op['vroot'] is None else 'present'))
        elif k not in ('router', 'route'):
            ks.append('entry:%s-%s' % (k, 'str' if isinstance(op.get('path', ''), str) else 'tuple') if k in ('api', 'find')
                      else 'entry:' + k)
        if _ok(o):
            ctx = node_at(case['tree'], o[1])
            out = 'exhausted-or-empty-view' if o[2] == '' else 'stopped'
            if o[6]:
                ks.append('vroot-reached' if o[5] != o[7] else 'vroot-not-reached')
            if out == 'stopped':
                out = 'stopped-at-leaf' if ctx is None else 'stopped-missing-or-selector'
            ks.append('out:' + out)
            ks.append('consumed:%d' % min(len(o[4]), 4))
        elif isinstance(o, list) and o and o[0] == 1:
            ks.append('out:exc-%d' % o[1])
        elif isinstance(o, list) and o:
            ks.append('out:tag-%s' % (o[0],))
        p = op.get('path_info') or ''
        if isinstance(p, str) and '..' in p:
            ks.append('has-dotdot')
        if isinstance(p, str) and '@@' in p:
            ks.append('has-selector')
    ks.append('ops:%d' % len(case['ops']))
    ks.append('tree-names:' + _name_class(case['tree']))
    fl = case.get('flav')
    ks.append('resources:' + ('plain' if not fl else 'mixed' if len(set(fl)) > 1 else 'flavour-%d' % fl[0]))
    ks.append('strings:' + {0: 'str', 1: 'str-subclass', 2: 'str-subclass+list-paths'}[case.get('strsub') or 0])
    return ks


def _tree_names(t):
    for nm, c in (t or []):
        yield nm
        yield from _tree_names(c)


def _name_class(tree):
    import unicodedata
    names = [n for n in _tree_names(tree)]
    try:
        if any(unicodedata.normalize('NFC', n) != n for n in names):
            return 'some-not-NFC'
        if any(unicodedata.normalize('NFKC', n) != n or n.casefold() != n for n in names):
            return 'some-not-NFKC-or-casefold'
    except Exception:
        return 'surrogates'
    return 'all-normal' if any(ord(c) > 127 for n in names for c in n) else 'ascii-only'



def describe(case):
    return case


def explain(item):
    out = []
    for i, (op, o, s) in enumerate(zip(item['case']['ops'], item['impl'] or [], item['spec'] or [])):
        if _constrained(s) and o != s:
            out.append({'op_index': i, 'op': op, 'observed': o, 'property_demands': s,
                        'fields': ['tag', 'context', 'view_name', 'subpath', 'traversed', 'virtual_root',
                                   'virtual_root_path', 'root']})
    return out


# ------------------------------------------------------------------ violation search
def targeted(broken, disagreements, rng):
    """hand-picked histories for the edits of DESIGN 4.21 and section 5"""
    t = [['a', [['x', [['y', None]]], ['b', None]]], ['b', [['x', None]]], ['%41', None], ['A', None], ['@v', None]]
    out = []

    def req(pi, vroot=None, md=None):
        return {'k': 'req', 'path_info': pi, 'md': md, 'vroot': vroot}
    # '..' at / above the root and under a virtual root
    for pi in ['/..', '/../a', '/a/../..', '/a/../../b/x', '/../b/x', '/a/x/../../..']:
        for vr in [None, '/a', '/a/x', '/b']:
            out.append({'tree': t, 'ops': [req(pi, vr)]})
    # selectors of one and two characters
    for pi in ['/@v', '/a/@x', '/@@v/q', '/a/@@', '/@', '/a/@@x/y/z']:
        out.append({'tree': t, 'ops': [req(pi), req('/', None, {'traverse': pi})]})
    # segment cache filled under other safe sets, then tuple paths with the same segments
    for seg in ['%41', 'a%2Fb', 'a:b', 'a/b', '%']:
        for safe in SAFES:
            out.append({'tree': t, 'ops': [{'k': 'quote', 'seg': seg, 'safe': safe},
                                            {'k': 'api', 'start': [], 'path': ['', seg]},
                                            {'k': 'find', 'start': [], 'path': ['', seg]},
                                            {'k': 'quote', 'seg': seg, 'safe': "~!$&'()*+,;=:@"}]})
    # early stops under virtual roots
    for vr in ['/a', '/a/x', '/a/', '/b/x']:
        for pi in ['/q', '/x/q/r', '/@@v/s', '/x/y/z/w']:
            out.append({'tree': t, 'ops': [req(pi, vr)]})
    # names that a Unicode canonicaliser would rewrite: under a virtual root, via traversal_path(_info), via the
    # traverse= route, via PATH_INFO and via tuple paths
    for nm in UNORM:
        tt = [[nm, [['x', None]]], ['a', None]]
        w = wsgi('/' + nm)
        out.append({'tree': tt, 'ops': [req('/x', w), req(w + '/x'), {'k': 'tpi', 'path': w + '/x'},
                                        {'k': 'tp', 'path': '/' + quote_seg(rng, nm)},
                                        {'k': 'route', 'path_info': '/t' + w + '/x', 'vroot': None},
                                        {'k': 'router', 'path_info': w, 'vroot': w},
                                        {'k': 'find', 'start': [], 'path': ['', nm, 'x']}]})
    # near misses of '', '.', '..', '@@v' as names, view names and subpath elements, by every way into the traverser
    for nm in NEARMISS:
        tt = [[nm, [['x', None]]], ['a', [[nm, None], ['x', None]]]]
        w = wsgi('/' + nm)
        out.append({'tree': tt, 'ops': [req(w + '/x'), req('/a' + w + '/x'), req('/x', w), req('/a/q' + w + '/s'),
                                        req('/', None, {'traverse': [nm, 'x'], 'subpath': 'p/' + nm + '/q'}),
                                        req('/', None, {'traverse': 'a/' + nm, 'subpath': ['p', nm]}),
                                        {'k': 'tpi', 'path': w + '/x'}, {'k': 'tp', 'path': '/a/' + quote_seg(rng, nm)},
                                        {'k': 'api', 'start': [1], 'path': ['', nm, 'x']},
                                        {'k': 'find', 'start': [], 'path': 'a/' + quote_seg(rng, nm)},
                                        {'k': 'route', 'path_info': '/r' + w + '/x', 'vroot': None}]})
    # falsy captured values: the URL ends right after the fixed part of a route, or the remainder normalises to nothing
    for pre in ['/r', '/s/a', '/u/a', '/x/a', '/z/a/b', '/q/a', '/p/a', '/q/b', '/p/b']:
        for nothing in NOTHING:
            pi = pre + '/' + '/'.join(nothing)
            out.append({'tree': t, 'ops': [{'k': 'rmd', 'path_info': pi, 'vroot': None},
                                            {'k': 'route', 'path_info': pi, 'vroot': None},
                                            {'k': 'route', 'path_info': pi, 'vroot': '/a'}]})
    # odd-but-legitimate resource objects (falsy, empty, equal-to-everything, unhashable, no __parent__ on the root):
    # absolute and relative paths from a deep start, PATH_INFO under a virtual root, the Router
    for f in FLAVOURS[1:]:
        for start in ([0, 0, 0], [0, 0], [1]):
            out.append({'tree': t, 'flav': [f], 'ops': [
                {'k': 'api', 'start': start, 'path': '/a/x'}, {'k': 'find', 'start': start, 'path': ['', 'b', 'x']},
                {'k': 'api', 'start': start, 'path': ['', 'a', 'q']}, {'k': 'api', 'start': [0], 'path': 'x/y'},
                req('/x/y', '/a'), {'k': 'router', 'path_info': '/a/x/y/z', 'vroot': None},
                {'k': 'route', 'path_info': '/r/a/x', 'vroot': '/'}]})
    for d in disagreements[:20]:
        c = d.get('case')
        if c:
            for o in c['ops']:
                out.append(dict({'tree': c['tree'], 'ops': [o]}, **({'flav': c['flav']} if c.get('flav') else {})))
    for _ in range(2000):
        out.append(gen_case(rng))
    return out
