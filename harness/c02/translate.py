"""C02 translator: Python ast of src/pyramid/traversal.py -> Gallina definitions, re-run on every check
(prop.facts) and emitted into coq/Gen/Facts_C02.v:

  split_path_info            -> gen_split_path_info (p : text) : list text
  decode_path_info           -> gen_decode_path_info (p : text) : result text
  traversal_path_info        -> gen_traversal_path_info (p : text) : result (list text)
  ResourceTreeTraverser.__call__ is translated in two pieces that are composed at the statement `root = self.root`:
    the statements before it (match dictionary / PATH_INFO / virtual-root header)
                             -> gen_call_preamble (q : request) : result (vpath, path, subpath, vroot_tuple, vroot_idx)
    the statements from it on (the `vpath == '/'` test, the walk loop, the four returned dictionaries)
                             -> gen_call_tail (vpath path : text) (subpath vroot_tuple : list text)
                                              (vroot_idx : Z) (root : rnode) : tdict
    gen_call root q = gen_call_preamble q >>= gen_call_tail .. root     (the five variables are exactly those the
                             preamble assigns on every path and the tail reads; any other name the tail reads is a Problem)
  find_root                  -> gen_find_root_c02 (tree : res) (resource : rnode) : rnode
  traversal_path             -> gen_traversal_path (p : text) : result (list text)      (for a str argument)
  _join_path_tuple           -> gen_join_path_tuple_c02 (t : list text) : result text       (for a tuple of str)

Fail-closed: a statement outside the SUBSET, an expression outside the PRIMITIVE TABLE, a typing surprise, a
changed module-level binding the table relies on -> Problem; the caller records it as a broken tie and emits the
stored fallback text (harness/c02/gen_fallback.json = the translation of the reference text) so that the Coq
file still type-checks.  (Adapted from harness/c11/translate.py; the control-flow part is the same scheme.)

=== CONTROL FLOW (translated mechanically, continuation-passing, nothing is looked up) ==================
  block s1; s2; ...      the translation of s1 receives the translation of the rest as its continuation
  for T in E: B ; rest   (fix loopN (lN : list text) (c_v.. : carried) {struct lN} : ret :=
                            match lN with [] => <rest> | x :: tN => <B> end) E v..
                         carried = variables assigned in B that are bound at loop entry, ordered by first
                         occurrence in B
     continue / end of B recursive call loopN tN v..        break   <rest> with the current carried values
     return e            e    (Ok e when the function's type is result T and e : T)
     variables first assigned in B are local to one iteration
  if c: A else: B ; rest decision tree over the ATOMS of c (and/or/not, elif vs nested if, repeated tests on a
                         path resolved, equal branches merged) -- exactly as for C11
  v = w = e / v = e      substitution (no let is emitted; names of locals occur only in binders)
  v += e                 v := v + e (int)
  v = CALL ; rest        CALL of type result T in a function of type result U:
                         match CALL with Ok x => <rest with v := x> | Exc e => Exc e | Unsupported => Unsupported end
  try: g = X.__getitem__ / except AttributeError: H ; rest
                         if has_getitem X then <rest, g bound to "the item lookup of X"> else <H ; rest>
  try: n = g(e) / except KeyError: H ; rest          (g bound as above, e a str)
                         match child X e with None => <H ; rest> | Some n' => <rest with n := n'> end
  try: v = CALL / except UnicodeDecodeError as e: raise URLDecodeError(e.<attr>, ..) ; rest
                         match CALL with Ok x => <rest> | Exc UnicodeDecodeError | Exc URLDecodeError => Exc URLDecodeError
                                       | Exc UnicodeEncodeError => Exc UnicodeEncodeError | Unsupported => Unsupported end
                         (URLDecodeError subclasses UnicodeDecodeError: both are caught)
  try: v = E[request.path_info] / except KeyError: H / except UnicodeDecodeError as e: raise URLDecodeError(e.<attr>, ..) ; rest
                         match q_path_info q with None => <H ; rest>
                         | Some raw => match webob_path_info raw with Ok pi => <rest with v := E[pi]> | (as above) end end
  if m is not None: A else: B      (m = request.matchdict)   match q_matchdict q with Some md => <A, m := md> | None => <B> end
  if is_nonstr_iter(v): A else: B  (v a match-dictionary value)  match v with MTuple l => <A, v := l : tuple>
                                                                              | MStr s => <B, v := s : str> end
  if self.VH_ROOT_KEY in environ: A else: B   match q_vroot q with Some raw => <A, environ[self.VH_ROOT_KEY] := raw> | None => <B> end
                         (each also negated / with `is None` / `not in`; only as the WHOLE test of an if)
  a or b   (value position)       if <a is falsy> then b else a      (str: == '' ; match-dictionary value: mval_falsy)
  end of the preamble             Ok (vpath, path, subpath, vroot_tuple, vroot_idx) -- each must be bound, with its type,
                                  on every path that reaches `root = self.root`

=== PRIMITIVE TABLE (trusted: each line is a claim about Python / Pyramid semantics) =====================
  str values                 text = list of code points; a str literal is its code points
  tuple / list of str        list text;  ()  []  -> [] ;  tuple(x) -> x ;  a + b -> a ++ b ; len(x) -> Z.of_nat (length x)
  int                        Z ; literals, + , -
  x[:e]   x[e:]              py_to e x   py_from e x   (Python slice bounds incl. negative ones, Lib/C02Expr)
  a == b / a != b            text_eqb a b (str; a constant operand is written second) ; Z.eqb (int)
  truth value of a str       negb (text_eqb x [])        of a tuple/list   negb (is_nil x)
  x.strip(c) x.split(c)      strip_char c x ; split_on c x      (c a one-character literal; Lib/Text)
  l.append(x)                l := snoc l x              (l a list created by [] in this function: no aliasing)
  del l[-1]                  l := drop_last l   ONLY on a path on which `l` was tested true (else IndexError)
  x.encode('latin-1')        latin1_encode_r x : result bytes   (UnicodeEncodeError above U+00FF)
  x.encode('ascii')          ascii_encode_r x : result bytes    (UnicodeEncodeError above U+007F)
  isinstance(x, str)         true for a str, false for bytes / a tuple (decided by the translator's typing: the argument
                             of traversal_path is a str -- bytes arguments are outside the model)
  unquote_bytes_to_wsgi(b)   unquote_to_wsgi b = Lib/Percent.unquote (urllib unquote_to_bytes, then latin-1: code point =
                             byte); the function itself stays shape-pinned
  traversal_path_info(x)     gen_traversal_path_info x
  x and y or z               z when x is falsy or y is falsy, else y (y may raise: only evaluated when x is truthy)
  [quote_path_segment(x) for x in t]   rmap_r (quote_segment_r path_segment_safe) t : the first exception propagates;
                             quote_path_segment with its DEFAULT safe set (PATH_SEGMENT_SAFE, a regenerated fact) for a
                             str segment = UTF-8 then urllib quote; the function itself stays shape-pinned, its
                             (segment, safe) dictionary is transparent (C02_memo_st_transparent)
  'c'.join(<raising list>)   rbind .. (fun l => Ok (join "c" l))
  a parameter named `tuple`  allowed for _join_path_tuple (it shadows the builtin, which the function does not call)
  y.decode('utf-8')          rbind y utf8_decode_r : result str (strict CPython UTF-8 = Lib/Utf8.decode)
  @lru_cache(n)              erased: memoisation is transparent (Proofs/C02_memo.v); n is a regenerated fact
  split_path_info(x)         gen_split_path_info x        decode_path_info(x)   gen_decode_path_info x
                             (their module-level bindings -- one plain def each -- are checked)
  self.root                  the parameter root : rnode  (ResourceTreeTraverser.__init__ must be `self.root = root`)
  self.VIEW_SELECTOR         view_selector (regenerated constant)
  X.__getitem__ / g(seg)     has_getitem X / child X seg   (Model/C02_base.v: a resource is a leaf or a first-match
                             association list; AttributeError / KeyError exactly as in the try shapes above)
  {'context': c, 'view_name': v, 'subpath': s, 'traversed': t, 'virtual_root': r, 'virtual_root_path': p, 'root': o}
                             mkT (fst c) v s t (fst r) p (fst o)    (exactly these seven keys; resources are observed
                             through their position)
  variables of __call__ handed from the preamble to the tail: vpath, path (str), subpath, vroot_tuple (tuples of
                             str), vroot_idx (int)
  request.environ / request.matchdict   the request q / q_matchdict q : option matchdict (None = no route matched)
  request.path_info          webob: environ['PATH_INFO'] (absent = KeyError) .encode('latin-1').decode('utf-8')
                             = q_path_info q / webob_path_info (Model/C02_base.v); only inside the try shape above
  m.get(k) or d              omval_or (md_<k> m) d : d when the key is absent (None) or its value falsy   (k as below)
  m.get('traverse', d) / m.get('subpath', d)   md_get md_traverse m d / md_get md_subpath m d : a str or a tuple of str
                             (ASSUMPTION of the property: match dictionary values are str or tuples of str)
  is_nonstr_iter(v)          v is the tuple alternative (pyramid.util.is_nonstr_iter: shape-pinned)
  self.VH_ROOT_KEY in environ / environ[self.VH_ROOT_KEY]    q_vroot q (the class attribute is tied to
                             interfaces.VH_ROOT_KEY by the class-body fact of c02facts.py)
  'c'.join(t)                join "c" t (Lib/Text)
  lineage(x)                 lineage_of tree x : x, its parent, .., the root (pyramid.location.lineage: shape-pinned)
  x.__parent__ is None       parent_is_none x   (position = []; the root's __parent__ is None -- glossary "location-aware")
  for x in lineage(..)       the same loop rule, elements of type rnode
"""
import ast
import json
import os

# every source function whose control flow this translator regenerates on every run (tools/coverage_map.py reads it);
# ResourceTreeTraverser.__call__ is translated as a whole (preamble ; tail)
TRANSLATED = ['pyramid/traversal.py:split_path_info', 'pyramid/traversal.py:decode_path_info',
              'pyramid/traversal.py:traversal_path_info', 'pyramid/traversal.py:ResourceTreeTraverser.__call__',
              'pyramid/traversal.py:find_root', 'pyramid/traversal.py:traversal_path',
              'pyramid/traversal.py:_join_path_tuple']

HERE = os.path.dirname(os.path.abspath(__file__))
FALLBACK = os.path.join(HERE, 'gen_fallback.json')

TEXT, SEGS, SEGSOWN, INT, NODE, BOOL, TDICT, BYTES, ERASED, SELF, GETITEM, EXCV = (
    'str', 'tuple', 'list(own)', 'int', 'resource', 'bool', 'dict', 'bytes', 'erased', 'self', 'bound __getitem__',
    'caught exception')
# the preamble of __call__ / find_root
REQ, ENVIRON, OPTMD, MD, MVAL, PRE, NODES = ('request', 'request.environ', 'matchdict or None', 'matchdict',
                                             'str or tuple (match dictionary value)', 'variables of the preamble',
                                             'lineage (resources)')
OPTMVAL = 'match dictionary value or None'


def RES(t):
    return ('result', t)


def coqty(t):
    if isinstance(t, tuple) and t[0] == 'result':
        return 'result (%s)' % coqty(t[1])
    return {TEXT: 'text', SEGS: 'list text', SEGSOWN: 'list text', INT: 'Z', NODE: 'rnode', BOOL: 'bool',
            TDICT: 'tdict', BYTES: 'list N', MVAL: 'mval', NODES: 'list rnode',
            PRE: 'text * text * list text * list text * Z'}[t]


def same(a, b):
    norm = lambda t: SEGS if t == SEGSOWN else t
    return norm(a) == norm(b)


class Problem(Exception):
    pass


def u(node):
    try:
        return ast.unparse(node)
    except Exception:
        return '<%s>' % type(node).__name__


# ---- Gallina terms
class Term:
    pass


class V(Term):
    def __init__(self, name):
        self.name = name

    def key(self):
        return ('V', self.name)


class K(Term):
    def __init__(self, text):
        self.text = text

    def key(self):
        return ('K', self.text)


class A(Term):
    def __init__(self, fn, args):
        self.fn, self.args = fn, list(args)

    def key(self):
        return ('A', self.fn) + tuple(a.key() for a in self.args)


class If(Term):
    def __init__(self, atom, t, e):
        self.atom, self.t, self.e = atom, t, e

    def key(self):
        return ('If', self.atom.key(), self.t.key(), self.e.key())


class MOpt(Term):
    def __init__(self, scrut, none, var, some):
        self.scrut, self.none, self.var, self.some = scrut, none, var, some

    def key(self):
        return ('MOpt', self.scrut.key(), self.none.key(), self.var, self.some.key())


class MMval(Term):
    """match on a match-dictionary value: a str or a tuple of str (is_nonstr_iter)"""

    def __init__(self, scrut, svar, sbr, lvar, lbr):
        self.scrut, self.svar, self.sbr, self.lvar, self.lbr = scrut, svar, sbr, lvar, lbr

    def key(self):
        return ('MMval', self.scrut.key(), self.svar, self.sbr.key(), self.lvar, self.lbr.key())


class Tup(Term):
    def __init__(self, args):
        self.args = list(args)

    def key(self):
        return ('Tup',) + tuple(a.key() for a in self.args)


class MRes(Term):
    """match on a result; caught = None (propagate every exception) or the handler term for the caught classes"""

    def __init__(self, scrut, var, ok, caught):
        self.scrut, self.var, self.ok, self.caught = scrut, var, ok, caught

    def key(self):
        return ('MRes', self.scrut.key(), self.var, self.ok.key(), self.caught.key() if self.caught else None)


class Loop:
    def __init__(self, n, ret_ty):
        self.n = n
        self.f, self.l, self.t = 'loop%d' % n, 'l%d' % n, 't%d' % n
        self.ret_ty = ret_ty
        self.elem = TEXT
        self.x = None
        self.carried = []


class Fix(Term):
    def __init__(self, loop, nil, cons, it, init):
        self.loop, self.nil, self.cons, self.it, self.init = loop, nil, cons, it, list(init)

    def key(self):
        return ('Fix', self.loop.n, self.nil.key(), self.cons.key(), self.it.key()) + tuple(a.key() for a in self.init)


class Jump(Term):
    def __init__(self, loop, args):
        self.loop, self.args = loop, list(args)

    def key(self):
        return ('Jump', self.loop.n) + tuple(a.key() for a in self.args)


# ---- conditions (as in c11)
def b_atom(t):
    return ('atom', t)


def b_not(b):
    return ('not', b)


def implied(b, pol, out):
    k = b[0]
    if k == 'atom':
        out[b[1].key()] = pol
    elif k == 'not':
        implied(b[1], not pol, out)
    elif k == 'and' and pol:
        for x in b[1]:
            implied(x, True, out)
    elif k == 'or' and not pol:
        for x in b[1]:
            implied(x, False, out)
    return out


def mk_if(b, t, e):
    k = b[0]
    if k == 'const':
        return t if b[1] else e
    if k == 'atom':
        return t if t.key() == e.key() else If(b[1], t, e)
    if k == 'not':
        return mk_if(b[1], e, t)
    if k == 'and':
        return t if not b[1] else mk_if(b[1][0], mk_if(('and', b[1][1:]), t, e), e)
    if k == 'or':
        return e if not b[1] else mk_if(b[1][0], t, mk_if(('or', b[1][1:]), t, e))
    raise Problem('internal: condition %r' % (b,))


def b_term(b):
    k = b[0]
    if k == 'const':
        return K('true' if b[1] else 'false')
    if k == 'atom':
        return b[1]
    if k == 'not':
        return A('negb', [b_term(b[1])])
    ts = [b_term(x) for x in b[1]]
    out = ts[-1]
    for t in reversed(ts[:-1]):
        out = A('andb' if k == 'and' else 'orb', [t, out])
    return out


def _with(d, k, v):
    d = dict(d)
    d[k] = v
    return d


def simplify(t, known):
    if isinstance(t, If):
        ak = t.atom.key()
        if ak in known:
            return simplify(t.t if known[ak] else t.e, known)
        a = simplify(t.t, _with(known, ak, True))
        b = simplify(t.e, _with(known, ak, False))
        return a if a.key() == b.key() else If(t.atom, a, b)
    if isinstance(t, MOpt):
        return MOpt(t.scrut, simplify(t.none, known), t.var, simplify(t.some, known))
    if isinstance(t, MRes):
        return MRes(t.scrut, t.var, simplify(t.ok, known), simplify(t.caught, known) if t.caught else None)
    if isinstance(t, MMval):
        return MMval(t.scrut, t.svar, simplify(t.sbr, known), t.lvar, simplify(t.lbr, known))
    if isinstance(t, Fix):
        return Fix(t.loop, simplify(t.nil, known), simplify(t.cons, known), t.it, t.init)
    return t


# ---- rendering
def render(t, ind):
    sp = ' ' * ind
    if isinstance(t, V):
        return t.name
    if isinstance(t, K):
        return t.text
    if isinstance(t, A):
        return '%s %s' % (t.fn, ' '.join(paren(a, ind) for a in t.args))
    if isinstance(t, Jump):
        lp = t.loop
        return '%s %s' % (lp.f, ' '.join([lp.t] + [paren(a, ind) for a in t.args]))
    if isinstance(t, If):
        return 'if %s\n%sthen%s\n%selse%s' % (render(t.atom, ind), sp, render_in(t.t, ind + 2), sp, render_in(t.e, ind + 2))
    if isinstance(t, MOpt):
        return 'match %s with\n%s| None =>%s\n%s| Some %s =>%s\n%send' % (
            render(t.scrut, ind), sp, render_in(t.none, ind + 4), sp, t.var, render_in(t.some, ind + 4), sp)
    if isinstance(t, MMval):
        return 'match %s with\n%s| MStr %s =>%s\n%s| MTuple %s =>%s\n%send' % (
            paren(t.scrut, ind) if isinstance(t.scrut, (If, MOpt, MRes, MMval, Fix)) else render(t.scrut, ind), sp, t.svar, render_in(t.sbr, ind + 4), sp, t.lvar, render_in(t.lbr, ind + 4), sp)
    if isinstance(t, Tup):
        return '(' + ', '.join(paren(a, ind) if isinstance(a, (If, MOpt, MRes, MMval, Fix)) else render(a, ind)
                               for a in t.args) + ')'
    if isinstance(t, MRes):
        if t.caught is None:
            mid = '%s| Exc e_ => Exc e_\n' % sp
        else:
            h = render_in(t.caught, ind + 4)
            mid = ('%s| Exc UnicodeDecodeError =>%s\n%s| Exc URLDecodeError =>%s\n'
                   '%s| Exc UnicodeEncodeError => Exc UnicodeEncodeError\n' % (sp, h, sp, h, sp))
        return 'match %s with\n%s| Ok %s =>%s\n%s%s| Unsupported => Unsupported\n%send' % (
            render(t.scrut, ind), sp, t.var, render_in(t.ok, ind + 4), mid, sp, sp)
    if isinstance(t, Fix):
        lp = t.loop
        bind = '(%s : list %s)' % (lp.l, coqty(lp.elem))
        for _, b, ty in lp.carried:
            bind += ' (%s : %s)' % (b, coqty(ty))
        args = [paren(t.it, ind)] + [paren(a, ind) for a in t.init]
        return '(fix %s %s {struct %s} : %s :=\n%s   match %s with\n%s   | [] =>%s\n%s   | %s :: %s =>%s\n%s   end) %s' % (
            lp.f, bind, lp.l, coqty(lp.ret_ty), sp, lp.l, sp, render_in(t.nil, ind + 6), sp, lp.x, lp.t,
            render_in(t.cons, ind + 6), sp, ' '.join(args))
    raise Problem('internal: cannot render %r' % (t,))


def render_in(t, ind):
    s = render(t, ind)
    if isinstance(t, (If, MOpt, MRes, MMval, Fix)):
        return '\n' + ' ' * ind + s
    return ' ' + s


def paren(t, ind):
    s = render(t, ind)
    if isinstance(t, Tup):
        return s
    return s if isinstance(t, (V, K)) and ' ' not in s and not s.startswith('-') else '(' + s + ')'


def text_lit(s):
    return K('[' + '; '.join(str(ord(c)) for c in s) + ']%N' if s else '[]')


def int_lit(n):
    return K('%d%%Z' % n if n >= 0 else '(%d)%%Z' % n)


def char_lit(node, what):
    if isinstance(node, ast.Constant) and isinstance(node.value, str) and len(node.value) == 1:
        return K('%d%%N' % ord(node.value))
    raise Problem('%s: argument must be a one-character literal: %s' % (what, u(node)))


def _ident(s):
    if not (s.isascii() and s.isidentifier()):
        raise Problem('identifier %r cannot be used as a binder name' % s)
    return s


DICT_KEYS = ['context', 'view_name', 'subpath', 'traversed', 'virtual_root', 'virtual_root_path', 'root']
DICT_TY = {'context': NODE, 'virtual_root': NODE, 'root': NODE, 'view_name': TEXT, 'subpath': SEGS,
           'traversed': SEGS, 'virtual_root_path': SEGS}

MODULE_FUNCS = {'split_path_info': ('gen_split_path_info', SEGS), 'decode_path_info': ('gen_decode_path_info', RES(TEXT))}
BUILTINS = ('tuple', 'len', 'KeyError', 'AttributeError', 'UnicodeDecodeError', 'isinstance', 'str')
RESERVED = set(MODULE_FUNCS) | set(BUILTINS) | {'URLDecodeError', 'is_nonstr_iter', 'lineage', 'unquote_bytes_to_wsgi',
                                                 'quote_path_segment',
                                                 'traversal_path_info'}
SPLIT_AT = 'root = self.root'
# the variables that are live across the split of __call__ (assigned by the preamble, read by the tail)
PRE_OUT = [('vpath', TEXT), ('path', TEXT), ('subpath', SEGS), ('vroot_tuple', SEGS), ('vroot_idx', INT)]
MD_KEYS = {'traverse': 'md_traverse', 'subpath': 'md_subpath'}

FUNCS = [
    dict(qual='split_path_info', gen='gen_split_path_info', ret=SEGS, params=[(V('p'), TEXT)],
         sig='(p : text) : list text', default='[]'),
    dict(qual='decode_path_info', gen='gen_decode_path_info', ret=RES(TEXT), params=[(V('p'), TEXT)],
         sig='(p : text) : result text', default='Unsupported'),
    dict(qual='traversal_path_info', gen='gen_traversal_path_info', ret=RES(SEGS), params=[(V('p'), TEXT)],
         sig='(p : text) : result (list text)', default='Unsupported'),
    dict(qual='ResourceTreeTraverser.__call__', gen='gen_call_preamble', ret=RES(PRE), head_until=SPLIT_AT,
         sig='(q : request) : result (text * text * list text * list text * Z)', default='Unsupported'),
    dict(qual='traversal_path', gen='gen_traversal_path', ret=RES(SEGS), params=[(V('p'), TEXT)],
         sig='(p : text) : result (list text)', default='Unsupported'),
    dict(qual='_join_path_tuple', gen='gen_join_path_tuple_c02', ret=RES(TEXT), params=[(V('t'), SEGS)],
         sig='(t : list text) : result text', default='Unsupported', shadow_ok=('tuple',), listcomp=True),
    dict(qual='find_root', gen='gen_find_root_c02', ret=NODE, params=[(V('resource'), NODE)],
         sig='(tree : res) (resource : rnode) : rnode', default='resource'),
    dict(qual='ResourceTreeTraverser.__call__', gen='gen_call_tail', ret=TDICT, tail_from=SPLIT_AT,
         bound={'self': (None, SELF), 'request': (None, ERASED), 'environ': (None, ERASED), 'matchdict': (None, ERASED),
                'vroot_path': (None, ERASED),
                'vpath': (V('vpath'), TEXT), 'path': (V('path'), TEXT), 'subpath': (V('subpath'), SEGS),
                'vroot_tuple': (V('vroot_tuple'), SEGS), 'vroot_idx': (V('vroot_idx'), INT)},
         sig='(vpath path : text) (subpath vroot_tuple : list text) (vroot_idx : Z) (root : rnode) : tdict',
         default='mkT [] [] [] [] [] [] []'),
]


class FnTranslator:
    def __init__(self, fn, spec):
        self.fn, self.spec = fn, spec
        self.nloops = 0
        self.nbind = 0
        self.used = set()
        self.memo_late = []        # memoised module functions called at / after the entry of a loop (program order)

    def fresh(self, base):
        self.nbind += 1
        return '%s_%d' % (_ident(base), self.nbind)

    # ------------------------------------------------------------ entry
    def translate(self):
        fn, spec = self.fn, self.spec
        if not isinstance(fn, ast.FunctionDef):
            raise Problem('not a def')
        for d in fn.decorator_list:
            if not (isinstance(d, ast.Call) and isinstance(d.func, ast.Name) and d.func.id == 'lru_cache'
                    and len(d.args) == 1 and not d.keywords and isinstance(d.args[0], ast.Constant)
                    and isinstance(d.args[0].value, int)):
                raise Problem('decorator outside the table: %s' % u(d))
            self.used.add('lru_cache')
        a = fn.args
        if a.vararg or a.kwarg or a.kwonlyargs or a.defaults or a.kw_defaults or getattr(a, 'posonlyargs', []):
            raise Problem('unexpected parameter list')
        for n in ast.walk(fn):
            if isinstance(n, ast.Name) and isinstance(n.ctx, (ast.Store, ast.Del)) and n.id in RESERVED:
                raise Problem('the name %s of the primitive table is rebound inside the function' % n.id)
            if isinstance(n, ast.arg) and n.arg in RESERVED and n.arg not in spec.get('shadow_ok', ()):
                raise Problem('the name %s of the primitive table is a parameter' % n.arg)
            if isinstance(n, ast.ListComp) and spec.get('listcomp'):
                continue
            if isinstance(n, (ast.Global, ast.Nonlocal, ast.Lambda, ast.ListComp, ast.SetComp, ast.DictComp,
                              ast.GeneratorExp, ast.NamedExpr, ast.Await, ast.Yield, ast.YieldFrom, ast.While,
                              ast.With)) or \
                    (isinstance(n, (ast.FunctionDef, ast.AsyncFunctionDef, ast.ClassDef)) and n is not fn):
                raise Problem('construct outside the subset: %s' % type(n).__name__)
        env = {}
        body = list(fn.body)
        k_end = None
        if 'head_until' in spec:
            if [x.arg for x in a.args] != ['self', 'request']:
                raise Problem('expected parameters (self, request)')
            idx = [i for i, st in enumerate(body) if u(st) == spec['head_until']]
            if len(idx) != 1:
                raise Problem('statement `%s` not found exactly once at the top level' % spec['head_until'])
            body = body[:idx[0]]
            env = {'self': (None, SELF), 'request': (V('q'), REQ)}

            def k_end(env2, facts):
                # sequential composition at the split: the values of the variables that are live across it
                args = []
                for nm, ty in PRE_OUT:
                    if nm not in env2 or env2[nm][0] is None or not same(env2[nm][1], ty):
                        raise Problem('at `%s` the variable %s is %s, expected a %s on every path' % (
                            spec['head_until'], nm, env2[nm][1] if nm in env2 else 'unbound', ty))
                    args.append(env2[nm][0])
                return A('Ok', [Tup(args)])
        elif 'tail_from' in spec:
            if [x.arg for x in a.args] != ['self', 'request']:
                raise Problem('expected parameters (self, request)')
            idx = [i for i, st in enumerate(body) if u(st) == spec['tail_from']]
            if len(idx) != 1:
                raise Problem('statement `%s` not found exactly once at the top level' % spec['tail_from'])
            pre, body = body[:idx[0]], body[idx[0]:]
            stored = {n.id for st in pre for n in ast.walk(st) if isinstance(n, ast.Name) and isinstance(n.ctx, ast.Store)}
            for nm, (obj, ty) in spec['bound'].items():
                if obj is not None and nm not in stored:
                    raise Problem('the preamble does not assign %s' % nm)
                env[nm] = (obj, ty)
            for nm in stored:
                env.setdefault(nm, (None, ERASED))
        else:
            if len(a.args) != len(spec['params']):
                raise Problem('expected %d parameters, found %d' % (len(spec['params']), len(a.args)))
            for arg, (obj, ty) in zip(a.args, spec['params']):
                env[arg.arg] = (obj, ty)

        if k_end is None:
            def k_end(env2, facts):
                raise Problem('control can reach the end of the function without a return')
        return simplify(self.block(body, env, {}, k_end, None), {})

    # ------------------------------------------------------------ statements
    def block(self, stmts, env, facts, k, jumps):
        if not stmts:
            return k(env, facts)
        s, rest = stmts[0], stmts[1:]

        def k_next(env2, facts2):
            return self.block(rest, env2, facts2, k, jumps)

        if isinstance(s, ast.Expr) and isinstance(s.value, ast.Constant) and isinstance(s.value.value, str):
            return k_next(env, facts)
        if isinstance(s, ast.Pass):
            return k_next(env, facts)
        if isinstance(s, ast.Return):
            if s.value is None:
                raise Problem('bare return')
            return self.ret(s.value, env, s)
        if isinstance(s, ast.Continue):
            if jumps is None:
                raise Problem('continue outside a loop')
            return jumps[0](env, facts)
        if isinstance(s, ast.Break):
            if jumps is None:
                raise Problem('break outside a loop')
            return jumps[1](env, facts)
        if isinstance(s, ast.Assign):
            return self.assign(s, env, facts, k_next)
        if isinstance(s, ast.AugAssign):
            if not (isinstance(s.target, ast.Name) and isinstance(s.op, (ast.Add, ast.Sub))):
                raise Problem('augmented assignment outside the subset: %s' % u(s))
            val = ast.BinOp(left=ast.Name(id=s.target.id, ctx=ast.Load()), op=s.op, right=s.value)
            obj, ty = self.expr(val, env)
            if ty != INT:
                raise Problem('augmented assignment on a %s: %s' % (ty, u(s)))
            return k_next(_with(env, s.target.id, (obj, ty)), facts)
        if isinstance(s, ast.Delete):
            return k_next(self.delete(s, env, facts), facts)
        if isinstance(s, ast.Expr):
            return k_next(self.method_stmt(s, env), facts)
        if isinstance(s, ast.If):
            bt = self.binder_test(s, env, facts, k_next, jumps)
            if bt is not None:
                return bt
            c = self.cond(s.test, env)
            if c[0] == 'const':                         # decided by typing (isinstance): the dead branch is not translated
                return self.block(list(s.body if c[1] else s.orelse), env, facts, k_next, jumps)
            ft = implied(c, True, dict(facts))
            fe = implied(c, False, dict(facts))
            t = self.block(list(s.body), env, ft, k_next, jumps)
            e = self.block(list(s.orelse), env, fe, k_next, jumps)
            return mk_if(c, t, e)
        if isinstance(s, ast.Try):
            return self.try_stmt(s, env, facts, k_next, jumps)
        if isinstance(s, ast.For):
            return self.for_loop(s, env, facts, k_next)
        raise Problem('statement outside the subset: %s' % u(s).split('\n')[0])

    # tests that BIND: `m is [not] None` on request.matchdict, `[not] is_nonstr_iter(v)` on a match-dictionary value,
    # `self.VH_ROOT_KEY [not] in environ`
    def binder_test(self, s, env, facts, k_next, jumps):
        t, neg = s.test, False
        if isinstance(t, ast.UnaryOp) and isinstance(t.op, ast.Not):
            t, neg = t.operand, True

        def branches(env_yes, env_no):
            yes_body, no_body = (s.orelse, s.body) if neg else (s.body, s.orelse)
            return (self.block(list(yes_body), env_yes, facts, k_next, jumps),
                    self.block(list(no_body), env_no, facts, k_next, jumps))
        if isinstance(t, ast.Compare) and len(t.ops) == 1 and isinstance(t.ops[0], (ast.Is, ast.IsNot)) \
                and isinstance(t.comparators[0], ast.Constant) and t.comparators[0].value is None \
                and isinstance(t.left, ast.Name) and t.left.id in env and env[t.left.id][1] == OPTMD:
            if isinstance(t.ops[0], ast.Is):
                neg = not neg
            b = self.fresh('md')
            some, none = branches(_with(env, t.left.id, (V(b), MD)), env)
            return MOpt(env[t.left.id][0], none, b, some)
        if isinstance(t, ast.Call) and isinstance(t.func, ast.Name) and t.func.id == 'is_nonstr_iter' \
                and t.func.id not in env and len(t.args) == 1 and not t.keywords and isinstance(t.args[0], ast.Name) \
                and t.args[0].id in env and env[t.args[0].id][1] == MVAL:
            self.used.add('is_nonstr_iter')
            nm = t.args[0].id
            bs, bl = self.fresh(nm), self.fresh(nm)
            ltree, stree = branches(_with(env, nm, (V(bl), SEGS)), _with(env, nm, (V(bs), TEXT)))
            return MMval(env[nm][0], bs, stree, bl, ltree)
        if isinstance(t, ast.Compare) and len(t.ops) == 1 and isinstance(t.ops[0], (ast.In, ast.NotIn)) \
                and self.is_vh_key(t.left, env) and isinstance(t.comparators[0], ast.Name) \
                and t.comparators[0].id in env and env[t.comparators[0].id][1] == ENVIRON:
            if isinstance(t.ops[0], ast.NotIn):
                neg = not neg
            b = self.fresh('vh_raw')
            some, none = branches(_with(env, '$vh_raw', (V(b), TEXT)), env)
            self.used.add('self.VH_ROOT_KEY')
            return MOpt(A('q_vroot', [env[t.comparators[0].id][0]]), none, b, some)
        return None

    @staticmethod
    def is_vh_key(n, env):
        return isinstance(n, ast.Attribute) and n.attr == 'VH_ROOT_KEY' and isinstance(n.value, ast.Name) \
            and n.value.id in env and env[n.value.id][1] == SELF

    def value_expr(self, n, env):
        """an expression in VALUE position: additionally `a or b` (the first operand unless it is falsy)"""
        if isinstance(n, ast.BoolOp) and isinstance(n.op, ast.Or) and len(n.values) == 2 \
                and isinstance(n.values[0], ast.BoolOp) and isinstance(n.values[0].op, ast.And) \
                and len(n.values[0].values) == 2:
            # the pre-ternary idiom `x and y or z`: z when x is falsy (then `x and y` is x, falsy) or y is falsy, else y
            xo, xt = self.expr(n.values[0].values[0], env)
            yo, yt = self.expr(n.values[0].values[1], env)
            zo, zt = self.expr(n.values[1], env)
            if xo is None or yo is None or zo is None or xt not in (SEGS, SEGSOWN, TEXT) or zt != TEXT \
                    or yt not in (TEXT, RES(TEXT)):
                raise Problem('`x and y or z` outside the table (x a tuple/str, y a str or a raising str, z a str): %s' % u(n))
            xfalsy = A('is_nil', [xo]) if xt in (SEGS, SEGSOWN) else A('text_eqb', [xo, K('[]')])
            if yt == TEXT:
                return If(xfalsy, zo, If(A('text_eqb', [yo, K('[]')]), zo, yo)), TEXT
            if not isinstance(self.spec['ret'], tuple):
                raise Problem('a call that may raise in a function that is not modelled as raising: %s' % u(n))
            b = self.fresh('v')
            okz = A('Ok', [zo])
            return If(xfalsy, okz, MRes(yo, b, If(A('text_eqb', [V(b), K('[]')]), okz, A('Ok', [V(b)])), None)), RES(TEXT)
        if isinstance(n, ast.BoolOp) and isinstance(n.op, ast.Or) and len(n.values) == 2:
            ao, at = self.value_expr(n.values[0], env)
            bo, bt = self.value_expr(n.values[1], env)
            if ao is None or bo is None:
                raise Problem('`or` on an unmodelled value: %s' % u(n))
            if at == OPTMVAL and bt in (MVAL, TEXT, SEGS):
                return A('omval_or', [ao, self.as_mval(bo, bt)]), MVAL
            if at == MVAL and bt in (MVAL, TEXT, SEGS):
                return If(A('mval_falsy', [ao]), self.as_mval(bo, bt), ao), MVAL
            if at == TEXT and bt == TEXT:
                return If(A('text_eqb', [ao, K('[]')]), bo, ao), TEXT
            raise Problem('`or` between a %s and a %s is outside the table: %s' % (at, bt, u(n)))
        return self.expr(n, env)

    @staticmethod
    def as_mval(obj, ty):
        if ty == MVAL:
            return obj
        if ty == TEXT:
            return A('MStr', [obj])
        if ty in (SEGS,):
            return A('MTuple', [obj])
        raise Problem('a %s as a match-dictionary value' % ty)

    def ret(self, value, env, s):
        obj, ty = self.value_expr(value, env)
        want = self.spec['ret']
        if obj is None:
            raise Problem('return of an unmodelled value: %s' % u(s))
        if same(ty, want):
            return obj
        if isinstance(want, tuple) and same(ty, want[1]):
            return A('Ok', [obj])
        raise Problem('return of a %s where a %s is expected: %s' % (ty, want, u(s)))

    def assign(self, s, env, facts, k_next):
        names = []
        for tg in s.targets:
            if not isinstance(tg, ast.Name):
                raise Problem('assignment target outside the subset: %s' % u(s))
            names.append(tg.id)
        obj, ty = self.value_expr(s.value, env)
        if ty in (GETITEM, EXCV) or (ty == SELF):
            raise Problem('assignment of a %s outside the try shapes: %s' % (ty, u(s)))
        if ty == SEGSOWN and not (isinstance(s.value, ast.List) and not s.value.elts and len(names) == 1):
            raise Problem('a second name for a mutable list (aliasing is not modelled): %s' % u(s))
        if isinstance(ty, tuple):                      # a call that may raise: propagate
            want = self.spec['ret']
            if not isinstance(want, tuple):
                raise Problem('a call that may raise, outside try, in a function that is not modelled as raising: %s' % u(s))
            b = self.fresh(names[0])
            env2 = dict(env)
            for nm in names:
                env2[nm] = (V(b), ty[1])
            return MRes(obj, b, k_next(env2, facts), None)
        env2 = dict(env)
        for nm in names:
            env2[nm] = (obj, ty)
        return k_next(env2, facts)

    def delete(self, s, env, facts):
        tg = s.targets[0] if len(s.targets) == 1 else None
        ok = isinstance(tg, ast.Subscript) and isinstance(tg.value, ast.Name) and (
            (isinstance(tg.slice, ast.Constant) and tg.slice.value == -1)
            or (isinstance(tg.slice, ast.UnaryOp) and isinstance(tg.slice.op, ast.USub)
                and isinstance(tg.slice.operand, ast.Constant) and tg.slice.operand.value == 1))
        if not ok:
            raise Problem('del outside the table (only del l[-1]): %s' % u(s))
        name = tg.value.id
        if name not in env or env[name][1] != SEGSOWN:
            raise Problem('%s: not a list created by [] in this function' % u(s))
        sobj = env[name][0]
        if facts.get(A('is_nil', [sobj]).key()) is not False:
            raise Problem('%s: not dominated by a true emptiness test of the list (may raise IndexError)' % u(s))
        return _with(env, name, (A('drop_last', [sobj]), SEGSOWN))

    def method_stmt(self, s, env):
        c = s.value
        if not (isinstance(c, ast.Call) and isinstance(c.func, ast.Attribute) and isinstance(c.func.value, ast.Name)
                and not c.keywords and len(c.args) == 1 and c.func.attr == 'append'):
            raise Problem('expression statement outside the subset: %s' % u(s))
        name = c.func.value.id
        if name not in env or env[name][1] != SEGSOWN:
            raise Problem('%s: .append on something that is not a list created by [] in this function' % u(s))
        aobj, aty = self.expr(c.args[0], env)
        if aty != TEXT:
            raise Problem('%s: appending a %s' % (u(s), aty))
        return _with(env, name, (A('snoc', [env[name][0], aobj]), SEGSOWN))

    def check_reraise(self, h):
        r = h.body[0] if len(h.body) == 1 else None
        ok = h.name is not None and isinstance(r, ast.Raise) and r.cause is None and isinstance(r.exc, ast.Call) \
            and isinstance(r.exc.func, ast.Name) and r.exc.func.id == 'URLDecodeError' and not r.exc.keywords \
            and all(isinstance(x, ast.Attribute) and isinstance(x.value, ast.Name) and x.value.id == h.name
                    for x in r.exc.args)
        if not ok:
            raise Problem('handler outside the table (expected raise URLDecodeError(e.<attr>, ..)): %s'
                          % u(h).split('\n')[0])
        self.used.update(('UnicodeDecodeError', 'URLDecodeError'))

    def try_path_info(self, s, env, facts, k_next, jumps):
        """try: v = <expr over request.path_info> / except KeyError: H / except UnicodeDecodeError as e: raise URLDecodeError(..)"""
        v = s.body[0].targets[0].id
        val = s.body[0].value
        hk = [h for h in s.handlers if h.type.id == 'KeyError']
        hu = [h for h in s.handlers if h.type.id == 'UnicodeDecodeError']
        if len(hk) != 1 or len(hu) != 1 or hk[0].name is not None:
            raise Problem('try statement outside the table: %s' % u(s).split('\n')[0])
        self.check_reraise(hu[0])
        reads = [x for x in ast.walk(val) if isinstance(x, ast.Attribute) and x.attr == 'path_info'
                 and isinstance(x.value, ast.Name) and x.value.id in env and env[x.value.id][1] == REQ]
        if len(reads) != 1:
            raise Problem('try/except KeyError/UnicodeDecodeError around something that does not read request.path_info '
                          'exactly once: %s' % u(s.body[0]))
        if not isinstance(self.spec['ret'], tuple):
            raise Problem('try/except UnicodeDecodeError in a function that is not modelled as raising')
        q = env[reads[0].value.id][0]
        raw, b = self.fresh('raw'), self.fresh('pi')
        obj, ty = self.value_expr(val, _with(env, '$path_info', (V(b), TEXT)))
        if ty != TEXT or obj is None:
            raise Problem('%s: the value is a %s' % (u(s.body[0]), ty))
        self.used.add('KeyError')
        okt = k_next(_with(env, v, (obj, ty)), facts)
        none = self.block(list(hk[0].body), env, facts, k_next, jumps)
        return MOpt(A('q_path_info', [q]), none, raw,
                    MRes(A('webob_path_info', [V(raw)]), b, okt, A('Exc', [K('URLDecodeError')])))

    def try_stmt(self, s, env, facts, k_next, jumps):
        if (len(s.body) == 1 and not s.orelse and not s.finalbody and len(s.handlers) == 2
                and isinstance(s.body[0], ast.Assign) and len(s.body[0].targets) == 1
                and isinstance(s.body[0].targets[0], ast.Name)
                and all(isinstance(h.type, ast.Name) for h in s.handlers)):
            return self.try_path_info(s, env, facts, k_next, jumps)
        shape = (len(s.body) == 1 and not s.orelse and not s.finalbody and len(s.handlers) == 1
                 and isinstance(s.body[0], ast.Assign) and len(s.body[0].targets) == 1
                 and isinstance(s.body[0].targets[0], ast.Name) and isinstance(s.handlers[0].type, ast.Name))
        if not shape:
            raise Problem('try statement outside the table: %s' % u(s).split('\n')[0])
        v = s.body[0].targets[0].id
        val = s.body[0].value
        h = s.handlers[0]
        exc = h.type.id
        # try: g = X.__getitem__ / except AttributeError: H
        if isinstance(val, ast.Attribute) and val.attr == '__getitem__' and exc == 'AttributeError' and h.name is None:
            xobj, xty = self.expr(val.value, env)
            if xty != NODE:
                raise Problem('__getitem__ read from a %s: %s' % (xty, u(s.body[0])))
            self.used.add('AttributeError')
            atom = A('has_getitem', [xobj])
            yes = k_next(_with(env, v, (xobj, GETITEM)), _with(facts, atom.key(), True))
            no = self.block(list(h.body), env, _with(facts, atom.key(), False), k_next, jumps)
            return mk_if(b_atom(atom), yes, no)
        # try: n = g(e) / except KeyError: H
        if isinstance(val, ast.Call) and isinstance(val.func, ast.Name) and exc == 'KeyError' and h.name is None \
                and val.func.id in env and env[val.func.id][1] == GETITEM and len(val.args) == 1 and not val.keywords:
            eobj, ety = self.expr(val.args[0], env)
            if ety != TEXT:
                raise Problem('item lookup with a %s key: %s' % (ety, u(s.body[0])))
            self.used.add('KeyError')
            b = self.fresh(v)
            none = self.block(list(h.body), env, facts, k_next, jumps)
            some = k_next(_with(env, v, (V(b), NODE)), facts)
            return MOpt(A('child', [env[val.func.id][0], eobj]), none, b, some)
        # try: v = CALL / except UnicodeDecodeError as e: raise URLDecodeError(e.a, ..)
        if exc == 'UnicodeDecodeError' and h.name is not None:
            obj, ty = self.expr(val, env)
            want = self.spec['ret']
            if not isinstance(ty, tuple) or not isinstance(want, tuple):
                raise Problem('try/except UnicodeDecodeError around something that is not a raising call: %s' % u(s.body[0]))
            r = h.body[0] if len(h.body) == 1 else None
            ok = isinstance(r, ast.Raise) and r.cause is None and isinstance(r.exc, ast.Call) \
                and isinstance(r.exc.func, ast.Name) and r.exc.func.id == 'URLDecodeError' and not r.exc.keywords \
                and all(isinstance(x, ast.Attribute) and isinstance(x.value, ast.Name) and x.value.id == h.name
                        for x in r.exc.args)
            if not ok:
                raise Problem('handler outside the table (expected raise URLDecodeError(e.<attr>, ..)): %s'
                              % u(h).split('\n')[0])
            self.used.update(('UnicodeDecodeError', 'URLDecodeError'))
            b = self.fresh(v)
            okt = k_next(_with(env, v, (V(b), ty[1])), facts)
            return MRes(obj, b, okt, A('Exc', [K('URLDecodeError')]))
        raise Problem('try statement outside the table: %s' % u(s).split('\n')[0])

    def for_loop(self, s, env, facts, k_rest):
        if s.orelse:
            raise Problem('for .. else')
        itobj, itty = self.expr(s.iter, env)
        if itty not in (SEGS, SEGSOWN, NODES):
            raise Problem('loop over a %s: %s' % (itty, u(s.iter)))
        if not isinstance(s.target, ast.Name):
            raise Problem('loop target outside the subset: %s' % u(s.target))
        self.nloops += 1
        lp = Loop(self.nloops, self.spec['ret'])
        lp.elem = NODE if itty == NODES else TEXT
        tname = s.target.id
        lp.x = 'x_%s_%d' % (_ident(tname), lp.n)
        occurs, assigned = [], []
        for st in s.body:
            for n in self.names_in_order(st):
                if n not in occurs:
                    occurs.append(n)
        for n in self.stores_in(s.body):
            if n not in assigned:
                assigned.append(n)
        if itty == SEGSOWN and isinstance(s.iter, ast.Name) and s.iter.id in assigned:
            raise Problem('the list being iterated is mutated in the loop')
        carried, poisoned = [], []
        for nm in occurs:
            if nm in assigned and nm in env and nm != tname:
                obj, ty = env[nm]
                if obj is None or ty in (ERASED, SELF, GETITEM, EXCV) or isinstance(ty, tuple):
                    poisoned.append(nm)
                else:
                    carried.append((nm, 'c_%s_%d' % (_ident(nm), lp.n), ty))
        lp.carried = carried
        env_head = dict(env)
        env_head['$loop'] = (None, ERASED)          # from here on (body, later iterations, code after the loop)
        env_head.pop(tname, None)
        for nm in poisoned:
            env_head[nm] = (None, ERASED)
        for nm, b, ty in carried:
            env_head[nm] = (b_atom(V(b)) if ty == BOOL else V(b), ty)

        def after(env2):
            out = dict(env_head)
            for nm, b, ty in carried:
                if nm not in env2 or env2[nm][1] != ty:
                    raise Problem('loop-carried variable %s changes type inside the loop' % nm)
                out[nm] = env2[nm]
            return out

        def args_of(env2):
            a = after(env2)
            return [b_term(a[nm][0]) if ty == BOOL else a[nm][0] for nm, _, ty in carried]

        def k_continue(env2, facts2):
            return Jump(lp, args_of(env2))

        def k_break(env2, facts2):
            return k_rest(after(env2), {})

        env_body = dict(env_head)
        env_body[tname] = (V(lp.x), lp.elem)
        # facts about carried variables do not survive into / across iterations
        cons = self.block(list(s.body), env_body, {}, k_continue, (k_continue, k_break))
        nil = k_rest(dict(env_head), {})
        init = [b_term(env[nm][0]) if ty == BOOL else env[nm][0] for nm, _, ty in carried]
        return Fix(lp, nil, cons, itobj, init)

    @staticmethod
    def names_in_order(st):
        out = []

        class Vis(ast.NodeVisitor):
            def visit_Name(self, n):
                out.append(n.id)
        Vis().visit(st)
        return out

    @staticmethod
    def stores_in(stmts):
        out = []
        for st in stmts:
            for n in ast.walk(st):
                if isinstance(n, ast.Name) and isinstance(n.ctx, (ast.Store, ast.Del)):
                    out.append(n.id)
                if isinstance(n, ast.Call) and isinstance(n.func, ast.Attribute) and isinstance(n.func.value, ast.Name):
                    out.append(n.func.value.id)
                if isinstance(n, ast.Delete):
                    for tg in n.targets:
                        for m in ast.walk(tg):
                            if isinstance(m, ast.Name):
                                out.append(m.id)
        return out

    # ------------------------------------------------------------ expressions
    def cond(self, n, env):
        obj, ty = self.expr(n, env)
        if ty == BOOL:
            return obj
        if obj is None:
            raise Problem('truth value of an unmodelled value: %s' % u(n))
        if ty == TEXT:
            return b_not(b_atom(A('text_eqb', [obj, K('[]')])))
        if ty in (SEGS, SEGSOWN):
            return b_not(b_atom(A('is_nil', [obj])))
        raise Problem('truth value of a %s is outside the table: %s' % (ty, u(n)))

    def expr(self, n, env):
        if isinstance(n, ast.Name):
            if n.id in env:
                return env[n.id]
            raise Problem('name %s is unbound here (or local to a loop iteration), or outside the table' % n.id)
        if isinstance(n, ast.Constant):
            if isinstance(n.value, bool):
                return ('const', n.value), BOOL
            if isinstance(n.value, str):
                return text_lit(n.value), TEXT
            if isinstance(n.value, int):
                return int_lit(n.value), INT
        if isinstance(n, ast.UnaryOp) and isinstance(n.op, ast.USub) and isinstance(n.operand, ast.Constant) \
                and isinstance(n.operand.value, int) and not isinstance(n.operand.value, bool):
            return int_lit(-n.operand.value), INT
        if isinstance(n, ast.Tuple) and not n.elts:
            return K('[]'), SEGS
        if isinstance(n, ast.List) and not n.elts:
            return K('[]'), SEGSOWN
        if isinstance(n, ast.UnaryOp) and isinstance(n.op, ast.Not):
            return b_not(self.cond(n.operand, env)), BOOL
        if isinstance(n, ast.BoolOp):
            return ('and' if isinstance(n.op, ast.And) else 'or', [self.cond(v, env) for v in n.values]), BOOL
        if isinstance(n, ast.Compare):
            if len(n.ops) != 1:
                raise Problem('chained comparison: %s' % u(n))
            return self.compare(n.ops[0], n.left, n.comparators[0], env, n), BOOL
        if isinstance(n, ast.BinOp) and isinstance(n.op, (ast.Add, ast.Sub)):
            lo, lt = self.expr(n.left, env)
            ro, rt = self.expr(n.right, env)
            if lo is None or ro is None:
                raise Problem('arithmetic on an unmodelled value: %s' % u(n))
            if lt == INT and rt == INT:
                return A('Z.add' if isinstance(n.op, ast.Add) else 'Z.sub', [lo, ro]), INT
            if isinstance(n.op, ast.Add) and lt in (SEGS, SEGSOWN) and rt in (SEGS, SEGSOWN):
                return A('app', [lo, ro]), SEGS
            if isinstance(n.op, ast.Add) and lt == TEXT and rt == TEXT:
                return A('app', [lo, ro]), TEXT
            raise Problem('%s between a %s and a %s is outside the table: %s' % (type(n.op).__name__, lt, rt, u(n)))
        if isinstance(n, ast.Subscript) and isinstance(n.slice, ast.Slice) and n.slice.step is None:
            xo, xt = self.expr(n.value, env)
            if xt not in (TEXT, SEGS, SEGSOWN) or xo is None:
                raise Problem('slice of a %s: %s' % (xt, u(n)))
            lo, hi = n.slice.lower, n.slice.upper
            if (lo is None) == (hi is None):
                raise Problem('slice with both or no bounds is outside the table: %s' % u(n))
            bo, bt = self.expr(lo if lo is not None else hi, env)
            if bt != INT:
                raise Problem('slice bound of type %s: %s' % (bt, u(n)))
            return A('py_from' if lo is not None else 'py_to', [bo, xo]), (SEGS if xt == SEGSOWN else xt)
        if isinstance(n, ast.Attribute) and isinstance(n.value, ast.Name) and n.value.id in env \
                and env[n.value.id][1] == SELF:
            if n.attr == 'root':
                self.used.add('self.root')
                return V('root'), NODE
            if n.attr == 'VIEW_SELECTOR':
                self.used.add('self.VIEW_SELECTOR')
                return K('view_selector'), TEXT
            raise Problem('attribute of self outside the table: %s' % u(n))
        if isinstance(n, ast.Attribute) and isinstance(n.value, ast.Name) and n.value.id in env \
                and env[n.value.id][1] == REQ:
            q = env[n.value.id][0]
            if n.attr == 'environ':
                return q, ENVIRON
            if n.attr == 'matchdict':
                return A('q_matchdict', [q]), OPTMD
            if n.attr == 'path_info':
                if '$path_info' in env:
                    return env['$path_info']
                raise Problem('request.path_info outside the try shape of the table (it may raise KeyError / '
                              'UnicodeDecodeError): %s' % u(n))
            raise Problem('attribute of the request outside the table: %s' % u(n))
        if isinstance(n, ast.Subscript) and isinstance(n.value, ast.Name) and n.value.id in env \
                and env[n.value.id][1] == ENVIRON:
            if self.is_vh_key(n.slice, env) and '$vh_raw' in env:
                return env['$vh_raw']
            raise Problem('environ[..] outside the table (only environ[self.VH_ROOT_KEY] under a membership test): %s' % u(n))
        if isinstance(n, ast.ListComp):
            g = n.generators[0] if len(n.generators) == 1 else None
            ok = g is not None and not g.ifs and not g.is_async and isinstance(g.target, ast.Name) \
                and isinstance(n.elt, ast.Call) and isinstance(n.elt.func, ast.Name) \
                and n.elt.func.id == 'quote_path_segment' and n.elt.func.id not in env and not n.elt.keywords \
                and len(n.elt.args) == 1 and isinstance(n.elt.args[0], ast.Name) and n.elt.args[0].id == g.target.id
            if not ok:
                raise Problem('list comprehension outside the table (only [quote_path_segment(x) for x in t]): %s' % u(n))
            to, tt = self.expr(g.iter, env)
            if tt not in (SEGS, SEGSOWN) or to is None:
                raise Problem('comprehension over a %s: %s' % (tt, u(n)))
            self.used.add('quote_path_segment')
            if '$loop' in env:
                self.memo_late.append('quote_path_segment')
            return A('rmap_r', [A('quote_segment_r', [K('path_segment_safe')]), to]), RES(SEGS)
        if isinstance(n, ast.Dict):
            return self.dict_lit(n, env), TDICT
        if isinstance(n, ast.Call):
            return self.call(n, env)
        raise Problem('expression outside the table: %s' % u(n))

    def dict_lit(self, n, env):
        got = {}
        for k, v in zip(n.keys, n.values):
            if not (isinstance(k, ast.Constant) and isinstance(k.value, str)) or k.value in got:
                raise Problem('dictionary key outside the table: %s' % u(n)[:60])
            got[k.value] = v
        if sorted(got) != sorted(DICT_KEYS):
            raise Problem('the returned dictionary must have exactly the seven documented keys, found %s' % sorted(got))
        args = []
        for k in DICT_KEYS:
            obj, ty = self.expr(got[k], env)
            if obj is None or not same(ty, DICT_TY[k]):
                raise Problem("dictionary value for '%s' is a %s, expected a %s" % (k, ty, DICT_TY[k]))
            args.append(A('fst', [obj]) if DICT_TY[k] == NODE else obj)
        return A('mkT', args)

    def compare(self, op, l, r, env, whole):
        if isinstance(op, (ast.Is, ast.IsNot)) and isinstance(r, ast.Constant) and r.value is None \
                and isinstance(l, ast.Attribute) and l.attr == '__parent__':
            xo, xt = self.expr(l.value, env)
            if xt != NODE or xo is None:
                raise Problem('__parent__ of a %s: %s' % (xt, u(whole)))
            b = b_atom(A('parent_is_none', [xo]))
            return b_not(b) if isinstance(op, ast.IsNot) else b
        lobj, lty = self.expr(l, env)
        robj, rty = self.expr(r, env)
        if lobj is None or robj is None:
            raise Problem('comparison with an unmodelled value: %s' % u(whole))
        if not isinstance(op, (ast.Eq, ast.NotEq)):
            raise Problem('comparison operator outside the table: %s' % u(whole))
        if isinstance(lobj, K) and not isinstance(robj, K):
            lobj, robj = robj, lobj
        if lty == TEXT and rty == TEXT:
            b = b_atom(A('text_eqb', [lobj, robj]))
        elif lty == INT and rty == INT:
            b = b_atom(A('Z.eqb', [lobj, robj]))
        else:
            raise Problem('== between a %s and a %s is outside the table: %s' % (lty, rty, u(whole)))
        return b_not(b) if isinstance(op, ast.NotEq) else b

    def call(self, n, env):
        if n.keywords:
            raise Problem('call with keywords: %s' % u(n))
        if isinstance(n.func, ast.Attribute):
            meth = n.func.attr
            xo, xt = self.expr(n.func.value, env)
            if xo is None:
                raise Problem('method call on an unmodelled value: %s' % u(n))
            if meth == 'get' and xt == MD and len(n.args) == 1 and isinstance(n.args[0], ast.Constant) \
                    and n.args[0].value in MD_KEYS:
                return A(MD_KEYS[n.args[0].value], [xo]), OPTMVAL
            if meth == 'get' and xt == MD and len(n.args) == 2 and isinstance(n.args[0], ast.Constant) \
                    and n.args[0].value in MD_KEYS:
                do, dt = self.expr(n.args[1], env)
                if do is None:
                    raise Problem('default of .get is unmodelled: %s' % u(n))
                return A('md_get', [K(MD_KEYS[n.args[0].value]), xo, self.as_mval(do, dt)]), MVAL
            if meth == 'join' and xt == TEXT and isinstance(n.func.value, ast.Constant) and len(n.args) == 1:
                ao, at = self.expr(n.args[0], env)
                if ao is not None and at == RES(SEGS):
                    return A('rbind', [ao, K('(fun l_ => Ok (join %s l_))' % paren(xo, 0))]), RES(TEXT)
                if at != SEGS or ao is None:
                    raise Problem('str.join of a %s: %s' % (at, u(n)))
                return A('join', [xo, ao]), TEXT
            if meth in ('strip', 'split') and xt == TEXT and len(n.args) == 1:
                c = char_lit(n.args[0], 'str.%s' % meth)
                return (A('strip_char', [c, xo]), TEXT) if meth == 'strip' else (A('split_on', [c, xo]), SEGS)
            if meth == 'encode' and xt == TEXT and len(n.args) == 1 and isinstance(n.args[0], ast.Constant) \
                    and n.args[0].value == 'latin-1':
                return A('latin1_encode_r', [xo]), RES(BYTES)
            if meth == 'encode' and xt == TEXT and len(n.args) == 1 and isinstance(n.args[0], ast.Constant) \
                    and n.args[0].value == 'ascii':
                return A('ascii_encode_r', [xo]), RES(BYTES)
            if meth == 'decode' and len(n.args) == 1 and isinstance(n.args[0], ast.Constant) \
                    and n.args[0].value == 'utf-8':
                if xt == RES(BYTES):
                    return A('rbind', [xo, K('utf8_decode_r')]), RES(TEXT)
                if xt == BYTES:
                    return A('utf8_decode_r', [xo]), RES(TEXT)
            raise Problem('method call outside the table: %s' % u(n))
        if not isinstance(n.func, ast.Name) or n.func.id in env:
            raise Problem('call outside the table: %s' % u(n))
        f = n.func.id
        if f == 'tuple' and len(n.args) == 1:
            obj, ty = self.expr(n.args[0], env)
            if ty not in (SEGS, SEGSOWN):
                raise Problem('tuple(..) of a %s: %s' % (ty, u(n)))
            self.used.add(f)
            return obj, SEGS
        if f == 'len' and len(n.args) == 1:
            obj, ty = self.expr(n.args[0], env)
            if ty not in (SEGS, SEGSOWN, TEXT) or obj is None:
                raise Problem('len(..) of a %s: %s' % (ty, u(n)))
            self.used.add(f)
            return A('Z.of_nat', [A('length', [obj])]), INT
        if f == 'isinstance' and len(n.args) == 2 and isinstance(n.args[1], ast.Name) and n.args[1].id == 'str' \
                and 'str' not in env:
            obj, ty = self.expr(n.args[0], env)
            if ty not in (TEXT, BYTES, SEGS, SEGSOWN):
                raise Problem('isinstance(.., str) of a %s: %s' % (ty, u(n)))
            self.used.update(('isinstance', 'str'))
            return ('const', ty == TEXT), BOOL
        if f == 'unquote_bytes_to_wsgi' and len(n.args) == 1:
            obj, ty = self.expr(n.args[0], env)
            if ty != BYTES or obj is None:
                raise Problem('unquote_bytes_to_wsgi(..) of a %s: %s' % (ty, u(n)))
            self.used.add(f)
            return A('unquote_to_wsgi', [obj]), TEXT
        if f == 'traversal_path_info' and len(n.args) == 1:
            obj, ty = self.expr(n.args[0], env)
            if ty != TEXT or obj is None:
                raise Problem('traversal_path_info(..) of a %s: %s' % (ty, u(n)))
            self.used.add(f)
            if '$loop' in env:
                self.memo_late.append(f)
            return A('gen_traversal_path_info', [obj]), RES(SEGS)
        if f == 'lineage' and len(n.args) == 1:
            obj, ty = self.expr(n.args[0], env)
            if ty != NODE or obj is None:
                raise Problem('lineage(..) of a %s: %s' % (ty, u(n)))
            self.used.add(f)
            return A('lineage_of', [V('tree'), obj]), NODES
        if f in MODULE_FUNCS and len(n.args) == 1:
            obj, ty = self.expr(n.args[0], env)
            if ty != TEXT or obj is None:
                raise Problem('%s(..) of a %s: %s' % (f, ty, u(n)))
            self.used.add(f)
            if '$loop' in env:
                self.memo_late.append(f)
            g, rty = MODULE_FUNCS[f]
            return A(g, [obj]), rty
        raise Problem('call outside the table: %s' % u(n))


# ---- module-level bindings the table relies on
def module_bindings(tree):
    binds = {}

    def add(name, how):
        binds.setdefault(name, []).append(how)

    def walk(stmts):
        for st in stmts:
            if isinstance(st, (ast.FunctionDef, ast.AsyncFunctionDef)):
                add(st.name, 'def')
            elif isinstance(st, ast.ClassDef):
                add(st.name, 'class')
            elif isinstance(st, ast.ImportFrom):
                for al in st.names:
                    add(al.asname or al.name, 'from %s import %s' % (st.module, al.name))
            elif isinstance(st, ast.Import):
                for al in st.names:
                    add((al.asname or al.name).split('.')[0], 'import')
            elif isinstance(st, (ast.Assign, ast.AnnAssign, ast.AugAssign)):
                tgs = st.targets if isinstance(st, ast.Assign) else [st.target]
                for tg in tgs:
                    for nn in ast.walk(tg):
                        if isinstance(nn, ast.Name):
                            add(nn.id, 'assign')
            elif isinstance(st, (ast.With, ast.If, ast.Try, ast.For, ast.While)):
                for field in ('body', 'orelse', 'finalbody'):
                    walk(getattr(st, field, []) or [])
                for h in getattr(st, 'handlers', []) or []:
                    walk(h.body)
                if isinstance(st, ast.For):
                    for nn in ast.walk(st.target):
                        if isinstance(nn, ast.Name):
                            add(nn.id, 'assign')
            elif isinstance(st, ast.Delete):
                for tg in st.targets:
                    for nn in ast.walk(tg):
                        if isinstance(nn, ast.Name):
                            add(nn.id, 'del')
    walk(tree.body)
    return binds


def check_globals(tree, used, problems):
    binds = module_bindings(tree)
    want = {'split_path_info': ['def'], 'decode_path_info': ['def'], 'traversal_path_info': ['def'],
            'lru_cache': ['from functools import lru_cache'],
            'URLDecodeError': ['from pyramid.exceptions import URLDecodeError'],
            'is_nonstr_iter': ['from pyramid.util import is_nonstr_iter'],
            'lineage': ['from pyramid.location import lineage'], 'find_root': ['def'],
            'unquote_bytes_to_wsgi': ['def'], 'traversal_path': ['def'], 'quote_path_segment': ['def'],
            '_join_path_tuple': ['def']}
    for nm in sorted(set(used) | {'split_path_info', 'decode_path_info', 'traversal_path_info', 'find_root', 'traversal_path',
                                  '_join_path_tuple'}):
        if nm.startswith('self.'):
            continue
        got = binds.get(nm, [])
        if nm in BUILTINS:
            if got:
                problems.append('translator: builtin %s is rebound at module level in traversal.py (%s)' % (nm, got))
        elif got != want.get(nm):
            problems.append('translator: module-level binding of %s in traversal.py is %s, expected %s'
                            % (nm, got or 'missing', want.get(nm)))


def check_class(tree, problems):
    """self.root must be the constructor argument; __call__ must be the plain method"""
    cls = [c for c in tree.body if isinstance(c, ast.ClassDef) and c.name == 'ResourceTreeTraverser']
    if len(cls) != 1:
        problems.append('translator: class ResourceTreeTraverser not found exactly once')
        return
    c = cls[0]
    if c.bases or c.keywords:
        problems.append('translator: class ResourceTreeTraverser has bases / keywords')
    init = [m for m in c.body if isinstance(m, ast.FunctionDef) and m.name == '__init__']
    if len(init) != 1 or [x.arg for x in init[0].args.args] != ['self', 'root'] or init[0].decorator_list \
            or [u(st) for st in init[0].body] != ['self.root = root']:
        problems.append('translator: ResourceTreeTraverser.__init__ is not `def __init__(self, root): self.root = root`')
    for m in c.body:
        if isinstance(m, ast.FunctionDef) and m.name in ('__getattr__', '__getattribute__', '__setattr__'):
            problems.append('translator: ResourceTreeTraverser defines %s' % m.name)
    call = [m for m in c.body if isinstance(m, ast.FunctionDef) and m.name == '__call__']
    if len(call) != 1 or call[0].decorator_list:
        problems.append('translator: ResourceTreeTraverser.__call__ not found exactly once / decorated')
    for st in c.body:
        if isinstance(st, ast.Assign):
            for tg in st.targets:
                if isinstance(tg, ast.Name) and tg.id == 'root':
                    problems.append('translator: class attribute `root` on ResourceTreeTraverser')


# ---- driver
def load_fallback():
    try:
        with open(FALLBACK) as f:
            return json.load(f)
    except (OSError, ValueError):
        return {}


def find_def(tree, qual):
    node = tree
    for part in qual.split('.'):
        nxt = [c for c in node.body if isinstance(c, (ast.FunctionDef, ast.ClassDef)) and c.name == part]
        if len(nxt) != 1:
            return None
        node = nxt[0]
    return node


def translate_source(text):
    """-> (coq text of the generated definitions, problems, summary)"""
    problems, out, summary = [], [], {}
    late = {}
    fb = load_fallback()
    try:
        tree = ast.parse(text)
    except SyntaxError as e:
        tree = None
        problems.append('translator: cannot parse traversal.py: %s' % e)
    used = set()
    if tree is not None:
        check_class(tree, problems)
    for spec in FUNCS:
        gen = spec['gen']
        body = None
        if tree is not None:
            fn = find_def(tree, spec['qual'])
            if fn is None:
                problems.append('translator: %s not found (exactly once) in traversal.py' % spec['qual'])
            else:
                tr = FnTranslator(fn, spec)
                try:
                    body = render(tr.translate(), 2)
                    used |= tr.used
                    late[gen] = sorted(set(tr.memo_late))
                except Problem as e:
                    problems.append('translator: %s: %s' % (spec['qual'], e))
                except RecursionError:
                    problems.append('translator: %s: nesting too deep' % spec['qual'])
        if body is None:
            summary[gen] = 'FALLBACK (stored translation of the reference text)'
            body = fb.get(gen)
            if body is None:
                problems.append('translator: no stored fallback for %s' % gen)
                body = spec['default']
        else:
            summary[gen] = 'translated from source (%d lines of Gallina)' % (body.count('\n') + 1)
        out.append('Definition %s %s :=\n  %s.\n' % (gen, spec['sig'], body))
    # sequential composition of __call__ at the statement SPLIT_AT: the tail's free variables are exactly the
    # variables the preamble hands over (PRE_OUT; checked on both sides by the two translations)
    out.append('Definition gen_call (root : rnode) (q : request) : result tdict :=\n'
               '  match gen_call_preamble q with\n'
               '  | Ok (%s) => Ok (gen_call_tail %s root)\n'
               '  | Exc e_ => Exc e_\n  | Unsupported => Unsupported\n  end.\n'
               % (', '.join(nm for nm, _ in PRE_OUT), ' '.join(nm for nm, _ in PRE_OUT)))
    # ORDER fact, derived by the translator itself while it walks __call__ in program order: every call of a memoised
    # module function (split_path_info, decode_path_info, traversal_path_info; quote_path_segment's dictionary) is
    # evaluated BEFORE the walk loop is entered -- none inside the loop (where the resources' __getitem__ run and may
    # re-enter traversal) and none after it.  false when such a call exists or when the tail could not be translated.
    ok = late.get('gen_call_tail') == [] and late.get('gen_call_preamble') is not None
    summary['memo_calls_precede_walk'] = ok if ok else 'NO: %s' % (late.get('gen_call_tail'),)
    out.append('Definition memo_calls_precede_walk : bool := %s.\n' % ('true' if ok else 'false'))
    if not ok and late.get('gen_call_tail'):
        problems.append('translator: ResourceTreeTraverser.__call__ calls memoised function(s) %s inside / after the walk loop: '
                        'the re-entrancy theorem assumes every memoised call precedes the item lookups' % late['gen_call_tail'])
    if tree is not None:
        check_globals(tree, used, problems)
    return '\n'.join(out), problems, summary


def translate_tree(src_root):
    path = os.path.join(src_root, 'pyramid/traversal.py')
    try:
        with open(path) as f:
            text = f.read()
    except OSError as e:
        coq, problems, summary = translate_source('')
        return coq, ['translator: cannot read %s: %s' % (path, e)] + problems, summary
    return translate_source(text)


if __name__ == '__main__':
    import sys
    root = sys.argv[1] if len(sys.argv) > 1 and not sys.argv[1].startswith('--') else '/repo/src'
    if '--write-fallback' in sys.argv:
        with open(os.path.join(root, 'pyramid/traversal.py')) as f:
            tree = ast.parse(f.read())
        fbs = {}
        for spec in FUNCS:
            fbs[spec['gen']] = render(FnTranslator(find_def(tree, spec['qual']), spec).translate(), 2)
        with open(FALLBACK, 'w') as f:
            json.dump(fbs, f, indent=1, sort_keys=True)
        print('wrote', FALLBACK)
    else:
        coq, problems, summary = translate_tree(root)
        print(coq)
        for p in problems:
            print('PROBLEM:', p)
        print(summary)
