"""C19 facts extractor: reads src/pyramid/httpexceptions.py (and router.py) with the ast module.

Emits coq/Gen/Facts_C19.v: the Template literals, the per-branch choices of prepare() (content type, escape
function, br, comment wrapper, page template), the args table, the environ/headers loops' escaping, the JSON
formatter keys, and the table of exception classes (code, title, explanation, body template, default-template
identity, empty_body, location argument).  Fail-closed: an unexpected shape appends to `problems` and emits a
default so that the file still type-checks.
"""
import ast
import os

from harness.common import facts as F

TYPES = '''
Inductive escfn := EscHtml | EscNone | EscUnknown.
Inductive pagekind := PageHtml | PageJson | PagePlain.
Record branch := mkBranch {
  b_test : option text;      (* [match == <const>]; None = else *)
  b_ctype : text;            (* self.content_type = <const> *)
  b_charset_none : bool;     (* self.charset = None present *)
  b_esc : escfn;             (* escape = <name> *)
  b_br : text;               (* br = <const> *)
  b_cpre : text; b_csuf : text;   (* html_comment = '<pre>%s<suf>' % X   or   X (both empty) *)
  b_comment_escaped : bool;  (* X is escape(comment) rather than comment *)
  b_page : pagekind }.
Inductive argsrc := ABr | AExplanation | ADetail | AComment | AHtmlComment.
Record cls := mkCls {
  c_name : text; c_code : text; c_title : text; c_expl : text; c_tmpl : text;
  c_default_tmpl : bool;     (* body_template_obj is HTTPException.body_template_obj (same object) *)
  c_empty : bool;            (* empty_body *)
  c_move : bool }.           (* constructor takes location= *)
'''


def _s(x):
    return F.coq_text(x) if len(x) else '(@nil N)'


def _const_str(node):
    if isinstance(node, ast.Constant) and isinstance(node.value, str):
        return node.value
    raise ValueError('not a str literal: %s' % ast.dump(node)[:80])


def _template_literal(node):
    """Template('<literal>') -> literal"""
    if isinstance(node, ast.Call) and isinstance(node.func, ast.Name) and node.func.id == 'Template' \
            and len(node.args) == 1 and not node.keywords:
        return _const_str(node.args[0])
    raise ValueError('not Template(<literal>): %s' % ast.dump(node)[:80])


def _class_attrs(cd):
    out = {}
    for st in cd.body:
        if isinstance(st, ast.Assign) and len(st.targets) == 1 and isinstance(st.targets[0], ast.Name):
            out[st.targets[0].id] = st.value
        elif isinstance(st, ast.FunctionDef):
            out['def ' + st.name] = st
    return out


def class_table(tree, problems):
    """-> list of dicts in source order for HTTPException and every (transitive) subclass in the module."""
    table = {}
    order = []
    for cd in tree.body:
        if not isinstance(cd, ast.ClassDef):
            continue
        attrs = _class_attrs(cd)
        if cd.name == 'HTTPException':
            parent = None
        else:
            bases = [b.id for b in cd.bases if isinstance(b, ast.Name) and b.id in table]
            if not bases:
                continue
            if len(bases) != 1 or len(cd.bases) != 1:
                problems.append('class %s: unexpected bases' % cd.name)
                continue
            parent = table[bases[0]]
        ent = dict(parent) if parent else {'code': None, 'title': None, 'explanation': None, 'tmpl': None,
                                           'tmpl_owner': None, 'empty': False, 'move': False,
                                           'init_owner': 'HTTPException'}
        ent['name'] = cd.name
        try:
            if 'code' in attrs:
                v = attrs['code']
                if not (isinstance(v, ast.Constant) and isinstance(v.value, int) and not isinstance(v.value, bool)):
                    raise ValueError('code is not an int literal')
                ent['code'] = v.value
            if 'title' in attrs:
                ent['title'] = _const_str(attrs['title'])
            if 'explanation' in attrs:
                ent['explanation'] = _const_str(attrs['explanation'])
            if 'body_template_obj' in attrs:
                ent['tmpl'] = _template_literal(attrs['body_template_obj'])
                ent['tmpl_owner'] = cd.name
            if 'empty_body' in attrs:
                v = attrs['empty_body']
                if not (isinstance(v, ast.Constant) and isinstance(v.value, bool)):
                    raise ValueError('empty_body is not a bool literal')
                ent['empty'] = v.value
            if 'def __init__' in attrs:
                fn = attrs['def __init__']
                names = [a.arg for a in fn.args.args + fn.args.kwonlyargs]
                ent['move'] = 'location' in names
                ent['init_owner'] = cd.name
            # class bodies are part of the tie: nothing but the modelled attributes / the known constructors
            if cd.name == 'HTTPException':
                allowed = {'code', 'title', 'explanation', 'body_template_obj', 'plain_template_obj', 'html_template_obj',
                           'empty_body', 'exception', 'def __init__', 'def __str__', 'def _json_formatter', 'def prepare',
                           'def wsgi_response', 'def __call__'}
                if [ast.dump(d) for d in cd.decorator_list] != [
                        "Call(func=Name(id='implementer', ctx=Load()), args=[Name(id='IExceptionResponse', ctx=Load())], keywords=[])"]:
                    raise ValueError('decorators changed (the default exception view is registered for IExceptionResponse)')
                if 'exception' in attrs and ast.dump(attrs['exception']) != "Name(id='wsgi_response', ctx=Load())":
                    raise ValueError('class attribute exception is not the wsgi_response alias')
            else:
                allowed = {'code', 'title', 'explanation', 'body_template_obj', 'empty_body'}
                if cd.name in ('_HTTPMove', 'HTTPForbidden'):
                    allowed = allowed | {'def __init__'}
                if cd.decorator_list or cd.keywords:
                    raise ValueError('decorated / metaclass')
            extra = sorted(k for k in attrs if k not in allowed)
            if extra:
                raise ValueError('class body defines %s, which the model does not know' % extra)
            for st in cd.body:
                if not isinstance(st, (ast.Assign, ast.FunctionDef, ast.Pass)) and not (
                        isinstance(st, ast.Expr) and isinstance(st.value, ast.Constant)):
                    raise ValueError('class body statement %s' % type(st).__name__)
                if isinstance(st, ast.FunctionDef) and st.decorator_list and not (
                        cd.name == 'HTTPException' and st.name == 'wsgi_response'
                        and [ast.dump(d) for d in st.decorator_list] == ["Name(id='property', ctx=Load())"]):
                    raise ValueError('method %s is decorated' % st.name)
        except ValueError as e:
            problems.append('class %s: %s' % (cd.name, e))
        table[cd.name] = ent
        order.append(cd.name)
    # a class name must be bound once, by its class statement
    seen = {}
    for st in tree.body:
        names = []
        if isinstance(st, ast.ClassDef):
            names = [st.name]
        elif isinstance(st, ast.Assign):
            names = [t.id for t in st.targets if isinstance(t, ast.Name)]
        elif isinstance(st, (ast.Import, ast.ImportFrom)):
            names = [(a.asname or a.name).split('.')[0] for a in st.names]
        elif isinstance(st, ast.FunctionDef):
            names = [st.name]
        for n in names:
            seen[n] = seen.get(n, 0) + 1
    for n in order:
        if seen.get(n, 0) != 1:
            problems.append('class %s is bound %d times at module level' % (n, seen.get(n, 0)))
    res = []
    for n in order:
        e = table[n]
        if None in (e['code'], e['title'], e['explanation'], e['tmpl']):
            problems.append('class %s: attribute unresolved' % n)
            continue
        res.append(e)
    return res


def _is_name(n, ident):
    return isinstance(n, ast.Name) and n.id == ident


def _is_self_attr(n, attr):
    return isinstance(n, ast.Attribute) and _is_name(n.value, 'self') and n.attr == attr


def router_fact(src, problems):
    """the not-found raise of Router.handle_request: msg = request.<attr>; raise HTTPNotFound(msg)"""
    try:
        m = F.Module(src, 'pyramid/router.py')
        fn = m.find('Router.handle_request')
        attr = None
        for node in ast.walk(fn):
            if isinstance(node, ast.If) and _is_self_attr(node.test, 'debug_notfound'):
                if len(node.orelse) == 1 and isinstance(node.orelse[0], ast.Assign) \
                        and _is_name(node.orelse[0].targets[0], 'msg'):
                    v = node.orelse[0].value
                    if isinstance(v, ast.Attribute) and _is_name(v.value, 'request'):
                        attr = v.attr
        raises = [n for n in ast.walk(fn) if isinstance(n, ast.Raise) and isinstance(n.exc, ast.Call)
                  and _is_name(n.exc.func, 'HTTPNotFound')]
        if attr is None or len(raises) != 1 or ast.dump(raises[0].exc.args[0]) != "Name(id='msg', ctx=Load())" \
                or raises[0].exc.keywords or len(raises[0].exc.args) != 1:
            raise ValueError('not-found raise')
        return attr
    except Exception as e:
        problems.append('router not-found path unrecognised: %r' % (e,))
        return 'path_info'


def raiser_formats(src, problems):
    """message formats of the other raisers (static view, predicate wrapper, secured view): the single
    str constant containing %s inside the named function."""
    want = {'out_of_bounds': ('pyramid/static.py', 'static_view.get_resource_name', 'Out of bounds: %s'),
            'predicate_mismatch': ('pyramid/config/views.py', 'predicated_view.predicate_wrapper',
                                   'predicate mismatch for view %s (%s)'),
            'unauthorized': ('pyramid/viewderivers.py', '_secured_view.secured_view',
                             'Unauthorized: %s failed permission check')}
    out = {}
    for key, (rel, qual, dflt) in want.items():
        out[key] = dflt
        try:
            fn = F.Module(src, rel).find(qual)
            if fn is None:
                raise ValueError('function not found')
            cs = [n.value for n in ast.walk(fn) if isinstance(n, ast.Constant) and isinstance(n.value, str)
                  and '%s' in n.value]
            if len(cs) != 1 or cs[0].count('%s') != dflt.count('%s') or cs[0].replace('%s', '').count('%'):
                raise ValueError('format constants: %r' % (cs,))
            out[key] = cs[0]
        except Exception as e:
            problems.append('%s:%s message format unrecognised: %r' % (rel, qual, e))
    # append-slash Not Found view: the default redirect class (default value of the redirect_class parameter)
    out['append_slash_class'] = 'HTTPTemporaryRedirect'
    try:
        fn = F.Module(src, 'pyramid/view.py').find('AppendSlashNotFoundViewFactory.__init__')
        names = [a.arg for a in fn.args.args]
        d = fn.args.defaults[len(fn.args.defaults) - (len(names) - names.index('redirect_class'))]
        if not isinstance(d, ast.Name):
            raise ValueError('default of redirect_class is not a name')
        out['append_slash_class'] = d.id
    except Exception as e:
        problems.append('pyramid/view.py:AppendSlashNotFoundViewFactory.__init__ redirect_class default unrecognised: %r' % (e,))
    # CSRF origin check: 'Origin checking failed - ' + reason, reason = f'{origin} does not match any trusted origins.'
    out['csrf_origin_prefix'] = 'Origin checking failed - '
    out['csrf_origin_suffix'] = ' does not match any trusted origins.'
    out['csrf_origin_explanation'] = ''
    try:
        fn = F.Module(src, 'pyramid/csrf.py').find('check_csrf_origin')
        pre = [n for n in ast.walk(fn) if isinstance(n, ast.BinOp) and isinstance(n.op, ast.Add)
               and isinstance(n.left, ast.Constant) and isinstance(n.left.value, str)
               and isinstance(n.right, ast.Name) and n.right.id == 'reason']
        js = [n for n in ast.walk(fn) if isinstance(n, ast.JoinedStr)]
        if len(pre) != 1 or len(js) != 1:
            raise ValueError('prefix / f-string')
        v = js[0].values
        if not (len(v) == 2 and isinstance(v[0], ast.FormattedValue) and isinstance(v[0].value, ast.Name)
                and v[0].value.id == 'origin' and v[0].conversion == -1 and v[0].format_spec is None
                and isinstance(v[1], ast.Constant) and isinstance(v[1].value, str)):
            raise ValueError('f-string shape')
        out['csrf_origin_prefix'], out['csrf_origin_suffix'] = pre[0].left.value, v[1].value
        cd = F.Module(src, 'pyramid/exceptions.py').find('BadCSRFOrigin')
        if [ast.dump(b) for b in cd.bases] != ["Name(id='HTTPBadRequest', ctx=Load())"]:
            raise ValueError('BadCSRFOrigin bases')
        attrs = _class_attrs(cd)
        if sorted(attrs) != ['explanation']:
            raise ValueError('BadCSRFOrigin defines %s' % sorted(attrs))
        out['csrf_origin_explanation'] = ast.literal_eval(attrs['explanation'])
    except Exception as e:
        problems.append('CSRF origin failure message unrecognised: %r' % (e,))
    return out


def _bool(b):
    return 'true' if b else 'false'


def extract(src, problems):
    from . import translate
    try:
        mod = F.Module(src, 'pyramid/httpexceptions.py')
    except (OSError, SyntaxError) as e:
        problems.append('cannot parse httpexceptions.py: %s' % e)
        return F.HEADER + 'Require Import Verif.Model.C19_base.\n', {}
    classes = class_table(mod.tree, problems)
    tm = {}
    base = mod.find('HTTPException')
    attrs = _class_attrs(base) if base is not None else {}
    for name, dflt in (('html_template_obj', '${status}${body}'), ('plain_template_obj', '${status}${body}'),
                       ('body_template_obj', '${detail}')):
        try:
            tm[name] = _template_literal(attrs[name])
        except (KeyError, ValueError) as e:
            problems.append('HTTPException.%s: %s' % (name, e))
            tm[name] = dflt
    nf = router_fact(src, problems)
    fmts = raiser_formats(src, problems)
    gen, meta = translate.generate(src, problems)
    L = [F.HEADER, 'Require Import Verif.Model.C19_base.\n']
    L.append('Definition html_template : text := %s.\n' % _s(tm['html_template_obj']))
    L.append('Definition plain_template : text := %s.\n' % _s(tm['plain_template_obj']))
    L.append('Definition default_body_template : text := %s.\n' % _s(tm['body_template_obj']))
    L.append('Definition notfound_detail_attr : text := %s.\n' % _s(nf))
    for k in sorted(fmts):
        L.append('Definition fmt_%s : text := %s.\n' % (k, _s(fmts[k])))
    cl = []
    for e in classes:
        cl.append('  mkCls %s %s %s %s %s %s %s %s' % (
            _s(e['name']), _s(str(e['code'])), _s(e['title']), _s(e['explanation']), _s(e['tmpl']),
            _bool(e['tmpl_owner'] == 'HTTPException'), _bool(e['empty']), _bool(e['move'])))
    L.append('Definition classes : list cls := [\n%s].\n' % ';\n'.join(cl))
    # classes whose constructor is HTTPForbidden.__init__ (translated: gen_forbidden_init)
    fb = [e['name'] for e in classes if e.get('init_owner') == 'HTTPForbidden']
    for e in classes:
        if e.get('init_owner') not in ('HTTPException', '_HTTPMove', 'HTTPForbidden'):
            problems.append('class %s: constructor defined by %s, which the model does not know' % (e['name'], e.get('init_owner')))
        if (e.get('init_owner') == '_HTTPMove') != bool(e['move']):
            problems.append('class %s: location= constructor not owned by _HTTPMove' % e['name'])
    L.append('Definition status_map_excluded : list text := [%s].\n' % '; '.join(_s(n) for n in status_map_fact(mod.tree, problems)))
    L.append('Definition forbidden_init_classes : list text := [%s].\n' % '; '.join(_s(n) for n in fb))
    L.append('\n(* ---- REGENERATED by harness/c19/translate.py from HTTPException.__init__, _HTTPMove.__init__,\n'
             '   _json_formatter, prepare, __call__ of this source tree *)\n')
    L.append(gen)
    L.append('\n(* ---- argument expressions of the raise sites outside httpexceptions.py (translate.py, SITES) *)\n')
    sites, smeta = translate.generate_sites(src, {e['name'] for e in classes}, {e['name'] for e in classes if e['move']},
                                            problems)
    L.append(sites)
    summary = {'classes': len(classes),
               'custom_template_classes': sorted(e['name'] for e in classes if e['tmpl_owner'] != 'HTTPException'),
               'empty_body_classes': sorted(e['name'] for e in classes if e['empty']),
               'notfound_detail': 'request.' + nf, 'raiser_formats': fmts,
               'translated': ['HTTPException.__init__', '_HTTPMove.__init__', 'HTTPForbidden.__init__', 'HTTPException._json_formatter',
                              'HTTPException.prepare', 'HTTPException.__call__'],
               'site_classes': smeta,
               'negotiation': {'offers': meta.get('offers'), 'accept': meta.get('env_get')}}
    return ''.join(L), summary


# ------------------------------------------------------------------ every construction site of an HTTP exception
def _exception_names(src, problems):
    """names under which an HTTP exception class (or a factory of one) can be called anywhere in the package:
    the classes of httpexceptions.py, their module-level aliases, exception_response, the subclasses and aliases
    defined in pyramid/exceptions.py"""
    names = set()
    mod = F.Module(src, 'pyramid/httpexceptions.py')
    for e in class_table(mod.tree, []):
        names.add(e['name'])
    for st in mod.tree.body:
        if isinstance(st, ast.Assign) and isinstance(st.value, ast.Name) and st.value.id in names:
            names.update(t.id for t in st.targets if isinstance(t, ast.Name))
    names.add('exception_response')
    try:
        ex = F.Module(src, 'pyramid/exceptions.py')
        changed = True
        while changed:
            changed = False
            for st in ex.tree.body:
                new = []
                if isinstance(st, ast.ClassDef) and any(isinstance(b, ast.Name) and b.id in names for b in st.bases):
                    new = [st.name]
                elif isinstance(st, ast.Assign) and isinstance(st.value, ast.Name) and st.value.id in names:
                    new = [t.id for t in st.targets if isinstance(t, ast.Name)]
                for n in new:
                    if n not in names:
                        names.add(n)
                        changed = True
    except (OSError, SyntaxError) as e:
        problems.append('cannot parse pyramid/exceptions.py: %s' % e)
    return names


def raise_sites(src, problems):
    """-> sorted list of 'rel/path.py:Qual.name' of every function (or '<module>') in src/pyramid that CALLS an HTTP
    exception class / exception_response / a `redirect_class` attribute (= builds an HTTP exception response)."""
    names = _exception_names(src, problems)
    sites = set()
    root = os.path.join(src, 'pyramid')
    for d, _, files in sorted(os.walk(root)):
        for fn in sorted(files):
            if not fn.endswith('.py'):
                continue
            path = os.path.join(d, fn)
            rel = os.path.relpath(path, src)
            try:
                with open(path) as f:
                    tree = ast.parse(f.read())
            except (OSError, SyntaxError) as e:
                problems.append('cannot parse %s: %s' % (rel, e))
                continue

            def walk(node, qual):
                for ch in ast.iter_child_nodes(node):
                    if isinstance(ch, (ast.FunctionDef, ast.AsyncFunctionDef, ast.ClassDef)):
                        walk(ch, qual + [ch.name])
                        continue
                    if isinstance(ch, ast.Call):
                        f_ = ch.func
                        hit = (isinstance(f_, ast.Name) and f_.id in names) or \
                              (isinstance(f_, ast.Attribute) and (f_.attr in names or f_.attr == 'redirect_class'))
                        if hit:
                            sites.add('%s:%s' % (rel, '.'.join(qual) or '<module>'))
                    walk(ch, qual)
            walk(tree, [])
    return sorted(sites)


# ------------------------------------------------------------------ exception_response / status_map
STATUS_LOOP = ("For(target=Tuple(elts=[Name(id='name', ctx=Store()), Name(id='value', ctx=Store())], ctx=Store()), iter=Call(func="
               "Name(id='list', ctx=Load()), args=[Call(func=Attribute(value=Call(func=Name(id='globals', ctx=Load()), args=[], "
               "keywords=[]), attr='items', ctx=Load()), args=[], keywords=[])], keywords=[]), body=[If(test=BoolOp(op=And(), values=["
               "Call(func=Name(id='isinstance', ctx=Load()), args=[Name(id='value', ctx=Load()), Name(id='type', ctx=Load())], "
               "keywords=[]), Call(func=Name(id='issubclass', ctx=Load()), args=[Name(id='value', ctx=Load()), Name(id="
               "'HTTPException', ctx=Load())], keywords=[]), Compare(left=Name(id='value', ctx=Load()), ops=[NotIn()], comparators=["
               "EXCLUDED]), UnaryOp(op=Not(), operand=Call(func=Attribute(value=Name(id='name', ctx=Load()), attr='startswith', "
               "ctx=Load()), args=[Constant(value='_')], keywords=[]))]), body=[Assign(targets=[Name(id='code', ctx=Store())], value="
               "Call(func=Name(id='getattr', ctx=Load()), args=[Name(id='value', ctx=Load()), Constant(value='code'), Constant("
               "value=None)], keywords=[])), If(test=Name(id='code', ctx=Load()), body=[Assign(targets=[Subscript(value=Name(id="
               "'status_map', ctx=Load()), slice=Name(id='code', ctx=Load()), ctx=Store())], value=Name(id='value', ctx=Load()))], "
               "orelse=[])], orelse=[])], orelse=[])")
FACTORY = ("FunctionDef(name='exception_response', args=arguments(posonlyargs=[], args=[arg(arg='status_code')], kwonlyargs=[], "
           "kw_defaults=[], kwarg=arg(arg='kw'), defaults=[]), body=[Assign(targets=[Name(id='exc', ctx=Store())], value=Call(func="
           "Subscript(value=Name(id='status_map', ctx=Load()), slice=Name(id='status_code', ctx=Load()), ctx=Load()), args=[], "
           "keywords=[keyword(value=Name(id='kw', ctx=Load()))])), Return(value=Name(id='exc', ctx=Load()))], decorator_list=[], "
           "type_params=[])")


def status_map_fact(tree, problems):
    """the module-level loop that fills status_map and the factory exception_response have exactly the modelled shape;
    status_map is bound once (= {}) before the loop and written nowhere else; -> names of the excluded classes"""
    dflt = ['HTTPClientError', 'HTTPServerError']
    try:
        loops = [st for st in tree.body if isinstance(st, ast.For)]
        if len(loops) != 1:
            raise ValueError('%d module-level loops' % len(loops))
        loop = loops[0]
        comp = loop.body[0].test.values[2].comparators[0]
        if not (isinstance(comp, ast.Set) and comp.elts and all(isinstance(e, ast.Name) for e in comp.elts)):
            raise ValueError('excluded classes are not a set of names')
        names = [e.id for e in comp.elts]
        if ast.dump(loop).replace(ast.dump(comp), 'EXCLUDED') != STATUS_LOOP:
            raise ValueError('the loop is not the modelled one')
        if tree.body.index(loop) < max(i for i, st in enumerate(tree.body) if isinstance(st, ast.ClassDef)):
            raise ValueError('a class is defined after the loop')
        binds = [st for st in tree.body if isinstance(st, ast.Assign)
                 and any(isinstance(t, ast.Name) and t.id == 'status_map' for t in st.targets)]
        if len(binds) != 1 or ast.dump(binds[0].value) != 'Dict(keys=[], values=[])' or tree.body.index(binds[0]) > tree.body.index(loop):
            raise ValueError('status_map binding')
        uses = [n for n in ast.walk(tree) if isinstance(n, ast.Name) and n.id == 'status_map']
        if len(uses) != 3:
            raise ValueError('status_map is used in %d places' % len(uses))
        fns = [st for st in tree.body if isinstance(st, ast.FunctionDef) and st.name == 'exception_response']
        if len(fns) != 1 or ast.dump(F.strip_doc(fns[0]).body[0]) != FACTORY:
            raise ValueError('exception_response is not status_map[status_code](**kw)')
        return names
    except Exception as e:
        problems.append('status_map / exception_response: %r' % (e,))
        return dflt
