"""C19 facts extractor: reads src/pyramid/httpexceptions.py (and router.py) with the ast module.

Emits coq/Gen/Facts_C19.v: the Template literals, the per-branch choices of prepare() (content type, escape
function, br, comment wrapper, page template), the args table, the environ/headers loops' escaping, the JSON
formatter keys, and the table of exception classes (code, title, explanation, body template, default-template
identity, empty_body, location argument).  Fail-closed: an unexpected shape appends to `problems` and emits a
default so that the file still type-checks.
"""
import ast

from harness.common import facts as F

TYPES = '''
Inductive escfn := EscHtml | EscNone | EscUnknown.
Inductive pagekind := PageHtml | PageJson | PagePlain.
Record branch := mkBranch {
  b_test : option text;      (* [match == <const>]; None = else *)
  b_ctype : text;            (* self.content_type = <const> *)
  b_charset_none : bool;     (* self.charset = None present *)
  b_esc : escfn;             (* escape = <name> *)
  b_br : text;               (* br = <const> *)
  b_cpre : text; b_csuf : text;   (* html_comment = '<pre>%s<suf>' % X   or   X (both empty) *)
  b_comment_escaped : bool;  (* X is escape(comment) rather than comment *)
  b_page : pagekind }.
Inductive argsrc := ABr | AExplanation | ADetail | AComment | AHtmlComment.
Record cls := mkCls {
  c_name : text; c_code : text; c_title : text; c_expl : text; c_tmpl : text;
  c_default_tmpl : bool;     (* body_template_obj is HTTPException.body_template_obj (same object) *)
  c_empty : bool;            (* empty_body *)
  c_move : bool }.           (* constructor takes location= *)
'''


def _s(x):
    return F.coq_text(x) if len(x) else '(@nil N)'


def _const_str(node):
    if isinstance(node, ast.Constant) and isinstance(node.value, str):
        return node.value
    raise ValueError('not a str literal: %s' % ast.dump(node)[:80])


def _template_literal(node):
    """Template('<literal>') -> literal"""
    if isinstance(node, ast.Call) and isinstance(node.func, ast.Name) and node.func.id == 'Template' \
            and len(node.args) == 1 and not node.keywords:
        return _const_str(node.args[0])
    raise ValueError('not Template(<literal>): %s' % ast.dump(node)[:80])


def _class_attrs(cd):
    out = {}
    for st in cd.body:
        if isinstance(st, ast.Assign) and len(st.targets) == 1 and isinstance(st.targets[0], ast.Name):
            out[st.targets[0].id] = st.value
        elif isinstance(st, ast.FunctionDef):
            out['def ' + st.name] = st
    return out


def class_table(tree, problems):
    """-> list of dicts in source order for HTTPException and every (transitive) subclass in the module."""
    table = {}
    order = []
    for cd in tree.body:
        if not isinstance(cd, ast.ClassDef):
            continue
        attrs = _class_attrs(cd)
        if cd.name == 'HTTPException':
            parent = None
        else:
            bases = [b.id for b in cd.bases if isinstance(b, ast.Name) and b.id in table]
            if not bases:
                continue
            if len(bases) != 1 or len(cd.bases) != 1:
                problems.append('class %s: unexpected bases' % cd.name)
                continue
            parent = table[bases[0]]
        ent = dict(parent) if parent else {'code': None, 'title': None, 'explanation': None, 'tmpl': None,
                                           'tmpl_owner': None, 'empty': False, 'move': False}
        ent['name'] = cd.name
        try:
            if 'code' in attrs:
                v = attrs['code']
                if not (isinstance(v, ast.Constant) and isinstance(v.value, int) and not isinstance(v.value, bool)):
                    raise ValueError('code is not an int literal')
                ent['code'] = v.value
            if 'title' in attrs:
                ent['title'] = _const_str(attrs['title'])
            if 'explanation' in attrs:
                ent['explanation'] = _const_str(attrs['explanation'])
            if 'body_template_obj' in attrs:
                ent['tmpl'] = _template_literal(attrs['body_template_obj'])
                ent['tmpl_owner'] = cd.name
            if 'empty_body' in attrs:
                v = attrs['empty_body']
                if not (isinstance(v, ast.Constant) and isinstance(v.value, bool)):
                    raise ValueError('empty_body is not a bool literal')
                ent['empty'] = v.value
            if 'def __init__' in attrs:
                fn = attrs['def __init__']
                names = [a.arg for a in fn.args.args + fn.args.kwonlyargs]
                ent['move'] = 'location' in names
            for k in attrs:
                if k in ('status', 'has_body', 'body', 'charset', 'content_type', 'html_template_obj',
                         'plain_template_obj', 'def prepare', 'def __call__', 'def _json_formatter',
                         'def substitute') and cd.name != 'HTTPException':
                    raise ValueError('overrides %s' % k)
        except ValueError as e:
            problems.append('class %s: %s' % (cd.name, e))
        table[cd.name] = ent
        order.append(cd.name)
    res = []
    for n in order:
        e = table[n]
        if None in (e['code'], e['title'], e['explanation'], e['tmpl']):
            problems.append('class %s: attribute unresolved' % n)
            continue
        res.append(e)
    return res


def _is_name(n, ident):
    return isinstance(n, ast.Name) and n.id == ident


def _is_self_attr(n, attr):
    return isinstance(n, ast.Attribute) and _is_name(n.value, 'self') and n.attr == attr


def _escape_call_arg(n):
    """escape(X) -> X else None"""
    if isinstance(n, ast.Call) and _is_name(n.func, 'escape') and len(n.args) == 1 and not n.keywords:
        return n.args[0]
    return None


def _branch(test, body, esc_names):
    b = {'test': None, 'ctype': None, 'charset_none': False, 'esc': None, 'br': None, 'cpre': '', 'csuf': '',
         'cesc': None, 'page': None}
    if test is not None:
        if not (isinstance(test, ast.Compare) and _is_name(test.left, 'match') and len(test.ops) == 1
                and isinstance(test.ops[0], ast.Eq)):
            raise ValueError('branch test is not match == <const>')
        b['test'] = _const_str(test.comparators[0])
    for st in body:
        if isinstance(st, ast.ClassDef):
            # JsonPageTemplate: checked separately
            continue
        if isinstance(st, ast.If):
            if not _is_name(st.test, 'comment') or st.orelse or len(st.body) != 1:
                raise ValueError('unexpected if in branch')
            a = st.body[0]
            if not (isinstance(a, ast.Assign) and _is_name(a.targets[0], 'html_comment')):
                raise ValueError('unexpected statement under if comment')
            v = a.value
            if isinstance(v, ast.BinOp) and isinstance(v.op, ast.Mod):
                fmt = _const_str(v.left)
                if fmt.count('%s') != 1 or fmt.replace('%s', '').count('%'):
                    raise ValueError('comment format')
                b['cpre'], b['csuf'] = fmt.split('%s')
                v = v.right
            inner = _escape_call_arg(v)
            if inner is not None and _is_name(inner, 'comment'):
                b['cesc'] = True
            elif _is_name(v, 'comment'):
                b['cesc'] = False
            else:
                raise ValueError('html_comment value')
            continue
        if not (isinstance(st, ast.Assign) and len(st.targets) == 1):
            raise ValueError('unexpected statement in branch: %s' % type(st).__name__)
        tg, v = st.targets[0], st.value
        if _is_self_attr(tg, 'content_type'):
            b['ctype'] = _const_str(v)
        elif _is_self_attr(tg, 'charset'):
            if not (isinstance(v, ast.Constant) and v.value is None):
                raise ValueError('charset assigned a non-None value')
            b['charset_none'] = True
        elif _is_name(tg, 'escape'):
            if not isinstance(v, ast.Name):
                raise ValueError('escape = <non-name>')
            b['esc'] = esc_names.get(v.id, 'EscUnknown')
        elif _is_name(tg, 'br'):
            b['br'] = _const_str(v)
        elif _is_name(tg, 'page_template'):
            if _is_self_attr(v, 'html_template_obj'):
                b['page'] = 'PageHtml'
            elif _is_self_attr(v, 'plain_template_obj'):
                b['page'] = 'PagePlain'
            elif isinstance(v, ast.Call) and _is_name(v.func, 'JsonPageTemplate') and len(v.args) == 1 \
                    and _is_name(v.args[0], 'self'):
                b['page'] = 'PageJson'
            else:
                raise ValueError('page_template value')
        else:
            raise ValueError('unexpected assignment in branch')
    if None in (b['ctype'], b['esc'], b['br'], b['page']):
        raise ValueError('branch incomplete: %r' % b)
    if b['cesc'] is None:
        raise ValueError('branch without html_comment assignment')
    return b


DEFAULT_BRANCHES = [
    {'test': 'text/html', 'ctype': 'text/html', 'charset_none': False, 'esc': 'EscHtml', 'br': '<br/>',
     'cpre': '<!-- ', 'csuf': ' -->', 'cesc': True, 'page': 'PageHtml'},
    {'test': 'application/json', 'ctype': 'application/json', 'charset_none': True, 'esc': 'EscNone', 'br': '\n',
     'cpre': '', 'csuf': '', 'cesc': True, 'page': 'PageJson'},
    {'test': None, 'ctype': 'text/plain', 'charset_none': False, 'esc': 'EscNone', 'br': '\n',
     'cpre': '', 'csuf': '', 'cesc': True, 'page': 'PagePlain'}]
DEFAULT_ARGS = [('br', 'ABr', False), ('explanation', 'AExplanation', True), ('detail', 'ADetail', True),
                ('comment', 'AComment', True), ('html_comment', 'AHtmlComment', False)]


def prepare_facts(mod, problems):
    out = {'offers': ['text/html', 'application/json'], 'fallback': 'text/plain', 'branches': DEFAULT_BRANCHES,
           'args': DEFAULT_ARGS, 'env_escaped': True, 'hdr_escaped': True, 'hdr_lower': True,
           'skip_prefix': 'wsgi.', 'skip_char': '.', 'json_keys': [('message', 0), ('code', 1), ('title', 2)],
           'accept_key': 'HTTP_ACCEPT', 'accept_default': ''}
    fn = mod.find('HTTPException.prepare')
    if fn is None:
        problems.append('HTTPException.prepare not found')
        return out
    # escape function names: module-level imports/defs
    esc_names = {}
    for st in mod.tree.body:
        if isinstance(st, ast.ImportFrom) and st.module == 'webob':
            for a in st.names:
                if a.name == 'html_escape':
                    esc_names[a.asname or a.name] = 'EscHtml'
        if isinstance(st, ast.FunctionDef) and st.name == '_no_escape':
            esc_names['_no_escape'] = 'EscNone'
    if sorted(esc_names.values()) != ['EscHtml', 'EscNone']:
        problems.append('escape functions not found as expected: %r' % esc_names)
    try:
        outer = fn.body
        if not (len(outer) == 1 and isinstance(outer[0], ast.If) and not outer[0].orelse):
            raise ValueError('prepare: outer statement')
        g = outer[0].test
        want = "BoolOp(op=And(), values=[UnaryOp(op=Not(), operand=Attribute(value=Name(id='self', ctx=Load()), " \
               "attr='has_body', ctx=Load())), UnaryOp(op=Not(), operand=Attribute(value=Name(id='self', ctx=Load()), " \
               "attr='empty_body', ctx=Load()))])"
        if ast.dump(g) != want:
            raise ValueError('prepare: guard changed')
        body = outer[0].body
        by_target = {}
        ifs = []
        for st in body:
            if isinstance(st, ast.Assign) and len(st.targets) == 1 and isinstance(st.targets[0], ast.Name):
                by_target.setdefault(st.targets[0].id, []).append(st.value)
            elif isinstance(st, ast.If):
                ifs.append(st)
        # comment = self.comment or ''
        want = "BoolOp(op=Or(), values=[Attribute(value=Name(id='self', ctx=Load()), attr='comment', ctx=Load()), Constant(value='')])"
        if [ast.dump(v) for v in by_target.get('comment', [])] != [want]:
            raise ValueError("prepare: comment = self.comment or '' changed")
        if [ast.dump(v) for v in by_target.get('html_comment', [])] != ["Constant(value='')"]:
            raise ValueError("prepare: html_comment = '' changed")
        # accept_value = environ.get('HTTP_ACCEPT', '')
        av = by_target.get('accept_value', [None])[0]
        if not (isinstance(av, ast.Call) and isinstance(av.func, ast.Attribute) and av.func.attr == 'get'
                and _is_name(av.func.value, 'environ') and len(av.args) == 2):
            raise ValueError('prepare: accept_value')
        out['accept_key'] = _const_str(av.args[0])
        out['accept_default'] = _const_str(av.args[1])
        ac = by_target.get('accept', [None])[0]
        if ast.dump(ac) != "Call(func=Name(id='create_accept_header', ctx=Load()), args=[Name(id='accept_value', ctx=Load())], keywords=[])":
            raise ValueError('prepare: accept = create_accept_header(accept_value) changed')
        acc = by_target.get('acceptable', [])
        if len(acc) != 2:
            raise ValueError('prepare: acceptable assignments')
        a0, a1 = acc
        if not (isinstance(a0, ast.Call) and isinstance(a0.func, ast.Attribute) and a0.func.attr == 'acceptable_offers'
                and _is_name(a0.func.value, 'accept') and len(a0.args) == 1 and isinstance(a0.args[0], ast.List)):
            raise ValueError('prepare: acceptable_offers call')
        out['offers'] = [_const_str(e) for e in a0.args[0].elts]
        if not (isinstance(a1, ast.BinOp) and isinstance(a1.op, ast.Add) and isinstance(a1.right, ast.List)
                and len(a1.right.elts) == 1
                and ast.dump(a1.left) == "ListComp(elt=Subscript(value=Name(id='offer', ctx=Load()), slice=Constant(value=0), ctx=Load()), generators=[comprehension(target=Name(id='offer', ctx=Store()), iter=Name(id='acceptable', ctx=Load()), ifs=[], is_async=0)])"):
            raise ValueError('prepare: acceptable = [...] + [fallback]')
        out['fallback'] = _const_str(a1.right.elts[0])
        if [ast.dump(v) for v in by_target.get('match', [])] != ["Subscript(value=Name(id='acceptable', ctx=Load()), slice=Constant(value=0), ctx=Load())"]:
            raise ValueError('prepare: match = acceptable[0] changed')
        # the if/elif/else chain
        chain = [i for i in ifs if isinstance(i.test, ast.Compare) and _is_name(i.test.left, 'match')]
        if len(chain) != 1:
            raise ValueError('prepare: branch chain')
        brs = []
        node = chain[0]
        while True:
            brs.append(_branch(node.test, node.body, esc_names))
            if len(node.orelse) == 1 and isinstance(node.orelse[0], ast.If):
                node = node.orelse[0]
                continue
            if not node.orelse:
                raise ValueError('prepare: no else branch')
            brs.append(_branch(None, node.orelse, esc_names))
            break
        out['branches'] = brs
        # JsonPageTemplate.substitute / _json_formatter
        jf = mod.find('HTTPException._json_formatter')
        ret = jf.body[-1] if jf is not None else None
        if not (isinstance(ret, ast.Return) and isinstance(ret.value, ast.Dict)):
            raise ValueError('_json_formatter shape')
        srcs = {"Name(id='body', ctx=Load())": 0, "Name(id='status', ctx=Load())": 1,
                "Attribute(value=Name(id='self', ctx=Load()), attr='title', ctx=Load())": 2}
        out['json_keys'] = [(_const_str(k), srcs[ast.dump(v)]) for k, v in zip(ret.value.keys, ret.value.values)]
        jsub = mod.find('HTTPException.prepare.JsonPageTemplate.substitute')
        if jsub is None:
            raise ValueError('JsonPageTemplate.substitute not found')
        jret = jsub.body[-1]
        if ast.dump(jret) != "Return(value=Call(func=Attribute(value=Name(id='json', ctx=Load()), attr='dumps', ctx=Load()), args=[Name(id='jsonbody', ctx=Load())], keywords=[]))":
            raise ValueError('JsonPageTemplate.substitute: return json.dumps(jsonbody) changed')
        # args = {...}
        ad = by_target.get('args', [None])[0]
        if not isinstance(ad, ast.Dict):
            raise ValueError('prepare: args dict')
        args = []
        for k, v in zip(ad.keys, ad.values):
            key = _const_str(k)
            escaped = False
            inner = _escape_call_arg(v)
            if inner is not None:
                escaped, v = True, inner
            d = ast.dump(v)
            if d == "Name(id='br', ctx=Load())":
                src = 'ABr'
            elif d == "Attribute(value=Name(id='self', ctx=Load()), attr='explanation', ctx=Load())":
                src = 'AExplanation'
            elif d == "BoolOp(op=Or(), values=[Attribute(value=Name(id='self', ctx=Load()), attr='detail', ctx=Load()), Constant(value='')])":
                src = 'ADetail'
            elif d == "Name(id='comment', ctx=Load())":
                src = 'AComment'
            elif d == "Name(id='html_comment', ctx=Load())":
                src = 'AHtmlComment'
            else:
                raise ValueError('prepare: args[%r] has an unrecognised value' % key)
            args.append((key, src, escaped))
        out['args'] = args
        if [ast.dump(v) for v in by_target.get('body_tmpl', [])] != ["Attribute(value=Name(id='self', ctx=Load()), attr='body_template_obj', ctx=Load())"]:
            raise ValueError('prepare: body_tmpl')
        # custom template branch
        cust = [i for i in ifs if not isinstance(i.test, ast.Compare) or not _is_name(i.test.left, 'match')]
        cust = [i for i in cust if isinstance(i.test, ast.Compare) and isinstance(i.test.ops[0], ast.IsNot)]
        if len(cust) != 1:
            raise ValueError('prepare: custom-template test')
        ct = cust[0]
        if ast.dump(ct.test) != "Compare(left=Attribute(value=Name(id='HTTPException', ctx=Load()), attr='body_template_obj', ctx=Load()), ops=[IsNot()], comparators=[Name(id='body_tmpl', ctx=Load())])":
            raise ValueError('prepare: custom-template test changed')
        if len(ct.body) != 2 or not all(isinstance(x, ast.For) for x in ct.body) or ct.orelse:
            raise ValueError('prepare: custom-template loops')
        eloop, hloop = ct.body
        if ast.dump(eloop.iter) != "Call(func=Attribute(value=Name(id='environ', ctx=Load()), attr='items', ctx=Load()), args=[], keywords=[])":
            raise ValueError('environ loop iter')
        if len(eloop.body) != 2 or not isinstance(eloop.body[0], ast.If):
            raise ValueError('environ loop body')
        skip = eloop.body[0]
        t = skip.test
        if not (isinstance(t, ast.BoolOp) and isinstance(t.op, ast.And) and len(t.values) == 2
                and isinstance(t.values[0], ast.UnaryOp) and isinstance(t.values[0].op, ast.Not)
                and isinstance(t.values[0].operand, ast.Call)
                and isinstance(t.values[0].operand.func, ast.Attribute)
                and t.values[0].operand.func.attr == 'startswith' and _is_name(t.values[0].operand.func.value, 'k')
                and isinstance(t.values[1], ast.Compare) and isinstance(t.values[1].ops[0], ast.In)
                and _is_name(t.values[1].comparators[0], 'k')
                and len(skip.body) == 1 and isinstance(skip.body[0], ast.Continue) and not skip.orelse):
            raise ValueError('environ loop skip test')
        out['skip_prefix'] = _const_str(t.values[0].operand.args[0])
        out['skip_char'] = _const_str(t.values[1].left)
        if len(out['skip_char']) != 1:
            raise ValueError('skip char')
        ea = eloop.body[1]
        if not (isinstance(ea, ast.Assign) and ast.dump(ea.targets[0]) == "Subscript(value=Name(id='args', ctx=Load()), slice=Name(id='k', ctx=Load()), ctx=Store())"):
            raise ValueError('environ loop assignment')
        inner = _escape_call_arg(ea.value)
        if inner is not None and _is_name(inner, 'v'):
            out['env_escaped'] = True
        elif _is_name(ea.value, 'v'):
            out['env_escaped'] = False
        else:
            raise ValueError('environ loop value')
        if ast.dump(hloop.iter) != "Call(func=Attribute(value=Attribute(value=Name(id='self', ctx=Load()), attr='headers', ctx=Load()), attr='items', ctx=Load()), args=[], keywords=[])":
            raise ValueError('headers loop iter')
        if len(hloop.body) != 1 or not isinstance(hloop.body[0], ast.Assign):
            raise ValueError('headers loop body')
        ha = hloop.body[0]
        sl = ha.targets[0]
        if not (isinstance(sl, ast.Subscript) and _is_name(sl.value, 'args')):
            raise ValueError('headers loop target')
        if ast.dump(sl.slice) == "Call(func=Attribute(value=Name(id='k', ctx=Load()), attr='lower', ctx=Load()), args=[], keywords=[])":
            out['hdr_lower'] = True
        elif _is_name(sl.slice, 'k'):
            out['hdr_lower'] = False
        else:
            raise ValueError('headers loop key')
        inner = _escape_call_arg(ha.value)
        if inner is not None and _is_name(inner, 'v'):
            out['hdr_escaped'] = True
        elif _is_name(ha.value, 'v'):
            out['hdr_escaped'] = False
        else:
            raise ValueError('headers loop value')
        # the two substitutions
        if ast.dump(by_target.get('body', [None])[0]) != "Call(func=Attribute(value=Name(id='body_tmpl', ctx=Load()), attr='substitute', ctx=Load()), args=[Name(id='args', ctx=Load())], keywords=[])":
            raise ValueError('prepare: body = body_tmpl.substitute(args) changed')
        if ast.dump(by_target.get('page', [None])[0]) != "Call(func=Attribute(value=Name(id='page_template', ctx=Load()), attr='substitute', ctx=Load()), args=[], keywords=[keyword(arg='status', value=Attribute(value=Name(id='self', ctx=Load()), attr='status', ctx=Load())), keyword(arg='body', value=Name(id='body', ctx=Load()))])":
            raise ValueError('prepare: page = page_template.substitute(status=self.status, body=body) changed')
    except (ValueError, KeyError, AttributeError, IndexError, TypeError) as e:
        problems.append('prepare(): unrecognised shape: %s' % e)
    return out


def router_fact(src, problems):
    """the not-found raise of Router.handle_request: msg = request.<attr>; raise HTTPNotFound(msg)"""
    try:
        m = F.Module(src, 'pyramid/router.py')
        fn = m.find('Router.handle_request')
        attr = None
        for node in ast.walk(fn):
            if isinstance(node, ast.If) and _is_self_attr(node.test, 'debug_notfound'):
                if len(node.orelse) == 1 and isinstance(node.orelse[0], ast.Assign) \
                        and _is_name(node.orelse[0].targets[0], 'msg'):
                    v = node.orelse[0].value
                    if isinstance(v, ast.Attribute) and _is_name(v.value, 'request'):
                        attr = v.attr
        raises = [n for n in ast.walk(fn) if isinstance(n, ast.Raise) and isinstance(n.exc, ast.Call)
                  and _is_name(n.exc.func, 'HTTPNotFound')]
        if attr is None or len(raises) != 1 or ast.dump(raises[0].exc.args[0]) != "Name(id='msg', ctx=Load())" \
                or raises[0].exc.keywords or len(raises[0].exc.args) != 1:
            raise ValueError('not-found raise')
        return attr
    except Exception as e:
        problems.append('router not-found path unrecognised: %r' % (e,))
        return 'path_info'


def raiser_formats(src, problems):
    """message formats of the other raisers (static view, predicate wrapper, secured view): the single
    str constant containing %s inside the named function."""
    want = {'out_of_bounds': ('pyramid/static.py', 'static_view.get_resource_name', 'Out of bounds: %s'),
            'predicate_mismatch': ('pyramid/config/views.py', 'predicated_view.predicate_wrapper',
                                   'predicate mismatch for view %s (%s)'),
            'unauthorized': ('pyramid/viewderivers.py', '_secured_view.secured_view',
                             'Unauthorized: %s failed permission check')}
    out = {}
    for key, (rel, qual, dflt) in want.items():
        out[key] = dflt
        try:
            fn = F.Module(src, rel).find(qual)
            if fn is None:
                raise ValueError('function not found')
            cs = [n.value for n in ast.walk(fn) if isinstance(n, ast.Constant) and isinstance(n.value, str)
                  and '%s' in n.value]
            if len(cs) != 1 or cs[0].count('%s') != dflt.count('%s') or cs[0].replace('%s', '').count('%'):
                raise ValueError('format constants: %r' % (cs,))
            out[key] = cs[0]
        except Exception as e:
            problems.append('%s:%s message format unrecognised: %r' % (rel, qual, e))
    return out


def _bool(b):
    return 'true' if b else 'false'


def extract(src, problems):
    try:
        mod = F.Module(src, 'pyramid/httpexceptions.py')
    except (OSError, SyntaxError) as e:
        problems.append('cannot parse httpexceptions.py: %s' % e)
        return F.HEADER + TYPES, {}
    pf = prepare_facts(mod, problems)
    classes = class_table(mod.tree, problems)
    tm = {}
    base = mod.find('HTTPException')
    attrs = _class_attrs(base) if base is not None else {}
    for name, dflt in (('html_template_obj', '${status}${body}'), ('plain_template_obj', '${status}${body}'),
                       ('body_template_obj', '${detail}')):
        try:
            tm[name] = _template_literal(attrs[name])
        except (KeyError, ValueError) as e:
            problems.append('HTTPException.%s: %s' % (name, e))
            tm[name] = dflt
    # status = f'{self.code} {self.title}' in __init__
    init = mod.find('HTTPException.__init__')
    ok = False
    if init is not None:
        for st in init.body:
            if isinstance(st, ast.Assign) and _is_name(st.targets[0], 'status'):
                ok = ast.unparse(st.value) == "f'{self.code} {self.title}'"
    if not ok:
        problems.append("HTTPException.__init__: status = f'{self.code} {self.title}' changed")
    nf = router_fact(src, problems)
    fmts = raiser_formats(src, problems)
    L = [F.HEADER, TYPES]
    L.append('Definition html_template : text := %s.\n' % _s(tm['html_template_obj']))
    L.append('Definition plain_template : text := %s.\n' % _s(tm['plain_template_obj']))
    L.append('Definition default_body_template : text := %s.\n' % _s(tm['body_template_obj']))
    L.append('Definition offers : list text := %s.\n' % F.coq_texts(pf['offers']))
    L.append('Definition fallback_type : text := %s.\n' % _s(pf['fallback']))
    L.append('Definition accept_key : text := %s.\n' % _s(pf['accept_key']))
    L.append('Definition accept_default : text := %s.\n' % _s(pf['accept_default']))
    brs = []
    for b in pf['branches']:
        brs.append('  mkBranch %s %s %s %s %s %s %s %s %s' % (
            'None' if b['test'] is None else '(Some %s)' % _s(b['test']), _s(b['ctype']), _bool(b['charset_none']),
            b['esc'], _s(b['br']), _s(b['cpre']), _s(b['csuf']), _bool(b['cesc']), b['page']))
    L.append('Definition branches : list branch := [\n%s].\n' % ';\n'.join(brs))
    L.append('Definition args_spec : list (text * (argsrc * bool)) := [%s].\n' % '; '.join(
        '(%s, (%s, %s))' % (_s(k), s, _bool(e)) for k, s, e in pf['args']))
    L.append('Definition env_escaped : bool := %s.\n' % _bool(pf['env_escaped']))
    L.append('Definition hdr_escaped : bool := %s.\n' % _bool(pf['hdr_escaped']))
    L.append('Definition hdr_lower : bool := %s.\n' % _bool(pf['hdr_lower']))
    L.append('Definition env_skip_prefix : text := %s.\n' % _s(pf['skip_prefix']))
    L.append('Definition env_skip_char : N := %d%%N.\n' % ord(pf['skip_char']))
    L.append('Definition json_keys : list (text * N) := [%s].\n' % '; '.join(
        '(%s, %d%%N)' % (_s(k), s) for k, s in pf['json_keys']))
    L.append('Definition notfound_detail_attr : text := %s.\n' % _s(nf))
    for k in sorted(fmts):
        L.append('Definition fmt_%s : text := %s.\n' % (k, _s(fmts[k])))
    cl = []
    for e in classes:
        cl.append('  mkCls %s %s %s %s %s %s %s %s' % (
            _s(e['name']), _s(str(e['code'])), _s(e['title']), _s(e['explanation']), _s(e['tmpl']),
            _bool(e['tmpl_owner'] == 'HTTPException'), _bool(e['empty']), _bool(e['move'])))
    L.append('Definition classes : list cls := [\n%s].\n' % ';\n'.join(cl))
    summary = {'classes': len(classes),
               'custom_template_classes': sorted(e['name'] for e in classes if e['tmpl_owner'] != 'HTTPException'),
               'empty_body_classes': sorted(e['name'] for e in classes if e['empty']),
               'branches': [[b['test'], b['ctype'], b['esc'], b['page']] for b in pf['branches']],
               'args': [[k, s, e] for k, s, e in pf['args']],
               'env_escaped': pf['env_escaped'], 'hdr_escaped': pf['hdr_escaped'],
               'notfound_detail': 'request.' + nf, 'raiser_formats': fmts}
    return ''.join(L), summary
