"""C19: the other raisers of HTTP exceptions that put request-derived text into the page, each reached through a
real Router: static views (not found: request.url; out of bounds; add-slash redirect with a Location built from the
request URL and query string), PredicateMismatch from view lookup (multiview: the view name; single view: function
name + predicate text), HTTPForbidden of the secured-view deriver (function name).

The expected model input (class, detail, location) is computed here from what was registered, from the message
formats read out of the source by the facts extractor, and from WebOb's request.url / path_url (oracle)."""
import atexit
import os
import shutil
import tempfile

PM_NAMES = ['pm', '<pm>', '${br}$$', 'p"m\'&', 'pé€']
PS_NAMES = [('ps', '<single>${br}'), ('ps2', 'plain_view'), ('p<s>', '$$"\'&<v>')]     # (view name, function __name__)
FB_NAMES = [('fb', '<secret>${br}'), ('fb2', 'secret_view'), ('f"b', "it's<&>${detail}")]
KINDS = ['static-missing', 'static-oob', 'static-slash', 'pm-multi', 'pm-single', 'forbidden']

_state = {}


class DenyAll:
    def identity(self, request):
        return None

    def authenticated_userid(self, request):
        return None

    def permits(self, request, context, permission):
        from pyramid.security import Denied
        return Denied('denied by the C19 harness policy')

    def remember(self, request, userid, **kw):
        return []

    def forget(self, request, **kw):
        return []


def _mk(fname):
    from pyramid.response import Response

    def v(request):
        return Response('reached')
    v.__name__ = fname
    return v


def build_app():
    from pyramid.config import Configurator
    d = tempfile.mkdtemp(prefix='C19_static_')
    atexit.register(shutil.rmtree, d, True)
    os.mkdir(os.path.join(d, 'sub'))
    with open(os.path.join(d, 'a.txt'), 'w') as f:
        f.write('hi\n')
    with open(os.path.join(d, 'sub', 'index.html'), 'w') as f:
        f.write('idx\n')
    cfg = Configurator()
    cfg.set_security_policy(DenyAll())
    cfg.add_static_view('static', d)
    for n in PM_NAMES:
        cfg.add_view(_mk('v1'), name=n, request_param='c19a')
        cfg.add_view(_mk('v2'), name=n, request_param='c19b')
    for n, fn in PS_NAMES:
        cfg.add_view(_mk(fn), name=n, request_param='c19zz')
    for n, fn in FB_NAMES:
        cfg.add_view(_mk(fn), name=n, permission='view')
    cfg.commit()
    _state['dir'] = d
    return cfg.make_wsgi_app()


def environ_of(case):
    env = [['REQUEST_METHOD', 'GET'], ['SERVER_NAME', 'localhost'], ['SERVER_PORT', '80'], ['wsgi.url_scheme', 'http'],
           ['SCRIPT_NAME', case['script'].encode('utf-8').decode('latin-1')], ['PATH_INFO', case['path'].encode('utf-8').decode('latin-1')],
           ['SERVER_PROTOCOL', 'HTTP/1.1'], ['QUERY_STRING', case['query']]]
    if case['accept'] is not None:
        env.append(['HTTP_ACCEPT', case['accept']])
    return env


def expected(case, formats):
    """-> (class name, detail or None, location) the exception is raised with."""
    from webob import Request
    req = Request(dict(map(tuple, environ_of(case))))
    k = case['kind']
    if k == 'static-missing':
        return 'HTTPNotFound', req.url, ''
    if k == 'static-oob':
        return 'HTTPNotFound', formats['out_of_bounds'] % req.url, ''
    if k == 'static-slash':
        url = req.path_url + '/'
        if req.query_string:
            url = url + '?' + req.query_string
        return 'HTTPMovedPermanently', None, url
    name = case['path'][1:]
    if k == 'pm-multi':
        return 'HTTPNotFound', name, ''
    if k == 'pm-single':
        fn = dict(PS_NAMES)[name]
        return 'HTTPNotFound', formats['predicate_mismatch'] % (fn, 'request_param c19zz'), ''
    if k == 'forbidden':
        fn = dict(FB_NAMES)[name]
        return 'HTTPForbidden', formats['unauthorized'] % fn, ''
    raise ValueError(k)


def gen_case(rng, gen_text, gen_accept):
    k = rng.choice(KINDS)
    query, script = '', ''
    if rng.random() < 0.4:
        query = gen_text(rng, 3, surrogates=False).replace('\n', '').replace('\r', '')
        query = ''.join(c if ord(c) < 128 else '%E2%82%AC' for c in query)   # a non-UTF-8 query makes request.params fail
        if 'c19' in query:
            query = ''
    if rng.random() < 0.2:
        script = '/' + ''.join(c for c in gen_text(rng, 2, surrogates=False) if c not in '\n\r')
    if k == 'static-missing':
        segs = ['zz' + gen_text(rng, 3, surrogates=False).replace('\x00', '') for _ in range(rng.choice([1, 1, 2]))]
        segs = [s.replace('/', '|').replace('\\', '|') for s in segs]
        path = '/static/' + '/'.join(segs)
    elif k == 'static-oob':
        t = gen_text(rng, 2, surrogates=False).replace('/', '|')
        path = '/static/zz' + t + '\x00' + gen_text(rng, 2, surrogates=False).replace('/', '|')
    elif k == 'static-slash':
        path = '/static/sub'
    elif k == 'pm-multi':
        path = '/' + rng.choice(PM_NAMES)
    elif k == 'pm-single':
        path = '/' + rng.choice(PS_NAMES)[0]
    else:
        path = '/' + rng.choice(FB_NAMES)[0]
    return {'via': 'app', 'kind': k, 'path': path, 'query': query, 'script': script, 'accept': gen_accept(rng)}


def valid(case):
    try:
        if set(case) != {'via', 'kind', 'path', 'query', 'script', 'accept'} or case['kind'] not in KINDS:
            return False
        p, q, s = case['path'], case['query'], case['script']
        if not all(isinstance(x, str) for x in (p, q, s)) or not (case['accept'] is None or isinstance(case['accept'], str)):
            return False
        p.encode('utf-8')
        s.encode('utf-8')
        if any(c in q + s for c in '\n\r') or any(ord(c) > 127 for c in q) \
                or (s and not s.startswith('/')):
            return False
        if 'c19' in q or '#' in s or '?' in s:
            return False
        k = case['kind']
        if k in ('static-missing', 'static-oob'):
            if not p.startswith('/static/zz') or '\\' in p:
                return False
            tail = p[len('/static/'):]
            if any(seg in ('', '.', '..') for seg in tail.split('/')):
                return False
            return ('\x00' in tail) == (k == 'static-oob')
        if k == 'static-slash':
            return p == '/static/sub'
        if k == 'pm-multi':
            return p[:1] == '/' and p[1:] in PM_NAMES
        if k == 'pm-single':
            return p[:1] == '/' and p[1:] in dict(PS_NAMES)
        return p[:1] == '/' and p[1:] in dict(FB_NAMES)
    except Exception:
        return False
