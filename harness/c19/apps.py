"""C19: the other raisers of HTTP exceptions that put request-derived text into the page, each reached through a
real Router: static views (not found: request.url; out of bounds; add-slash redirect with a Location built from the
request URL and query string), PredicateMismatch from view lookup (multiview: the view name; single view: function
name + predicate text), HTTPForbidden of the secured-view deriver (function name).

The expected model input (class, detail, location) is computed here from what was registered, from the message
formats read out of the source by the facts extractor, and from WebOb's request.url / path_url (oracle)."""
import atexit
import os
import shutil
import tempfile

PM_NAMES = ['pm', '<pm>', '${br}$$', 'p"m\'&', 'pé€']
PS_NAMES = [('ps', '<single>${br}'), ('ps2', 'plain_view'), ('p<s>', '$$"\'&<v>')]     # (view name, function __name__)
FB_NAMES = [('fb', '<secret>${br}'), ('fb2', 'secret_view'), ('f"b', "it's<&>${detail}")]
KINDS = ['static-missing', 'static-oob', 'static-slash', 'pm-multi', 'pm-single', 'forbidden']
# second world (build_app3): add_notfound_view(append_slash=True) over routes with a trailing slash; a view that hands
# back the response of a subrequest run through the tweens; a view protected by require_csrf (origin check on https);
# a NewResponse subscriber and a response callback that re-label the response when the request asks for it
KINDS3 = ['slash-redirect', 'slash-miss', 'sub-notfound', 'csrf-origin']
RELABELS = [None, 'text/html', 'application/json', 'text/plain', 'image/svg+xml']

_state = {}


class DenyAll:
    def identity(self, request):
        return None

    def authenticated_userid(self, request):
        return None

    def permits(self, request, context, permission):
        from pyramid.security import Denied
        return Denied('denied by the C19 harness policy')

    def remember(self, request, userid, **kw):
        return []

    def forget(self, request, **kw):
        return []


def _mk(fname):
    from pyramid.response import Response

    def v(request):
        return Response('reached')
    v.__name__ = fname
    return v


def build_app():
    from pyramid.config import Configurator
    d = tempfile.mkdtemp(prefix='C19_static_')
    atexit.register(shutil.rmtree, d, True)
    os.mkdir(os.path.join(d, 'sub'))
    with open(os.path.join(d, 'a.txt'), 'w') as f:
        f.write('hi\n')
    with open(os.path.join(d, 'sub', 'index.html'), 'w') as f:
        f.write('idx\n')
    cfg = Configurator()
    cfg.set_security_policy(DenyAll())
    cfg.add_static_view('static', d)
    for n in PM_NAMES:
        cfg.add_view(_mk('v1'), name=n, request_param='c19a')
        cfg.add_view(_mk('v2'), name=n, request_param='c19b')
    for n, fn in PS_NAMES:
        cfg.add_view(_mk(fn), name=n, request_param='c19zz')
    for n, fn in FB_NAMES:
        cfg.add_view(_mk(fn), name=n, permission='view')
    cfg.commit()
    _state['dir'] = d
    return cfg.make_wsgi_app()


def _relabel_subscriber(event):
    ct = event.request.environ.get('HTTP_X_C19_RELABEL')
    if ct:
        event.response.content_type = ct


def _sub_view(request):
    from pyramid.request import Request
    sub = Request.blank('/')
    # the subrequest carries the tail of the outer path, no Accept header, and goes through the tweens
    sub.environ['PATH_INFO'] = '/nf' + request.environ['PATH_INFO'][len('/sub'):]
    sub.environ['SCRIPT_NAME'] = ''
    return request.invoke_subrequest(sub, use_tweens=True)


def _callback_view_factory():
    from pyramid.response import Response

    def v(request):
        return Response('reached')
    return v


def _new_request(event):
    # a response callback registered for every request: same re-labelling, one step earlier than NewResponse
    req = event.request

    def cb(request, response):
        ct = request.environ.get('HTTP_X_C19_RELABEL_CB')
        if ct:
            response.content_type = ct
    req.add_response_callback(cb)


def build_app3():
    from pyramid.config import Configurator
    from pyramid.events import NewRequest, NewResponse
    cfg = Configurator()
    cfg.add_route('slash', '/slash/{x}/')
    cfg.add_route('fixed', '/fixed/')
    cfg.add_route('sub', '/sub/*rest')
    cfg.add_route('csrf', '/csrf')
    cfg.add_view(_callback_view_factory(), route_name='slash')
    cfg.add_view(_callback_view_factory(), route_name='fixed')
    cfg.add_view(_sub_view, route_name='sub')
    cfg.add_view(_callback_view_factory(), route_name='csrf', require_csrf=True)
    cfg.add_notfound_view(append_slash=True)
    cfg.add_subscriber(_relabel_subscriber, NewResponse)
    cfg.add_subscriber(_new_request, NewRequest)
    cfg.commit()
    return cfg.make_wsgi_app()


def is_app3(case):
    return case['kind'] in KINDS3


def environ_of(case):
    if case['kind'] in KINDS3:
        env = [['REQUEST_METHOD', 'POST' if case['kind'] == 'csrf-origin' else 'GET'], ['SERVER_NAME', 'localhost'],
               ['SERVER_PORT', '443' if case['kind'] == 'csrf-origin' else '80'],
               ['wsgi.url_scheme', 'https' if case['kind'] == 'csrf-origin' else 'http'],
               ['SCRIPT_NAME', case['script'].encode('utf-8').decode('latin-1')],
               ['PATH_INFO', case['path'].encode('utf-8').decode('latin-1')],
               ['SERVER_PROTOCOL', 'HTTP/1.1'], ['QUERY_STRING', case['query']]]
        if case['kind'] == 'csrf-origin':
            env.append(['HTTP_ORIGIN', case['origin']])
            env.append(['CONTENT_LENGTH', '0'])
        if case['accept'] is not None:
            env.append(['HTTP_ACCEPT', case['accept']])
        if case.get('relabel'):
            env.append(['HTTP_X_C19_RELABEL' if not case.get('relabel_cb') else 'HTTP_X_C19_RELABEL_CB', case['relabel']])
        return env
    env = [['REQUEST_METHOD', 'GET'], ['SERVER_NAME', 'localhost'], ['SERVER_PORT', '80'], ['wsgi.url_scheme', 'http'],
           ['SCRIPT_NAME', case['script'].encode('utf-8').decode('latin-1')], ['PATH_INFO', case['path'].encode('utf-8').decode('latin-1')],
           ['SERVER_PROTOCOL', 'HTTP/1.1'], ['QUERY_STRING', case['query']]]
    if case['accept'] is not None:
        env.append(['HTTP_ACCEPT', case['accept']])
    return env


def expected(case, formats):
    """-> (class name, detail or None, location[, explanation override]) the exception is raised with."""
    from webob import Request
    req = Request(dict(map(tuple, environ_of(case))))
    k = case['kind']
    if k == 'slash-redirect':
        qs = req.query_string
        if qs:
            qs = '?' + qs
        return formats['append_slash_class'], None, req.path + '/' + qs
    if k == 'slash-miss':
        return 'HTTPNotFound', req.path_info, ''
    if k == 'sub-notfound':
        env = dict(map(tuple, environ_of(case)))
        sub = Request({'PATH_INFO': '/nf' + env['PATH_INFO'][len('/sub'):], 'SCRIPT_NAME': '', 'REQUEST_METHOD': 'GET',
                       'SERVER_NAME': 'localhost', 'SERVER_PORT': '80', 'wsgi.url_scheme': 'http'})
        return 'HTTPNotFound', sub.path_info, ''
    if k == 'csrf-origin':
        origin = case['origin'].split(' ')[-1]
        return ('HTTPBadRequest', formats['csrf_origin_prefix'] + origin + formats['csrf_origin_suffix'], '',
                formats['csrf_origin_explanation'])
    if k == 'static-missing':
        return 'HTTPNotFound', req.url, ''
    if k == 'static-oob':
        return 'HTTPNotFound', formats['out_of_bounds'] % req.url, ''
    if k == 'static-slash':
        url = req.path_url + '/'
        if req.query_string:
            url = url + '?' + req.query_string
        return 'HTTPMovedPermanently', None, url
    name = case['path'][1:]
    if k == 'pm-multi':
        return 'HTTPNotFound', name, ''
    if k == 'pm-single':
        fn = dict(PS_NAMES)[name]
        return 'HTTPNotFound', formats['predicate_mismatch'] % (fn, 'request_param c19zz'), ''
    if k == 'forbidden':
        fn = dict(FB_NAMES)[name]
        return 'HTTPForbidden', formats['unauthorized'] % fn, ''
    raise ValueError(k)


def gen_case3(rng, gen_text, gen_accept):
    k = rng.choice(KINDS3)
    query, script, origin = '', '', ''
    if rng.random() < (0.75 if k == 'slash-redirect' else 0.3):
        query = gen_text(rng, 4, surrogates=False).replace('\n', '').replace('\r', '')
        query = ''.join(c if ord(c) < 128 else '%E2%82%AC' for c in query)
    if rng.random() < 0.15 and k != 'sub-notfound':
        script = '/' + ''.join(c for c in gen_text(rng, 2, surrogates=False) if c not in '\n\r#?')
    seg = (gen_text(rng, 3, surrogates=False) or 'x').replace('/', '|')
    if k == 'slash-redirect':
        path = rng.choice(['/slash/' + seg, '/slash/' + seg, '/fixed'])
    elif k == 'slash-miss':
        path = rng.choice(['/zz' + seg, '/slash/' + seg + '/deeper'])
    elif k == 'sub-notfound':
        path = '/sub/' + seg
    else:
        path = '/csrf'
        t = ''.join(c for c in gen_text(rng, 3, surrogates=False) if 32 < ord(c) < 127 and c not in '[]')
        origin = rng.choice(['https://evil', 'https://', 'https://localhost.evil']) + t
        if rng.random() < 0.2:
            origin = 'https://first.example ' + origin
    case = {'via': 'app', 'kind': k, 'path': path, 'query': query, 'script': script, 'accept': gen_accept(rng)}
    if k == 'csrf-origin':
        case['origin'] = origin
    if rng.random() < 0.4:
        case['relabel'] = rng.choice(RELABELS[1:])
        if rng.random() < 0.4:
            case['relabel_cb'] = True
    return case


def gen_case(rng, gen_text, gen_accept):
    if rng.random() < 0.4:
        return gen_case3(rng, gen_text, gen_accept)
    k = rng.choice(KINDS)
    query, script = '', ''
    if rng.random() < 0.4:
        query = gen_text(rng, 3, surrogates=False).replace('\n', '').replace('\r', '')
        query = ''.join(c if ord(c) < 128 else '%E2%82%AC' for c in query)   # a non-UTF-8 query makes request.params fail
        if 'c19' in query:
            query = ''
    if rng.random() < 0.2:
        script = '/' + ''.join(c for c in gen_text(rng, 2, surrogates=False) if c not in '\n\r')
    if k == 'static-missing':
        segs = ['zz' + gen_text(rng, 3, surrogates=False).replace('\x00', '') for _ in range(rng.choice([1, 1, 2]))]
        segs = [s.replace('/', '|').replace('\\', '|') for s in segs]
        path = '/static/' + '/'.join(segs)
    elif k == 'static-oob':
        t = gen_text(rng, 2, surrogates=False).replace('/', '|')
        path = '/static/zz' + t + '\x00' + gen_text(rng, 2, surrogates=False).replace('/', '|')
    elif k == 'static-slash':
        path = '/static/sub'
    elif k == 'pm-multi':
        path = '/' + rng.choice(PM_NAMES)
    elif k == 'pm-single':
        path = '/' + rng.choice(PS_NAMES)[0]
    else:
        path = '/' + rng.choice(FB_NAMES)[0]
    return {'via': 'app', 'kind': k, 'path': path, 'query': query, 'script': script, 'accept': gen_accept(rng)}


def valid(case):
    try:
        if case.get('kind') in KINDS3:
            return valid3(case)
        if set(case) != {'via', 'kind', 'path', 'query', 'script', 'accept'} or case['kind'] not in KINDS:
            return False
        p, q, s = case['path'], case['query'], case['script']
        if not all(isinstance(x, str) for x in (p, q, s)) or not (case['accept'] is None or isinstance(case['accept'], str)):
            return False
        p.encode('utf-8')
        s.encode('utf-8')
        if any(c in q + s for c in '\n\r') or any(ord(c) > 127 for c in q) \
                or (s and not s.startswith('/')):
            return False
        if 'c19' in q or '#' in s or '?' in s:
            return False
        k = case['kind']
        if k in ('static-missing', 'static-oob'):
            if not p.startswith('/static/zz') or '\\' in p:
                return False
            tail = p[len('/static/'):]
            if any(seg in ('', '.', '..') for seg in tail.split('/')):
                return False
            return ('\x00' in tail) == (k == 'static-oob')
        if k == 'static-slash':
            return p == '/static/sub'
        if k == 'pm-multi':
            return p[:1] == '/' and p[1:] in PM_NAMES
        if k == 'pm-single':
            return p[:1] == '/' and p[1:] in dict(PS_NAMES)
        return p[:1] == '/' and p[1:] in dict(FB_NAMES)
    except Exception:
        return False


def valid3(case):
    k = case['kind']
    want = {'via', 'kind', 'path', 'query', 'script', 'accept'} | ({'origin'} if k == 'csrf-origin' else set())
    if set(case) - {'relabel', 'relabel_cb'} != want:
        return False
    p, q, s = case['path'], case['query'], case['script']
    if not all(isinstance(x, str) for x in (p, q, s)) or not (case['accept'] is None or isinstance(case['accept'], str)):
        return False
    if case.get('relabel') not in RELABELS or case.get('relabel_cb') not in (None, True):
        return False
    if case.get('relabel_cb') and not case.get('relabel'):
        return False
    p.encode('utf-8')
    s.encode('utf-8')
    if any(c in q + s for c in '\n\r') or any(ord(c) > 127 for c in q) or (s and not s.startswith('/')) \
            or '#' in s or '?' in s:
        return False
    if k == 'slash-redirect':
        if p == '/fixed':
            return True
        seg = p[len('/slash/'):]
        return p.startswith('/slash/') and seg != '' and '/' not in seg
    if k == 'slash-miss':
        if p.startswith('/zz'):
            return '/' not in p[1:] and p != '/zz'
        seg = p[len('/slash/'):]
        return p.startswith('/slash/') and seg.endswith('/deeper') and seg.count('/') == 1 and not seg.startswith('/')
    if k == 'sub-notfound':
        return p.startswith('/sub/') and s == '' and len(p) > 5 and '/' not in p[5:]
    o = case['origin']
    last = o.split(' ')[-1] if isinstance(o, str) else ''
    if not (p == '/csrf' and isinstance(o, str) and o.isascii() and all(32 <= ord(c) < 127 and c not in '[]' for c in o)):
        return False
    from urllib.parse import urlparse
    try:
        up = urlparse(last)
    except ValueError:
        return False
    # the generated class: a parsable https origin that is not the site's own (the detail then echoes the origin)
    return up.scheme == 'https' and up.netloc.lower() != 'localhost' and last != 'null'
