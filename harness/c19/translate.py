"""C19 translator: Python ast of HTTPException.__init__, _HTTPMove.__init__, HTTPForbidden.__init__,
HTTPException._json_formatter, HTTPException.prepare and HTTPException.__call__ (src/pyramid/httpexceptions.py) ->
Gallina definitions gen_init / gen_move_init / gen_forbidden_init / gen_prepare / gen_call, re-run on every check (prop.facts) and emitted into
coq/Gen/Facts_C19.v.

A second, smaller translator (end of this file, SITES) regenerates the ARGUMENT EXPRESSIONS by which the router, the
static view and the append-slash Not Found view build their exceptions: gen_site_* : req -> raised.

Fail-closed: a statement outside the SUBSET, an expression outside the PRIMITIVE TABLE, a typing surprise, a changed
binding of a global name the table relies on -> Problem; the caller records it as a broken tie and emits the stored
fallback text (harness/c19/gen_fallback.json, the translation of the text the reference model was written against) so
that the Coq development still builds and the violation search has a model and a spec.

=== CONTROL FLOW (translated mechanically, continuation passing, nothing is looked up) ==========================
  block s1; s2; ...        the translation of s1 receives the translation of the rest as its continuation
  v = e                    substitution: v stands for the term of e from here on (locals never occur in the output)
  v = <res-valued call>    (rbind <call> (fun vN => <rest>))      substitute / encode may raise: KeyError, ValueError,
                           UnicodeEncodeError are values of [res]; the rest runs only on [Ok]
  self.X = e ; del self.X  the object is a record; its fields are substituted like locals and the final
                           [mkObj ...] is built where the function ends (fields never written stay projections)
  args[k] = e              args := aset k e args   (dict assignment: replace in place, else append)
  if c: A else: B ; rest   decision tree over the ATOMS of c (`and`, `or`, `not` are split; a test repeated on a path
                           is resolved; an `if` whose branches are the same term disappears; statically known tests --
                           isinstance(x, str) of a text, `x is None` of a value that cannot be None, a parameter the
                           model fixes to None -- are resolved at translation time); each branch is followed by its
                           own copy of <rest>.  elif = nested else-if.
  if X is (not) None       with X an optional-text variable: (match X with Some x => .. | None => .. end)
  for k, v in E: B ; rest  ((fix loopN (lN : list (text * text)) (c_v.. : carried) {struct lN} : ret :=
                              match lN with [] => <rest> | (kN, vN) :: tN => <B> end) E v..)
                           carried = variables assigned in B that are bound at loop entry (here: the args dict);
     continue / end of B   recursive call  loopN tN v..
                           (break, return, else-clause, assignments to self inside a loop: Problem)
  nested class             only the exact JsonPageTemplate shape (an object whose substitute(status=, body=) is
                           json.dumps(self.excobj._json_formatter(status=, body=, title=self.excobj.title, environ=)));
                           _json_formatter itself is translated (its dict literal); the call goes to the instance
                           attribute when the constructor stored a formatter:
                           (match ob_formatter self with Some f => rmap json_object (apply_fmt f ..) | None => <method>)
  self.prepare(environ)    (rbind (gen_prepare neg self environ) (fun selfN => <rest>))
  super().__init__(..) / <Base>.__init__(self, ..)
                           when every class from the base up to HTTPException defines no __init__ / __new__ (checked):
                           gen_init with positional arguments bound in the order of HTTPException.__init__'s parameters
                           and keyword arguments by name (missing ones = None); keywords that are not parameters of
                           HTTPException.__init__ are prepended, as (name, value) pairs, to **kw; a json_formatter= of
                           the caller travels inside **kw (separate parameter kw_json_formatter)
  raise                    only inside a branch that was resolved away statically; otherwise Problem
  return Response.__call__(self, environ, start_response)     Ok (respond self, self)

=== PRIMITIVE TABLE (trusted: each line is a claim about Python / WebOb / Pyramid semantics) ====================
  parameters            prepare/__call__: self : obj, environ : list (text * text) (str-valued items, in order);
                        __init__: detail, comment, body_template : option text; headers : list of pairs (None = []);
                        json_formatter : option fmt (None = the default formatter; Some f: a formatter of the family
                        of coq/Model/C19_base.v, apply_fmt); **kw : list of (name, text): content_type, charset, location;
                        HTTPForbidden.__init__: result (stored, never read by the modelled code: erased);
                        _HTTPMove.__init__: location : text (never None)
  self.<attr> (read)    comment detail : option text; explanation status title code : text (code: the decimal text
                        of the int class attribute); charset : text ([] = None); has_body : negb (is_nil body);
                        empty_body : bool; body_template_obj : the template text; html_template_obj /
                        plain_template_obj : the regenerated literals html_template / plain_template;
                        headers.items() : ob_headers (Content-Type/-Length left out: '-' cannot occur in an identifier)
  self.<attr> (write)   content_type = 'literal' (WebOb's setter: ob_ctype := literal, ob_charset := default_charset
                        literal, i.e. UTF-8 for text/*, text/html and XML types, none otherwise; earlier parameters are
                        dropped), charset = None, _json_formatter = f (ob_formatter := Some f), body,
                        detail, comment, body_template_obj = Template(t) (marks the object's template as custom);
                        message, body_template, app_iter: not observed, erased;  del content_type (also drops the
                        charset), del content_length (erased)
  HTTPException.body_template_obj is not X     ob_tmpl_custom self   (X the object's template: identity with the
                        class-level default object = "no class and no constructor argument replaced it")
  'lit'                 text literal;  None;  x or ''  -> or_empty x (x optional text);  bool(text) -> truthy
  a == b, a != b        text_eqb (texts);  'c' in k -> memN c k (one-character literal);  k.startswith('lit');
                        k.lower() -> lower k (ASCII);  a + b -> a ++ b;  'pre%ssuf' % x -> pre ++ x ++ suf;
                        f'{a} {b}' -> a ++ " " ++ b (texts, no conversions / format specs)
  environ.get(K, D)     env_get K D environ
  create_accept_header(v).acceptable_offers([..])   neg v [..] : the NEGOTIATION ORACLE (WebOb), a parameter of the
                        generated functions; its value is the list of kept offers in order of preference
  [o[0] for o in X]     X (the oracle already stands for the offer names);  X[0] -> hd [] X, only for X = _ ++ [_]
  _html_escape(x)       html_escape x (module-level binding checked: import from webob);  _no_escape(x) -> gen_no_escape x,
                        the translation of the module-level function _no_escape (text_function: on a str argument the
                        `is None`, `not isinstance(value, str)` tests are static)
  {k: v, ..}            aset .. (aset k v [])   ;  T.substitute(args) / T.substitute(k=v, ..) -> substitute T [..]
  Template(t)           t ;  json.dumps(dict of texts) -> json_object ;  isinstance(text, str) -> True
  x.encode(E)           encode_text E x  (UTF-8 only; another codec is an explicit error value)
  a if c else b         (if c then a else b)
  Response.__init__(self, status=s, **kw)   ob_status := s, ob_ctype := kw_ctype kw (content_type= or text/html),
                        ob_charset := kw_charset kw (charset= or UTF-8, for texty types only), headers :=
                        kw_headers kw (location= becomes the Location header), body empty
  Exception.__init__(self, detail)          no observable effect
  self.headers.extend(h)                    ob_headers := ob_headers ++ h
"""
import ast
import json
import os

HERE = os.path.dirname(os.path.abspath(__file__))

# every source function whose control flow is regenerated on every run (tools/coverage_map.py reads this)
TRANSLATED = ['pyramid/httpexceptions.py:_no_escape',
              'pyramid/httpexceptions.py:HTTPException.__init__',
              'pyramid/httpexceptions.py:_HTTPMove.__init__',
              'pyramid/httpexceptions.py:HTTPForbidden.__init__',
              'pyramid/httpexceptions.py:HTTPException._json_formatter',
              'pyramid/httpexceptions.py:HTTPException.prepare',
              'pyramid/httpexceptions.py:HTTPException.__call__',
              # whole function = straight-line text expressions + the constructor call (translate_sites, strict)
              'pyramid/static.py:static_view.add_slash_redirect']
STRICT_SITES = ['static_slash']
FALLBACK = os.path.join(HERE, 'gen_fallback.json')

FIELDS = ['ob_code', 'ob_title', 'ob_expl', 'ob_tmpl', 'ob_tmpl_custom', 'ob_empty', 'ob_status', 'ob_detail',
          'ob_comment', 'ob_headers', 'ob_ctype', 'ob_charset', 'ob_body', 'ob_formatter']
READ = {'comment': ('ob_comment', 'otext'), 'detail': ('ob_detail', 'otext'), 'explanation': ('ob_expl', 'text'),
        'status': ('ob_status', 'text'), 'title': ('ob_title', 'text'), 'code': ('ob_code', 'text'),
        'charset': ('ob_charset', 'text'), 'empty_body': ('ob_empty', 'bool')}
JSON_CLASS_DUMP = (
    "ClassDef(name='JsonPageTemplate', bases=[], keywords=[], body=[FunctionDef(name='__init__', args=arguments("
    "posonlyargs=[], args=[arg(arg='self'), arg(arg='excobj')], kwonlyargs=[], kw_defaults=[], defaults=[]), body=["
    "Assign(targets=[Attribute(value=Name(id='self', ctx=Load()), attr='excobj', ctx=Store())], value=Name(id='excobj', "
    "ctx=Load()))], decorator_list=[], type_params=[]), FunctionDef(name='substitute', args=arguments(posonlyargs=[], "
    "args=[arg(arg='self'), arg(arg='status'), arg(arg='body')], kwonlyargs=[], kw_defaults=[], defaults=[]), body=["
    "Assign(targets=[Name(id='jsonbody', ctx=Store())], value=Call(func=Attribute(value=Attribute(value=Name(id='self', "
    "ctx=Load()), attr='excobj', ctx=Load()), attr='_json_formatter', ctx=Load()), args=[], keywords=[keyword(arg="
    "'status', value=Name(id='status', ctx=Load())), keyword(arg='body', value=Name(id='body', ctx=Load())), keyword("
    "arg='title', value=Attribute(value=Attribute(value=Name(id='self', ctx=Load()), attr='excobj', ctx=Load()), attr="
    "'title', ctx=Load())), keyword(arg='environ', value=Name(id='environ', ctx=Load()))])), Return(value=Call(func="
    "Attribute(value=Name(id='json', ctx=Load()), attr='dumps', ctx=Load()), args=[Name(id='jsonbody', ctx=Load())], "
    "keywords=[]))], decorator_list=[], type_params=[])], decorator_list=[], type_params=[])")


class Problem(Exception):
    pass


def u(node):
    try:
        return ast.unparse(node)[:120]
    except Exception:
        return '<%s>' % type(node).__name__


class T:
    """a Gallina term (text) with the type the translator tracks"""

    def __init__(self, code, ty, **kw):
        self.code, self.ty = code, ty
        self.nonempty = kw.get('nonempty', False)
        self.own_tmpl = kw.get('own_tmpl', False)     # the value of self.body_template_obj
        self.custom = kw.get('custom', False)         # a Template(..) built here


def lit(s):
    if not s:
        return '(@nil N)'
    return '[' + '; '.join(str(ord(c)) for c in s) + ']%N'


class Ctx:
    def __init__(self, ret, finish, meta, helpers):
        self.ret, self.finish, self.meta, self.helpers = ret, finish, meta, helpers
        self.n = 0

    def fresh(self):
        self.n += 1
        return self.n


class St:
    def __init__(self, vars_, selfbase, fields=None, known=None, loop=None):
        self.vars = dict(vars_)
        self.selfbase = selfbase
        self.fields = dict(fields or {})
        self.known = dict(known or {})
        self.loop = loop          # (loop name, tail var, [carried names]) inside a loop body

    def copy(self):
        return St(self.vars, self.selfbase, self.fields, self.known, self.loop)

    def field(self, f):
        return self.fields[f] if f in self.fields else '(%s %s)' % (f, self.selfbase)

    def obj(self):
        if not self.fields:
            return self.selfbase
        return '(mkObj ' + ' '.join(self.field(f) for f in FIELDS) + ')'


# ------------------------------------------------------------------------------------------ expressions
def is_self(n):
    return isinstance(n, ast.Name) and n.id == 'self'


def expr(n, st, cx):
    if isinstance(n, ast.Constant):
        if isinstance(n.value, str):
            return T(lit(n.value), 'text')
        if n.value is None:
            return T('None', 'none')
        raise Problem('constant %r' % (n.value,))
    if isinstance(n, ast.Name):
        if n.id in st.vars:
            return st.vars[n.id]
        if n.id in cx.helpers['escapes']:
            return T(cx.helpers['escapes'][n.id], 'fn')
        raise Problem('name %s is not bound to a modelled value here' % n.id)
    if isinstance(n, ast.Attribute) and is_self(n.value):
        a = n.attr
        if a in READ:
            f, ty = READ[a]
            return T(st.field(f), ty)
        if a == 'has_body':
            return T('(negb (is_nil %s))' % st.field('ob_body'), 'bool')
        if a == 'body_template_obj':
            return T(st.field('ob_tmpl'), 'tmpl', own_tmpl=True)
        if a == 'html_template_obj':
            return T('html_template', 'tmpl')
        if a == 'plain_template_obj':
            return T('plain_template', 'tmpl')
        if a == 'headers':
            return T(st.field('ob_headers'), 'headers')
        raise Problem('attribute self.%s is not in the table' % a)
    if isinstance(n, ast.BoolOp) and isinstance(n.op, ast.Or) and len(n.values) == 2 \
            and isinstance(n.values[1], ast.Constant) and n.values[1].value == '':
        x = expr(n.values[0], st, cx)
        if x.ty == 'otext':
            return T('(or_empty %s)' % x.code, 'text')
        if x.ty == 'text':
            return x
        raise Problem("`x or ''` of a %s" % x.ty)
    if isinstance(n, ast.JoinedStr):
        parts = []
        for v in n.values:
            if isinstance(v, ast.Constant) and isinstance(v.value, str):
                parts.append(lit(v.value))
            elif isinstance(v, ast.FormattedValue) and v.conversion == -1 and v.format_spec is None:
                x = expr(v.value, st, cx)
                if x.ty != 'text':
                    raise Problem('f-string part of type %s' % x.ty)
                parts.append(x.code)
            else:
                raise Problem('f-string part %s' % u(v))
        return T('(' + ' ++ '.join(parts) + ')' if parts else lit(''), 'text')
    if isinstance(n, ast.BinOp) and isinstance(n.op, ast.Mod):
        if not (isinstance(n.left, ast.Constant) and isinstance(n.left.value, str)):
            raise Problem('% with a non-literal format')
        fmt = n.left.value
        if fmt.count('%s') != 1 or '%' in fmt.replace('%s', ''):
            raise Problem('format %r' % fmt)
        x = expr(n.right, st, cx)
        if x.ty != 'text':
            raise Problem('%% argument of type %s' % x.ty)
        pre, suf = fmt.split('%s')
        return T('(%s ++ %s ++ %s)' % (lit(pre), x.code, lit(suf)), 'text')
    if isinstance(n, ast.BinOp) and isinstance(n.op, ast.Add):
        a, b = expr(n.left, st, cx), expr(n.right, st, cx)
        if a.ty == b.ty and a.ty in ('text', 'texts'):
            return T('(%s ++ %s)' % (a.code, b.code), a.ty, nonempty=(a.ty == 'texts' and (a.nonempty or b.nonempty)))
        raise Problem('+ of %s and %s' % (a.ty, b.ty))
    if isinstance(n, ast.List):
        xs = [expr(e, st, cx) for e in n.elts]
        if xs and all(x.ty == 'text' for x in xs):
            return T('[' + '; '.join(x.code for x in xs) + ']', 'texts', nonempty=True)
        if len(xs) == 1 and xs[0].ty == 'bytes':
            return T('', 'erased')
        raise Problem('list literal %s' % u(n))
    if isinstance(n, ast.ListComp):
        if ast.dump(n.elt) == "Subscript(value=Name(id='%s', ctx=Load()), slice=Constant(value=0), ctx=Load())" % (
                n.generators[0].target.id if isinstance(n.generators[0].target, ast.Name) else '?') \
                and len(n.generators) == 1 and not n.generators[0].ifs and not n.generators[0].is_async:
            x = expr(n.generators[0].iter, st, cx)
            if x.ty == 'offers':
                return T(x.code, 'texts')
        raise Problem('comprehension %s' % u(n))
    if isinstance(n, ast.Subscript) and isinstance(n.slice, ast.Constant) and n.slice.value == 0:
        x = expr(n.value, st, cx)
        if x.ty == 'texts' and x.nonempty:
            return T('(hd (@nil N) %s)' % x.code, 'text')
        raise Problem('[0] of a list not known to be non-empty')
    if isinstance(n, ast.Dict):
        code = '(@nil (text * text))'
        for k, v in zip(n.keys, n.values):
            if k is None:
                raise Problem('dict unpacking')
            kk, vv = expr(k, st, cx), expr(v, st, cx)
            if kk.ty != 'text' or vv.ty != 'text':
                raise Problem('dict item %s: %s of types %s, %s' % (u(k), u(v), kk.ty, vv.ty))
            code = '(aset %s %s %s)' % (kk.code, vv.code, code)
        return T(code, 'env')
    if isinstance(n, ast.IfExp):
        a, b = expr(n.body, st, cx), expr(n.orelse, st, cx)
        if a.ty != b.ty or a.ty != 'text':
            raise Problem('conditional expression of types %s, %s' % (a.ty, b.ty))
        return T(cond(n.test, st, cx, lambda s: a.code, lambda s: b.code), 'text')
    if isinstance(n, ast.Call):
        return call(n, st, cx)
    raise Problem('expression %s is outside the table' % u(n))


def kwenv(keywords, st, cx):
    items = []
    for k in keywords:
        if k.arg is None:
            raise Problem('** in a substitute call')
        v = expr(k.value, st, cx)
        if v.ty != 'text':
            raise Problem('substitute keyword %s of type %s' % (k.arg, v.ty))
        items.append('(%s, %s)' % (lit(k.arg), v.code))
    return '[' + '; '.join(items) + ']'


def call(n, st, cx):
    f = n.func
    if isinstance(f, ast.Name):
        if f.id == 'create_accept_header' and len(n.args) == 1 and not n.keywords:
            x = expr(n.args[0], st, cx)
            if x.ty != 'text':
                raise Problem('create_accept_header of a %s' % x.ty)
            return T(x.code, 'accept')
        if f.id == 'Template' and len(n.args) == 1 and not n.keywords:
            x = expr(n.args[0], st, cx)
            if x.ty != 'text':
                raise Problem('Template of a %s' % x.ty)
            return T(x.code, 'tmpl', custom=True)
        if f.id == 'isinstance' and len(n.args) == 2 and isinstance(n.args[1], ast.Name) and n.args[1].id == 'str':
            x = expr(n.args[0], st, cx)
            if x.ty == 'text':
                return T('true', 'static-true')
            raise Problem('isinstance(<%s>, str)' % x.ty)
        fn = expr(f, st, cx)
        if fn.ty == 'fn' and len(n.args) == 1 and not n.keywords:
            x = expr(n.args[0], st, cx)
            if x.ty != 'text':
                raise Problem('escape function applied to a %s (%s)' % (x.ty, u(n.args[0])))
            return T('(%s %s)' % (fn.code, x.code), 'text')
        if fn.ty == 'jsonclass' and len(n.args) == 1 and is_self(n.args[0]) and not n.keywords:
            return T('', 'jsontmpl')
        raise Problem('call of %s' % u(f))
    if isinstance(f, ast.Attribute):
        m = f.attr
        if m == 'dumps' and isinstance(f.value, ast.Name) and f.value.id == 'json' and len(n.args) == 1 and not n.keywords:
            x = expr(n.args[0], st, cx)
            if x.ty != 'env':
                raise Problem('json.dumps of a %s' % x.ty)
            return T('(json_object %s)' % x.code, 'text')
        if m == 'items' and not n.args and not n.keywords:
            x = expr(f.value, st, cx)
            if x.ty in ('pairs', 'headers'):
                return T(x.code, 'pairs')
            raise Problem('.items() of a %s' % x.ty)
        x = expr(f.value, st, cx)
        if m == 'get' and x.ty == 'pairs' and len(n.args) == 2 and not n.keywords:
            k, d = expr(n.args[0], st, cx), expr(n.args[1], st, cx)
            if k.ty != 'text' or d.ty != 'text':
                raise Problem('environ.get with non-text key/default')
            cx.meta.setdefault('env_get', []).append((u(n.args[0]), u(n.args[1])))
            return T('(env_get %s %s %s)' % (k.code, d.code, x.code), 'text')
        if m == 'acceptable_offers' and x.ty == 'accept' and len(n.args) == 1 and not n.keywords:
            if not (isinstance(n.args[0], ast.List) and all(isinstance(e, ast.Constant) and isinstance(e.value, str)
                                                          for e in n.args[0].elts)):
                raise Problem('acceptable_offers of a non-literal list')
            offers = [e.value for e in n.args[0].elts]
            cx.meta['offers'] = offers
            cx.meta['accept_arg'] = x.code
            return T('(neg %s [%s])' % (x.code, '; '.join(lit(o) for o in offers)), 'offers')
        if m == 'startswith' and x.ty == 'text' and len(n.args) == 1 and not n.keywords:
            p = expr(n.args[0], st, cx)
            if p.ty != 'text':
                raise Problem('startswith of a %s' % p.ty)
            return T('(startswith %s %s)' % (p.code, x.code), 'bool')
        if m == 'lower' and x.ty == 'text' and not n.args and not n.keywords:
            return T('(lower %s)' % x.code, 'text')
        if m == 'substitute':
            if x.ty == 'tmpl':
                if len(n.args) == 1 and not n.keywords:
                    a = expr(n.args[0], st, cx)
                    if a.ty != 'env':
                        raise Problem('substitute of a %s' % a.ty)
                    return T('(substitute %s %s)' % (x.code, a.code), 'res text')
                if not n.args:
                    return T('(substitute %s %s)' % (x.code, kwenv(n.keywords, st, cx)), 'res text')
            if x.ty == 'jsontmpl' and not n.args:
                kws = {k.arg: k.value for k in n.keywords}
                if sorted(kws) != ['body', 'status']:
                    raise Problem('JsonPageTemplate.substitute keywords')
                sv, bv = expr(kws['status'], st, cx), expr(kws['body'], st, cx)
                if sv.ty != 'text' or bv.ty != 'text':
                    raise Problem('JsonPageTemplate.substitute arguments of types %s, %s' % (sv.ty, bv.ty))
                return T(cx.helpers['json_formatter'](sv, bv, st), 'res text')
            raise Problem('substitute on a %s' % x.ty)
        if m == 'encode' and x.ty == 'text' and len(n.args) == 1 and not n.keywords:
            e = expr(n.args[0], st, cx)
            if e.ty != 'text':
                raise Problem('encode(<%s>)' % e.ty)
            return T('(encode_text %s %s)' % (e.code, x.code), 'res bytes')
        raise Problem('method call %s on a %s' % (m, x.ty))
    raise Problem('call %s' % u(n))


# ------------------------------------------------------------------------------------------ conditions
def atom(code, st, kt, ke):
    if code in st.known:
        return kt(st) if st.known[code] else ke(st)
    s1, s2 = st.copy(), st.copy()
    s1.known[code] = True
    s2.known[code] = False
    a, b = kt(s1), ke(s2)
    if a == b:
        return a
    return '(if %s then %s else %s)' % (code, a, b)


def cond(n, st, cx, kt, ke):
    """decision tree for the truth of n; kt/ke: St -> code"""
    if isinstance(n, ast.BoolOp):
        vals = n.values
        if isinstance(n.op, ast.And):
            if len(vals) == 1:
                return cond(vals[0], st, cx, kt, ke)
            rest = ast.BoolOp(op=ast.And(), values=vals[1:])
            return cond(vals[0], st, cx, lambda s: cond(rest, s, cx, kt, ke), ke)
        if len(vals) == 1:
            return cond(vals[0], st, cx, kt, ke)
        rest = ast.BoolOp(op=ast.Or(), values=vals[1:])
        return cond(vals[0], st, cx, kt, lambda s: cond(rest, s, cx, kt, ke))
    if isinstance(n, ast.UnaryOp) and isinstance(n.op, ast.Not):
        return cond(n.operand, st, cx, ke, kt)
    if isinstance(n, ast.Compare) and len(n.ops) == 1:
        op, l, r = n.ops[0], n.left, n.comparators[0]
        if isinstance(op, (ast.Is, ast.IsNot)):
            neg = isinstance(op, ast.IsNot)
            if isinstance(r, ast.Constant) and r.value is None:
                x = expr(l, st, cx)
                if x.ty == 'none':
                    return (ke if neg else kt)(st)
                if x.ty in ('text', 'pairs'):
                    return (kt if neg else ke)(st)
                if x.ty in ('otext', 'ofmt') and isinstance(l, ast.Name):
                    v = 'o%d' % cx.fresh()
                    s1 = st.copy()
                    s1.vars[l.id] = T(v, 'text' if x.ty == 'otext' else 'fmt')
                    some, none = (kt if neg else ke)(s1), (ke if neg else kt)(st)
                    if some == none:
                        return none
                    return '(match %s with Some %s => %s | None => %s end)' % (x.code, v, some, none)
                raise Problem('`is None` test of a %s' % x.ty)
            if ast.dump(l) == "Attribute(value=Name(id='HTTPException', ctx=Load()), attr='body_template_obj', ctx=Load())":
                x = expr(r, st, cx)
                if x.ty == 'tmpl' and x.own_tmpl:
                    c = st.field('ob_tmpl_custom')
                    return atom(c, st, kt if neg else ke, ke if neg else kt)
                raise Problem('identity test against the class template of a value that is not self.body_template_obj')
            raise Problem('identity test %s' % u(n))
        if isinstance(op, (ast.Eq, ast.NotEq)):
            a, b = expr(l, st, cx), expr(r, st, cx)
            if a.ty != 'text' or b.ty != 'text':
                raise Problem('== of %s and %s' % (a.ty, b.ty))
            if isinstance(l, ast.Constant) and not isinstance(r, ast.Constant):
                a, b = b, a
            c = '(text_eqb %s %s)' % (a.code, b.code)
            return atom(c, st, ke if isinstance(op, ast.NotEq) else kt, kt if isinstance(op, ast.NotEq) else ke)
        if isinstance(op, (ast.In, ast.NotIn)):
            if isinstance(l, ast.Constant) and isinstance(l.value, str) and len(l.value) == 1:
                x = expr(r, st, cx)
                if x.ty == 'text':
                    c = '(memN %d%%N %s)' % (ord(l.value), x.code)
                    return atom(c, st, ke if isinstance(op, ast.NotIn) else kt, kt if isinstance(op, ast.NotIn) else ke)
            raise Problem('membership test %s' % u(n))
        raise Problem('comparison %s' % u(n))
    x = expr(n, st, cx)
    if x.ty == 'static-true':
        return kt(st)
    if x.ty == 'bool':
        return atom(x.code, st, kt, ke)
    if x.ty == 'text':
        return atom('(truthy %s)' % x.code, st, kt, ke)
    if x.ty == 'pairs':
        return atom('(negb (is_nil %s))' % x.code, st, kt, ke)
    if x.ty == 'none':
        return ke(st)
    raise Problem('truth value of a %s (%s)' % (x.ty, u(n)))


# ------------------------------------------------------------------------------------------ statements
def assigned_names(stmts):
    out = []
    for s in stmts:
        for n in ast.walk(s):
            if isinstance(n, (ast.Assign, ast.AugAssign)):
                for t in (n.targets if isinstance(n, ast.Assign) else [n.target]):
                    b = t
                    while isinstance(b, ast.Subscript):
                        b = b.value
                    if isinstance(b, ast.Name) and b.id not in out:
                        out.append(b.id)
                    if isinstance(b, ast.Attribute) and is_self(b.value):
                        out.append('self.' + b.attr)
            if isinstance(n, ast.Delete):
                out.append('self.<del>')
    return out


def set_attr(st, attr, value_node, cx):
    if attr in ('message', 'body_template', 'app_iter', 'result'):
        expr(value_node, st, cx)       # must still be in the table
        return
    v = expr(value_node, st, cx)
    if attr == 'content_type' and v.ty == 'text':
        # WebOb's content_type setter: the value (a literal without parameters), plus the default charset for
        # "texty" types; every earlier Content-Type parameter is dropped
        if not (isinstance(value_node, ast.Constant) and isinstance(value_node.value, str) and value_node.value
                and ';' not in value_node.value and 'charset=' not in value_node.value):
            raise Problem('self.content_type = %s: only a literal type without parameters is in the table' % u(value_node))
        st.fields['ob_ctype'] = v.code
        st.fields['ob_charset'] = '(default_charset %s)' % v.code
    elif attr == '_json_formatter' and v.ty == 'fmt':
        st.fields['ob_formatter'] = '(Some %s)' % v.code
    elif attr == 'charset' and v.ty == 'none':
        st.fields['ob_charset'] = '(@nil N)'
    elif attr == 'body' and v.ty == 'bytes':
        st.fields['ob_body'] = v.code
    elif attr == 'detail' and v.ty == 'otext':
        st.fields['ob_detail'] = v.code
    elif attr == 'comment' and v.ty == 'otext':
        st.fields['ob_comment'] = v.code
    elif attr == 'body_template_obj' and v.ty == 'tmpl' and v.custom:
        st.fields['ob_tmpl'] = v.code
        st.fields['ob_tmpl_custom'] = 'true'
    else:
        raise Problem('assignment self.%s = <%s> is not in the table' % (attr, v.ty))


def block(stmts, st, cx, kont):
    if not stmts:
        return kont(st)
    s, rest = stmts[0], stmts[1:]
    nxt = lambda s2: block(rest, s2, cx, kont)       # noqa: E731
    if isinstance(s, ast.Pass) or (isinstance(s, ast.Expr) and isinstance(s.value, ast.Constant)):
        return nxt(st)
    if isinstance(s, ast.ClassDef):
        if ast.dump(s) != JSON_CLASS_DUMP:
            raise Problem('nested class %s does not have the JsonPageTemplate shape' % s.name)
        st = st.copy()
        st.vars[s.name] = T('', 'jsonclass')
        return nxt(st)
    if isinstance(s, ast.Assign):
        st = st.copy()
        if len(s.targets) == 1 and isinstance(s.targets[0], ast.Name):
            v = expr(s.value, st, cx)
            name = s.targets[0].id
            if st.loop and name in st.loop[3]:
                raise Problem('loop variable %s reassigned' % name)
            if v.ty.startswith('res '):
                b = '%s%d' % (''.join(c for c in name if c.isalnum()) or 'v', cx.fresh())
                st.vars[name] = T(b, v.ty[4:])
                return '(rbind %s (fun %s => %s))' % (v.code, b, nxt(st))
            st.vars[name] = v
            return nxt(st)
        for t in s.targets:
            if isinstance(t, ast.Attribute) and is_self(t.value):
                if st.loop:
                    raise Problem('assignment to self inside a loop')
                set_attr(st, t.attr, s.value, cx)
            elif isinstance(t, ast.Subscript) and isinstance(t.value, ast.Name) and st.vars.get(t.value.id) \
                    and st.vars[t.value.id].ty == 'env':
                k, v = expr(t.slice, st, cx), expr(s.value, st, cx)
                if k.ty != 'text' or v.ty != 'text':
                    raise Problem('dict assignment with key/value of types %s, %s' % (k.ty, v.ty))
                st.vars[t.value.id] = T('(aset %s %s %s)' % (k.code, v.code, st.vars[t.value.id].code), 'env')
            elif isinstance(t, ast.Name):
                st.vars[t.id] = expr(s.value, st, cx)
            else:
                raise Problem('assignment target %s' % u(t))
        return nxt(st)
    if isinstance(s, ast.Delete):
        st = st.copy()
        for t in s.targets:
            if isinstance(t, ast.Attribute) and is_self(t.value) and t.attr == 'content_type' and not st.loop:
                st.fields['ob_ctype'] = '(@nil N)'
                st.fields['ob_charset'] = '(@nil N)'
            elif isinstance(t, ast.Attribute) and is_self(t.value) and t.attr == 'content_length':
                pass
            else:
                raise Problem('del %s' % u(t))
        return nxt(st)
    if isinstance(s, ast.If):
        return cond(s.test, st, cx,
                    lambda s1: block(list(s.body), s1, cx, nxt),
                    lambda s2: block(list(s.orelse), s2, cx, nxt))
    if isinstance(s, ast.For):
        if s.orelse or st.loop:
            raise Problem('for-else / nested loop')
        if not (isinstance(s.target, ast.Tuple) and len(s.target.elts) == 2
                and all(isinstance(e, ast.Name) for e in s.target.elts)):
            raise Problem('loop target %s' % u(s.target))
        it = expr(s.iter, st, cx)
        if it.ty != 'pairs':
            raise Problem('loop over a %s' % it.ty)
        names = assigned_names(list(s.body))
        if any(x.startswith('self.') for x in names):
            raise Problem('assignment to self inside a loop')
        kn, vn = s.target.elts[0].id, s.target.elts[1].id
        carried = [x for x in names if x in st.vars and x not in (kn, vn)]
        for x in carried:
            if st.vars[x].ty != 'env':
                raise Problem('loop-carried variable %s of type %s' % (x, st.vars[x].ty))
        local = [x for x in names if x not in carried]
        if local:
            raise Problem('variables %s are assigned inside the loop only' % local)
        i = cx.fresh()
        f, l, t, k, v = 'loop%d' % i, 'l%d' % i, 't%d' % i, 'k%d' % i, 'v%d' % i
        cs = ['c%d_%d' % (i, j) for j in range(len(carried))]
        outer = st.copy()
        for x, c in zip(carried, cs):
            outer.vars[x] = T(c, 'env')
        outer.known = {}
        nil = nxt(outer)
        body_st = outer.copy()
        body_st.vars[kn], body_st.vars[vn] = T(k, 'text'), T(v, 'text')
        body_st.loop = (f, t, carried, (kn, vn))
        rec = lambda s2: '(%s %s%s)' % (f, t, ''.join(' ' + s2.vars[x].code for x in carried))     # noqa: E731
        cons = block(list(s.body), body_st, cx, rec)
        params = ''.join(' (%s : list (text * text))' % c for c in cs)
        return ('((fix %s (%s : list (text * text))%s {struct %s} : %s := match %s with [] => %s | (%s, %s) :: %s => %s end) %s%s)'
                % (f, l, params, l, cx.ret, l, nil, k, v, t, cons, it.code,
                   ''.join(' ' + st.vars[x].code for x in carried)))
    if isinstance(s, ast.Continue):
        if not st.loop:
            raise Problem('continue outside a loop')
        f, t, carried, _ = st.loop
        return '(%s %s%s)' % (f, t, ''.join(' ' + st.vars[x].code for x in carried))
    if isinstance(s, ast.Expr) and isinstance(s.value, ast.Call):
        c = s.value
        d = ast.dump(c.func)
        if d == "Attribute(value=Name(id='Exception', ctx=Load()), attr='__init__', ctx=Load())" and c.args and is_self(c.args[0]):
            for a in c.args[1:]:
                expr(a, st, cx)
            return nxt(st)
        if d == "Attribute(value=Name(id='Response', ctx=Load()), attr='__init__', ctx=Load())":
            if st.loop or not (len(c.args) == 1 and is_self(c.args[0]) and len(c.keywords) == 2
                               and c.keywords[0].arg == 'status' and c.keywords[1].arg is None):
                raise Problem('Response.__init__ call %s' % u(c))
            sv, kw = expr(c.keywords[0].value, st, cx), expr(c.keywords[1].value, st, cx)
            if sv.ty != 'text' or kw.ty != 'kw':
                raise Problem('Response.__init__ arguments of types %s, %s' % (sv.ty, kw.ty))
            st = st.copy()
            st.fields.update(ob_status=sv.code, ob_ctype='(kw_ctype %s)' % kw.code, ob_charset='(kw_charset %s)' % kw.code,
                             ob_headers='(kw_headers %s)' % kw.code, ob_body='(@nil N)')
            return nxt(st)
        if d == "Attribute(value=Attribute(value=Name(id='self', ctx=Load()), attr='headers', ctx=Load()), attr='extend', ctx=Load())" \
                and len(c.args) == 1 and not c.keywords and not st.loop:
            h = expr(c.args[0], st, cx)
            if h.ty != 'pairs':
                raise Problem('headers.extend of a %s' % h.ty)
            st = st.copy()
            st.fields['ob_headers'] = '(%s ++ %s)' % (st.field('ob_headers'), h.code)
            return nxt(st)
        if d == "Attribute(value=Name(id='self', ctx=Load()), attr='prepare', ctx=Load())" and 'prepare' in cx.helpers \
                and len(c.args) == 1 and not c.keywords and not st.loop:
            e = expr(c.args[0], st, cx)
            if e.ty != 'pairs':
                raise Problem('prepare(<%s>)' % e.ty)
            b = 'self%d' % cx.fresh()
            s2 = St(st.vars, b)
            return '(rbind (gen_prepare neg %s %s) (fun %s => %s))' % (st.obj(), e.code, b, nxt(s2))
        via_super = d == "Attribute(value=Call(func=Name(id='super', ctx=Load()), args=[], keywords=[]), attr='__init__', ctx=Load())"
        via_name = (isinstance(c.func, ast.Attribute) and c.func.attr == '__init__' and isinstance(c.func.value, ast.Name)
                    and c.func.value.id in cx.helpers.get('base_init_classes', ()) and c.args and is_self(c.args[0]))
        if (via_super or via_name) and 'init_params' in cx.helpers and not st.loop:
            # the constructor of the base class: resolves (checked in translate()) to HTTPException.__init__;
            # positional arguments bind to its parameters in order, keywords by name
            params = cx.helpers['init_params']
            given, extra, star = {}, [], None
            pos = list(c.args[1:]) if via_name else list(c.args)
            if via_super and not cx.helpers.get('super_ok'):
                raise Problem('super().__init__ in a class whose base constructor was not resolved')
            order_all = cx.helpers['init_order'] + ['json_formatter']
            if len(pos) > len(order_all) or any(isinstance(a, ast.Starred) for a in pos):
                raise Problem('base constructor call: positional arguments %s' % u(c))
            for name, a in zip(order_all, pos):
                if name == 'json_formatter':
                    raise Problem('base constructor call passes json_formatter positionally')
                given[name] = expr(a, st, cx)
            for k in c.keywords:
                if k.arg is not None and k.arg in given:
                    raise Problem('base constructor call: %s given twice' % k.arg)
                if k.arg is None:
                    star = expr(k.value, st, cx)
                elif k.arg in params:
                    given[k.arg] = expr(k.value, st, cx)
                else:
                    v = expr(k.value, st, cx)
                    if v.ty != 'text':
                        raise Problem('extra keyword %s of type %s' % (k.arg, v.ty))
                    extra.append('(%s, %s)' % (lit(k.arg), v.code))
            if 'json_formatter' in [k.arg for k in c.keywords]:
                raise Problem('super().__init__ passes json_formatter explicitly (the table takes it from **kw)')
            for p_, ty_ in params.items():
                if p_ not in given:           # parameter left to its default (None)
                    given[p_] = T('None' if ty_ == 'otext' else '(@nil (text * text))', 'none' if ty_ == 'otext' else 'pairs')
            if star is None or star.ty != 'kw':
                raise Problem('base constructor call does not pass **kw')
            for p, ty in params.items():
                if given[p].ty == 'none' and ty == 'otext':
                    given[p] = T('(@None text)', 'otext')
                if given[p].ty != ty:
                    raise Problem('base constructor call: %s has type %s, expected %s' % (p, given[p].ty, ty))
            kwc = star.code
            for e in reversed(extra):
                kwc = '(%s :: %s)' % (e, kwc)
            order = cx.helpers['init_order']
            # a json_formatter= keyword of the caller travels inside **kw and binds to HTTPException.__init__'s parameter
            s2 = St(st.vars, '(gen_init %s %s %s %s)' % (st.obj(), ' '.join(given[p].code for p in order),
                                                       st.vars['**kw.json_formatter'].code, kwc))
            return nxt(s2)
        raise Problem('statement %s' % u(s))
    if isinstance(s, ast.Return):
        if st.loop:
            raise Problem('return inside a loop')
        if s.value is not None and cx.helpers.get('call_return') and ast.dump(s.value) == cx.helpers['call_return']:
            o = st.obj()
            return '(Ok (respond %s, %s))' % (o, o)
        raise Problem('return %s' % (u(s.value) if s.value is not None else ''))
    if isinstance(s, ast.Raise):
        raise Problem('raise on a path that is not statically dead: %s' % u(s))
    raise Problem('statement %s is outside the subset' % type(s).__name__)


def text_function(stmts, st, cx):
    """body of a text-valued function of texts: assignments, if / elif / else (decision tree; statically known tests
    resolved, so dead branches are never looked at), return <text>"""
    if not stmts:
        raise Problem('text function: a path ends without return')
    s, rest = stmts[0], stmts[1:]
    if isinstance(s, ast.Pass) or (isinstance(s, ast.Expr) and isinstance(s.value, ast.Constant)):
        return text_function(rest, st, cx)
    if isinstance(s, ast.Return):
        if s.value is None:
            raise Problem('text function: bare return')
        v = expr(s.value, st, cx)
        if v.ty != 'text':
            raise Problem('text function returns a %s' % v.ty)
        return v.code
    if isinstance(s, ast.Assign) and len(s.targets) == 1 and isinstance(s.targets[0], ast.Name):
        st = st.copy()
        st.vars[s.targets[0].id] = expr(s.value, st, cx)
        return text_function(rest, st, cx)
    if isinstance(s, ast.If):
        return cond(s.test, st, cx, lambda s1: text_function(list(s.body) + rest, s1, cx),
                    lambda s2: text_function(list(s.orelse) + rest, s2, cx))
    raise Problem('text function: statement %s' % type(s).__name__)


# ------------------------------------------------------------------------------------------ functions
def params_of(fn):
    a = fn.args
    if a.posonlyargs or a.kwonlyargs or a.vararg:
        raise Problem('%s: unsupported parameter kinds' % fn.name)
    return [x.arg for x in a.args], (a.kwarg.arg if a.kwarg else None), a.defaults


def find(tree, cls, name):
    for c in tree.body:
        if isinstance(c, ast.ClassDef) and c.name == cls:
            for f in c.body:
                if isinstance(f, ast.FunctionDef) and f.name == name:
                    if f.decorator_list:
                        raise Problem('%s.%s is decorated' % (cls, name))
                    return f
    raise Problem('%s.%s not found' % (cls, name))


def single_base(tree, name):
    cs = [c for c in tree.body if isinstance(c, ast.ClassDef) and c.name == name]
    if len(cs) != 1 or len(cs[0].bases) != 1 or not isinstance(cs[0].bases[0], ast.Name) or cs[0].keywords:
        raise Problem('class %s: not a single-base class statement' % name)
    return cs[0].bases[0].id


def inherits_base_init(tree, name):
    """the classes from `name` up to (excluding) HTTPException when none of them defines __init__ (so that
    <any of them>.__init__ / super().__init__ of a direct subclass IS HTTPException.__init__); else Problem"""
    chain = []
    while name != 'HTTPException':
        if len(chain) > 10:
            raise Problem('base class chain too long')
        cs = [c for c in tree.body if isinstance(c, ast.ClassDef) and c.name == name]
        if len(cs) != 1:
            raise Problem('class %s is not defined exactly once' % name)
        if any(isinstance(f, ast.FunctionDef) and f.name in ('__init__', '__new__') for f in cs[0].body):
            raise Problem('class %s defines its own constructor: the base constructor call is not HTTPException.__init__' % name)
        chain.append(name)
        name = single_base(tree, name)
    return chain + ['HTTPException']


def check_bindings(tree):
    esc = {}
    for st in tree.body:
        if isinstance(st, ast.ImportFrom) and st.module == 'webob' and st.level == 0:
            for a in st.names:
                if a.name == 'html_escape':
                    esc[a.asname or a.name] = 'html_escape'
        if isinstance(st, ast.FunctionDef) and st.name == '_no_escape':
            esc['_no_escape'] = 'gen_no_escape'          # translated below (text_function)
    if sorted(esc.values()) != ['gen_no_escape', 'html_escape']:
        raise Problem('escape functions are not bound as the table expects: %r' % esc)
    bound = {}
    for st in tree.body:
        for n in ([st] if isinstance(st, (ast.Assign, ast.FunctionDef, ast.ClassDef, ast.Import, ast.ImportFrom)) else []):
            names = []
            if isinstance(n, ast.Assign):
                names = [t.id for t in n.targets if isinstance(t, ast.Name)]
            elif isinstance(n, (ast.FunctionDef, ast.ClassDef)):
                names = [n.name]
            else:
                names = [(a.asname or a.name).split('.')[0] for a in n.names]
            for x in names:
                bound.setdefault(x, []).append(n)
    want = {'json': "Import(names=[alias(name='json')])",
            'Template': "ImportFrom(module='string', names=[alias(name='Template')], level=0)",
            'create_accept_header': "ImportFrom(module='webob.acceptparse', names=[alias(name='create_accept_header')], level=0)",
            'Response': "ImportFrom(module='pyramid.response', names=[alias(name='Response')], level=0)"}
    for x, d in want.items():
        if [ast.dump(n) for n in bound.get(x, [])] != [d]:
            raise Problem('module-level binding of %s is not the one the table relies on' % x)
    for x in list(esc) + ['HTTPException']:
        if len(bound.get(x, [])) != 1:
            raise Problem('%s is bound %d times at module level' % (x, len(bound.get(x, []))))
    return esc


def translate(tree):
    """-> (coq text of the four definitions, meta)"""
    esc = check_bindings(tree)
    meta = {}
    exc = [c for c in tree.body if isinstance(c, ast.ClassDef) and c.name == 'HTTPException']
    if len(exc) != 1 or [ast.dump(b) for b in exc[0].bases] != ["Name(id='Response', ctx=Load())", "Name(id='Exception', ctx=Load())"]:
        raise Problem('class HTTPException(Response, Exception) not found')
    members = [f.name for f in exc[0].body if isinstance(f, ast.FunctionDef)]
    if sorted(members) != ['__call__', '__init__', '__str__', '_json_formatter', 'prepare', 'wsgi_response']:
        raise Problem('HTTPException has other methods than expected: %r' % members)
    helpers = {'escapes': esc}

    # ---- _json_formatter(self, status, body, title, environ): return {...}
    jf = find(tree, 'HTTPException', '_json_formatter')
    ps, kw, _ = params_of(jf)
    body = [s for s in jf.body if not (isinstance(s, ast.Expr) and isinstance(s.value, ast.Constant))]
    if ps != ['self', 'status', 'body', 'title', 'environ'] or kw or len(body) != 1 or not isinstance(body[0], ast.Return):
        raise Problem('_json_formatter: signature / body shape')

    def json_formatter(status, bodyv, st):
        cx0 = Ctx('text', None, meta, helpers)
        s0 = St({'status': status, 'body': bodyv, 'title': T(st.field('ob_title'), 'text')}, st.selfbase, st.fields)
        d = expr(body[0].value, s0, cx0)
        if d.ty != 'env':
            raise Problem('_json_formatter returns a %s' % d.ty)
        # self.excobj._json_formatter: the instance attribute set by __init__(json_formatter=) shadows the method
        if 'environ' not in st.vars or st.vars['environ'].ty != 'pairs':
            raise Problem('JsonPageTemplate: environ is not the environ of prepare')
        return ('(match %s with Some f => (rmap json_object (apply_fmt f %s %s %s %s (@nil (text * text)))) '
                '| None => (Ok (json_object %s)) end)'
                % (st.field('ob_formatter'), status.code, bodyv.code, st.field('ob_title'), st.vars['environ'].code, d.code))
    helpers['json_formatter'] = json_formatter

    out = []
    # ---- _no_escape(value): a str -> str function; on a text the None / non-str / bytes branches are statically dead
    ne = [f for f in tree.body if isinstance(f, ast.FunctionDef) and f.name == '_no_escape']
    if len(ne) != 1 or ne[0].decorator_list:
        raise Problem('_no_escape not found / decorated')
    ps, kw, defaults = params_of(ne[0])
    if ps != ['value'] or kw or defaults:
        raise Problem('_no_escape signature')
    cx = Ctx('text', None, meta, {'escapes': {}})
    out.append('Definition gen_no_escape (value : text) : text :=\n  %s.\n'
               % text_function(list(ne[0].body), St({'value': T('value', 'text')}, 'self'), cx))
    # ---- HTTPException.__init__
    fi = find(tree, 'HTTPException', '__init__')
    ps, kw, defaults = params_of(fi)
    if ps != ['self', 'detail', 'headers', 'comment', 'body_template', 'json_formatter'] or kw != 'kw' \
            or [ast.dump(d) for d in defaults] != ['Constant(value=None)'] * 5:
        raise Problem('HTTPException.__init__ signature')
    st = St({'detail': T('detail', 'otext'), 'headers': T('headers', 'pairs'), 'comment': T('comment', 'otext'),
             'body_template': T('body_template', 'otext'), 'json_formatter': T('json_formatter', 'ofmt'),
             'kw': T('kw', 'kw')}, 'self')
    cx = Ctx('obj', None, meta, helpers)
    code = block(list(fi.body), st, cx, lambda s: s.obj())
    out.append('Definition gen_init (self : obj) (detail : option text) (headers : list (text * text)) '
               '(comment body_template : option text) (json_formatter : option fmt) (kw : list (text * text)) : obj :=\n  %s.\n' % code)
    helpers['init_params'] = {'detail': 'otext', 'headers': 'pairs', 'comment': 'otext', 'body_template': 'otext'}
    helpers['init_order'] = ['detail', 'headers', 'comment', 'body_template']

    # ---- _HTTPMove.__init__
    fm = find(tree, '_HTTPMove', '__init__')
    ps, kw, defaults = params_of(fm)
    if ps != ['self', 'location', 'detail', 'headers', 'comment', 'body_template'] or kw != 'kw' \
            or [ast.dump(d) for d in defaults] != ["Constant(value='')"] + ['Constant(value=None)'] * 4:
        raise Problem('_HTTPMove.__init__ signature')
    helpers['super_ok'] = bool(inherits_base_init(tree, single_base(tree, '_HTTPMove')))
    st = St({'location': T('location', 'text'), 'detail': T('detail', 'otext'), 'headers': T('headers', 'pairs'),
             'comment': T('comment', 'otext'), 'body_template': T('body_template', 'otext'), 'kw': T('kw', 'kw'),
             '**kw.json_formatter': T('kw_json_formatter', 'ofmt')}, 'self')
    cx = Ctx('obj', None, meta, helpers)
    code = block(list(fm.body), st, cx, lambda s: s.obj())
    out.append('Definition gen_move_init (self : obj) (location : text) (detail : option text) '
               '(headers : list (text * text)) (comment body_template : option text) '
               '(kw_json_formatter : option fmt) (kw : list (text * text)) : obj :=\n  %s.\n' % code)
    # ---- HTTPForbidden.__init__
    ff = find(tree, 'HTTPForbidden', '__init__')
    ps, kw, defaults = params_of(ff)
    if ps != ['self', 'detail', 'headers', 'comment', 'body_template', 'result'] or kw != 'kw' \
            or [ast.dump(d) for d in defaults] != ['Constant(value=None)'] * 5:
        raise Problem('HTTPForbidden.__init__ signature')
    helpers['super_ok'] = bool(inherits_base_init(tree, single_base(tree, 'HTTPForbidden')))
    helpers['base_init_classes'] = inherits_base_init(tree, single_base(tree, 'HTTPForbidden'))
    st = St({'detail': T('detail', 'otext'), 'headers': T('headers', 'pairs'), 'comment': T('comment', 'otext'),
             'body_template': T('body_template', 'otext'), 'result': T('', 'erased'), 'kw': T('kw', 'kw'),
             '**kw.json_formatter': T('kw_json_formatter', 'ofmt')}, 'self')
    cx = Ctx('obj', None, meta, helpers)
    code = block(list(ff.body), st, cx, lambda s: s.obj())
    out.append('Definition gen_forbidden_init (self : obj) (detail : option text) (headers : list (text * text)) '
               '(comment body_template : option text) (kw_json_formatter : option fmt) (kw : list (text * text)) : obj :=\n  %s.\n' % code)
    del helpers['init_params']
    del helpers['base_init_classes']
    helpers['super_ok'] = False

    # ---- prepare
    fp = find(tree, 'HTTPException', 'prepare')
    ps, kw, defaults = params_of(fp)
    if ps != ['self', 'environ'] or kw or defaults:
        raise Problem('prepare signature')
    st = St({'environ': T('environ', 'pairs')}, 'self')
    cx = Ctx('res obj', None, meta, helpers)
    code = block(list(fp.body), st, cx, lambda s: '(Ok %s)' % s.obj())
    out.append('Definition gen_prepare (neg : text -> list text -> list text) (self : obj) '
               '(environ : list (text * text)) : res obj :=\n  %s.\n' % code)
    if 'offers' not in meta:
        raise Problem('prepare does not negotiate')

    # ---- __call__
    fc = find(tree, 'HTTPException', '__call__')
    ps, kw, defaults = params_of(fc)
    if ps != ['self', 'environ', 'start_response'] or kw or defaults:
        raise Problem('__call__ signature')
    helpers['prepare'] = True
    helpers['call_return'] = ("Call(func=Attribute(value=Name(id='Response', ctx=Load()), attr='__call__', ctx=Load()), "
                              "args=[Name(id='self', ctx=Load()), Name(id='environ', ctx=Load()), "
                              "Name(id='start_response', ctx=Load())], keywords=[])")
    st = St({'environ': T('environ', 'pairs')}, 'self')
    cx = Ctx('res (output * obj)', None, meta, helpers)
    code = block(list(fc.body), st, cx, lambda s: (_ for _ in ()).throw(Problem('__call__ does not return')))
    out.append('Definition gen_call (neg : text -> list text -> list text) (self : obj) '
               '(environ : list (text * text)) : res (output * obj) :=\n  %s.\n' % code)
    return ''.join(out), meta


def generate(src_root, problems):
    """-> (coq text, meta); on a Problem the stored fallback is returned and the problem recorded"""
    try:
        with open(os.path.join(src_root, 'pyramid/httpexceptions.py')) as f:
            tree = ast.parse(f.read())
        return translate(tree)
    except (Problem, OSError, SyntaxError, KeyError, IndexError, AttributeError, TypeError, ValueError) as e:
        problems.append('translator: %s: %s' % (type(e).__name__, e))
        with open(FALLBACK) as f:
            j = json.load(f)
        return j['coq'], j['meta']


# ================================================================================================ raise sites
# The ARGUMENT EXPRESSIONS of the places outside httpexceptions.py that build an HTTP exception from request text are
# regenerated as well (their control flow stays shape-pinned): gen_site_<name> (request : req) : raised.
#   request.<attr>      (r_<attr> request)   for url, path, path_info, path_url, query_string (WebOb properties: oracle)
#   'lit', a + b, 'pre%ssuf' % x, names bound by the straight-line assignments that precede the call in its own block
#   and in the enclosing blocks;  `if n: n = e` (one statement, no else) -> (if truthy n then e else n);
#   `if self.debug_notfound: .. else: B` -> B (debug settings are off in every generated application);
#   any other compound statement before the call that assigns a name the call uses: Problem
#   callee: an exception class of the class table (its name is the class), or self.redirect_class (the default of the
#   redirect_class parameter of __init__); arguments bind to detail / location / body_template by position or keyword
#   (other parameters given: Problem).
SITES = [('router', 'pyramid/router.py', 'Router.handle_request'),
         ('static_missing', 'pyramid/static.py', 'static_view.__call__'),
         ('static_oob', 'pyramid/static.py', 'static_view.get_resource_name'),
         ('static_slash', 'pyramid/static.py', 'static_view.add_slash_redirect'),
         ('append_slash', 'pyramid/view.py', 'AppendSlashNotFoundViewFactory.__call__')]
REQ_ATTRS = ('url', 'path', 'path_info', 'path_url', 'query_string')


def _site_expr(n, env):
    if isinstance(n, ast.Constant) and isinstance(n.value, str):
        return lit(n.value)
    if isinstance(n, ast.Name):
        if env.get(n.id) is None:
            raise Problem('site: name %s is not a modelled text here' % n.id)
        return env[n.id]
    if isinstance(n, ast.Attribute) and isinstance(n.value, ast.Name) and n.value.id == 'request' and n.attr in REQ_ATTRS:
        return '(r_%s request)' % n.attr
    if isinstance(n, ast.BinOp) and isinstance(n.op, ast.Add):
        return '(%s ++ %s)' % (_site_expr(n.left, env), _site_expr(n.right, env))
    if isinstance(n, ast.BinOp) and isinstance(n.op, ast.Mod) and isinstance(n.left, ast.Constant) \
            and isinstance(n.left.value, str) and n.left.value.count('%s') == 1 and '%' not in n.left.value.replace('%s', ''):
        pre, suf = n.left.value.split('%s')
        return '(%s ++ %s ++ %s)' % (lit(pre), _site_expr(n.right, env), lit(suf))
    raise Problem('site: expression %s is outside the table' % u(n))


def _contains(node, target):
    return any(x is target for x in ast.walk(node))


def _site_block(stmts, target, env):
    """walks to the statement containing `target`, updating env with the straight-line assignments before it"""
    for s in stmts:
        if _contains(s, target):
            if isinstance(s, ast.If):
                if ast.dump(s.test) == "Attribute(value=Name(id='self', ctx=Load()), attr='debug_notfound', ctx=Load())":
                    raise Problem('site: the call sits under debug_notfound')
                branch = s.body if any(_contains(x, target) for x in s.body) else s.orelse
                return _site_block(branch, target, env)
            if isinstance(s, (ast.For, ast.While, ast.With, ast.Try)):
                body = list(s.body)
                if any(_contains(x, target) for x in body):
                    return _site_block(body, target, env)
                raise Problem('site: call in an else/handler clause of %s' % type(s).__name__)
            return env
        # a statement before the call
        if isinstance(s, ast.Assign) and len(s.targets) == 1 and isinstance(s.targets[0], ast.Name):
            try:
                env[s.targets[0].id] = _site_expr(s.value, env)
            except Problem:
                env[s.targets[0].id] = None
            continue
        if isinstance(s, ast.If) and ast.dump(s.test) == "Attribute(value=Name(id='self', ctx=Load()), attr='debug_notfound', ctx=Load())":
            _site_block(list(s.orelse) + [ast.Expr(value=target)], target, env)
            continue
        if isinstance(s, ast.If) and not s.orelse and len(s.body) == 1 and isinstance(s.test, ast.Name) \
                and isinstance(s.body[0], ast.Assign) and len(s.body[0].targets) == 1 \
                and isinstance(s.body[0].targets[0], ast.Name):
            t, name = s.test.id, s.body[0].targets[0].id
            try:
                if env.get(t) is None or env.get(name) is None:
                    raise Problem('unknown')
                env[name] = '(if (truthy %s) then %s else %s)' % (env[t], _site_expr(s.body[0].value, env), env[name])
            except Problem:
                env[name] = None
            continue
        for nm in assigned_names([s]):
            env[nm] = None
    raise Problem('site: call not found in block')


def translate_sites(src_root, class_names, move_names):
    out, meta = [], {}
    for name, rel, qual in SITES:
        with open(os.path.join(src_root, rel)) as f:
            tree = ast.parse(f.read())
        node = tree
        for part in qual.split('.'):
            cands = [c for c in (node.body if hasattr(node, 'body') else []) if isinstance(c, (ast.FunctionDef, ast.ClassDef)) and c.name == part]
            if len(cands) != 1:
                raise Problem('site %s: %s:%s not found' % (name, rel, qual))
            node = cands[0]
        calls = [c for c in ast.walk(node) if isinstance(c, ast.Call) and (
            (isinstance(c.func, ast.Name) and c.func.id in class_names)
            or (isinstance(c.func, ast.Attribute) and c.func.attr == 'redirect_class'))]
        if len(calls) != 1:
            raise Problem('site %s: %d exception constructor calls in %s' % (name, len(calls), qual))
        call = calls[0]
        if name in STRICT_SITES:
            # no pin on this function: every statement must be one the site translator follows
            body = [x for x in node.body if not (isinstance(x, ast.Expr) and isinstance(x.value, ast.Constant))]
            for x in body[:-1]:
                ok = (isinstance(x, ast.Assign) and len(x.targets) == 1 and isinstance(x.targets[0], ast.Name)) or \
                     (isinstance(x, ast.If) and not x.orelse and len(x.body) == 1 and isinstance(x.test, ast.Name)
                      and isinstance(x.body[0], ast.Assign) and len(x.body[0].targets) == 1
                      and isinstance(x.body[0].targets[0], ast.Name))
                if not ok:
                    raise Problem('site %s: statement %s is outside the subset' % (name, u(x)))
            if not body or not isinstance(body[-1], ast.Return) or body[-1].value is not call:
                raise Problem('site %s: the function does not end in `return <constructor call>`' % name)
            if [a.arg for a in node.args.args] != ['self', 'request'] or node.args.vararg or node.args.kwarg \
                    or node.args.kwonlyargs or node.decorator_list:
                raise Problem('site %s: signature' % name)
        env = _site_block(list(node.body), call, {})
        if isinstance(call.func, ast.Name):
            cls = call.func.id
        else:
            if ast.dump(call.func.value) != "Name(id='self', ctx=Load())":
                raise Problem('site %s: redirect_class of something else than self' % name)
            owner = [c for c in tree.body if isinstance(c, ast.ClassDef) and c.name == qual.split('.')[0]][0]
            init = [f for f in owner.body if isinstance(f, ast.FunctionDef) and f.name == '__init__']
            if len(init) != 1:
                raise Problem('site %s: __init__ of %s' % (name, owner.name))
            a = init[0].args
            names = [x.arg for x in a.args]
            if 'redirect_class' not in names:
                raise Problem('site %s: no redirect_class parameter' % name)
            d = a.defaults[len(a.defaults) - (len(names) - names.index('redirect_class'))]
            sets = [s for s in init[0].body if isinstance(s, ast.Assign) and ast.dump(s.targets[0]) ==
                    "Attribute(value=Name(id='self', ctx=Load()), attr='redirect_class', ctx=Store())"]
            if not isinstance(d, ast.Name) or len(sets) != 1 or ast.dump(sets[0].value) != "Name(id='redirect_class', ctx=Load())":
                raise Problem('site %s: redirect_class plumbing of __init__' % name)
            cls = d.id
        if cls not in class_names:
            raise Problem('site %s: class %s is not in the class table' % (name, cls))
        order = (['location'] if cls in move_names else []) + ['detail', 'headers', 'comment', 'body_template']
        got = {}
        if any(isinstance(x, ast.Starred) for x in call.args) or len(call.args) > len(order):
            raise Problem('site %s: positional arguments' % name)
        for p, x in zip(order, call.args):
            got[p] = x
        for k in call.keywords:
            if k.arg is None or k.arg in got or k.arg not in order:
                raise Problem('site %s: keyword %s' % (name, k.arg))
            got[k.arg] = k.value
        for p_ in ('detail', 'headers', 'comment', 'body_template'):      # an explicit None is the default
            if p_ in got and isinstance(got[p_], ast.Constant) and got[p_].value is None:
                del got[p_]
        bad = [p for p in got if p not in ('detail', 'location', 'body_template')]
        if bad:
            raise Problem('site %s: arguments %s are not modelled' % (name, bad))
        f_ = lambda p: ('(Some %s)' % _site_expr(got[p], env)) if p in got else 'None'      # noqa: E731
        loc = _site_expr(got['location'], env) if 'location' in got else '(@nil N)'
        out.append('Definition gen_site_%s (request : req) : raised :=\n  mkRaised %s %s %s %s.\n'
                   % (name, lit(cls), f_('detail'), loc, f_('body_template')))
        meta[name] = cls
    return ''.join(out), meta


def generate_sites(src_root, class_names, move_names, problems):
    try:
        return translate_sites(src_root, class_names, move_names)
    except (Problem, OSError, SyntaxError, KeyError, IndexError, AttributeError, TypeError, ValueError) as e:
        problems.append('site translator: %s: %s' % (type(e).__name__, e))
        with open(FALLBACK) as f:
            j = json.load(f)
        return j['sites'], j['sites_meta']


if __name__ == '__main__':
    import sys
    probs = []
    with open(os.path.join(sys.argv[1], 'pyramid/httpexceptions.py')) as f:
        text, meta = translate(ast.parse(f.read()))
    if '--write-fallback' in sys.argv:
        from harness.c19 import factsx
        ct = factsx.class_table(ast.parse(open(os.path.join(sys.argv[1], 'pyramid/httpexceptions.py')).read()), [])
        st, sm = translate_sites(sys.argv[1], {e['name'] for e in ct}, {e['name'] for e in ct if e['move']})
        with open(FALLBACK, 'w') as f:
            json.dump({'coq': text, 'meta': meta, 'sites': st, 'sites_meta': sm}, f, indent=1)
    print(text)
    print(meta)
