"""C19 -- HTTP error responses never embed request-derived text unescaped."""
import json
import os

from harness.common import facts as F
from harness.common import build
from . import factsx
from . import apps

ID = 'C19'
HERE = os.path.dirname(os.path.abspath(__file__))
CASES = {'quick': 8000, 'thorough': 300000}
PARALLEL = True
RULE = ('every exception class of pyramid.httpexceptions x detail/comment/explanation/location/header/environ texts '
        '(HTML metacharacters, Template syntax such as ${detail} $$ ${br}, non-ASCII, astral, control characters, lone '
        'surrogates) x Accept headers (specific, wildcards, q-values, absent, empty, malformed, long valid headers of 170-1400 characters; negotiated by WebOb) x '
        'default / class / custom body templates, called as a WSGI application, plus Router.__call__ on unknown '
        'paths, plus the other raisers reached through a real Router (static view: not found / out of bounds / add-slash '
        'redirect with request URL and query string; PredicateMismatch of multiviews and predicated views; HTTPForbidden '
        'of secured views; second world: add_notfound_view(append_slash=True) redirect built from request.path + query '
        'string and its 404 fall-through, a view returning the response of a subrequest run through the tweens (the page '
        'must be negotiated against the OUTER request), BadCSRFOrigin echoing the Origin header, each optionally with a '
        'NewResponse subscriber or a response callback that re-labels the response before it is called), plus histories (one exception object called 2-3 times under different Accept headers / environs, '
        'incl. a failing first call), plus the constructor\'s other documented keywords: json_formatter= (formatters building '
        'their dict from body/status/title/constants/environ[K]/environ.get(K, D), succeeding or raising KeyError for the '
        'request at hand, also across the calls of a history), the factory exception_response(code, **kw) (class taken from '
        'status_map, incl. codes shared by several classes) and the Response keywords content_type= / charset= (equal to '
        'or different from the negotiated form), plus code-point sweeps through html_escape and json.dumps; non-trivial = a body was rendered and at '
        'least one supplied text contains a character that an escape function or the Template scanner treats '
        'specially; distinct by full case')
ASSUMPTIONS = [
    'json_formatter= callables are of the modelled family (dict built member by member from body / status / title / constant / environ[K] / environ.get(K, D); str values); content_type= is a media type without parameters, charset= a token or empty/None; other Response keywords (body=, app_iter=, headerlist=, json_body=, attribute keywords other than location=) are not generated',
    'detail, comment, explanation, location, header and environ values are str (objects with __html__ bypass escaping by WebOb design; bytes/other objects are stringified before escaping and are not generated)',
    'the result of WebOb Accept negotiation (acceptable_offers) is an oracle input of the model',
    'response header names passed as headers= are ASCII (str.lower() is modelled on ASCII); Content-Type and Content-Length can never be named by a Template identifier and are left out of the args map',
    'object state across calls is modelled (a successful prepare() stores body/content type/charset; later calls repeat it; a failed call leaves no trace): histories of 2-3 calls on one object are generated; only __call__ is driven, not direct mutation of body/content_type between calls',
    'request.path_info decoding (WebOb) is an oracle input for the Router path; only decodable paths are generated',
    'request.url / path / path_info / path_url / query_string (WebOb) are oracle inputs of the regenerated raise-site expressions (gen_site_*); debug_notfound / debug_authorization are off; Origin headers are printable ASCII that urlparse accepts with scheme https and a foreign host',
    'request.url / path_url / query_string (WebOb) are oracle inputs for the static-view cases; QUERY_STRING is ASCII (a non-UTF-8 query makes request.params of the predicate fail with UnicodeDecodeError before any exception is rendered)',
    'REQUEST_METHOD != HEAD (WebOb then sends an empty body); Location without CR/LF (WebOb rejects it)',
]
TRUSTED = [
    'primitive table of harness/c19/translate.py (docstring; ~40 entries: Python/WebOb/Pyramid leaf semantics -> coq/Model/C19_base.v) and the translator itself (fail-closed, its output is type-checked by Coq and exercised by the correspondence run)',
    'raise sites outside httpexceptions.py: argument expressions regenerated for router / static view (3 sites) / append-slash view (translate.SITES; control flow around them pinned, static_view.add_slash_redirect translated whole); predicate-mismatch, secured-view and CSRF-origin messages are built in Coq (msite_gen with the formats regenerated from the source, msite_ref with reference formats) from configuration data / the last Origin token supplied by the harness; the functions around them stay pinned; a fail-closed scan of the whole package lists every function that builds an HTTP exception and demands a pin or translation for it',
    'hand-written reference model coq/Model/C19.v (what the theorems are about); HTTPException.__str__, default_exceptionresponse_view and the other raisers stay shape-pinned; exception_response and the module-level loop filling status_map are tied by an exact-shape fact (factsx.status_map_fact; the excluded classes are read from the source) and modelled by status_class of coq/Model/C19.v, validated by the factory stream',
    'string.Template.substitute, webob.html_escape (html.escape + xmlcharrefreplace), json.dumps(ensure_ascii), str.encode("utf-8"): modelled, validated by correspondence (code-point sweeps), not verified',
    'WebOb Response: constructor keywords content_type= / charset= / location=, the content_type setter (value + default charset for text/*, text/html and XML types, earlier parameters dropped), charset = None, header list: modelled in coq/Model/C19_base.v (kw_ctype, kw_charset, default_charset, texty), validated by correspondence; Accept negotiation: oracle',
]
TECHNIQUE = ('Coq proof about a hand-written Gallina reference model; the control flow of _no_escape, HTTPException.__init__, '
             '_HTTPMove.__init__, HTTPForbidden.__init__, _json_formatter, prepare and __call__ is REGENERATED from the source on every run by a '
             'fail-closed ast -> Gallina translator (harness/c19/translate.py) and proved equal to the reference model, as are '
             'the argument expressions of the raise sites in router.py, static.py and view.py; '
             'extracted regenerated program vs implementation differential run')
LEVEL_TEXT = ('Machine-checked, for all texts, classes of the regenerated table, negotiation outcomes and call sequences: the '
              'program regenerated from the source (constructors, prepare, __call__, threaded through any sequence of calls on '
              'one object) equals the reference model; Template substitution is single pass (placeholders inside supplied text '
              'are never expanded; one-frame statements for detail, explanation, comment, location, header and environ values); '
              'html_escape output has no < > " \' and every & starts a reference; the markup of an HTML error page does not '
              'depend on supplied text; explicit shapes of the default, redirect and 405 pages (incl. the 404 page echoing the '
              'request path); the JSON body reads back (reference RFC 8259 reader) with the text verbatim; content type = first '
              'acceptable offer else text/plain; explicit shape of the plain-text page; every response in a history carries the '
              'content type of the form its body was rendered in; content_type= / charset= given to the constructor never '
              'show in the response; a custom json_formatter= is consulted in the JSON form only, receives the single-pass '
              'rendering of the body template, its members are dumped as an ASCII JSON object that reads back exactly, and a '
              'formatter that raises yields no response (never another rendering under the application/json label). '
              'The expressions by which the router, the static view and the append-slash Not Found view build their '
              'exceptions are regenerated and proved equal to a reference in which a request property sits behind fixed text and '
              'no body template is passed; a Content-Type written on the object before the call (subscriber, callback, tween) '
              'never reaches the client of a rendering class; the predicate-mismatch / secured-view / CSRF-origin messages built '
              'with the regenerated formats equal those built with the reference formats; an empty comment renders as no comment; '
              '%s formatting inserts an argument verbatim and never rescans it; the class exception_response picks for a status '
              'code has that code and is a public class of the table. '
              'End to end over the sites (Proofs/C19_e2e.v): a response is labelled text/html only when the HTML form was '
              'negotiated (specification, regenerated program, all raise and message sites, exception_response, constructor '
              'keywords); for the not-found raise sites, the message sites and exception_response of a default-template class the '
              'bytes of the HTML page are fixed text, the html-escaped request-derived text, fixed text; class names of the '
              'regenerated table are unique, so the class exception_response resolves a code to is the class the constructors run on. '
              'Tie to the code: the translator (control flow mechanical, leaves through a primitive table), '
              'regenerated literals/class table, shape pins only for untranslated helpers, and a differential run of the '
              'extracted regenerated program against the real exceptions, Router and static/secured/predicated views.')
LEVEL_NOTE = ('Outside the property by WebOb design (documented behaviour of webob.html_escape): a detail/comment/value '
              'object with an __html__ method is inserted as its __html__() result, unescaped -- such objects are markup '
              'supplied by the developer, not request-derived text, and are neither modelled nor generated. '
              'json_formatter= is modelled for a family of formatters (members from body/status/title/constants/environ, str '
              'values, KeyError as the only failure); Response keywords other than content_type=/charset=/location= are outside. '
              'Trusted: Coq kernel; the translator\'s primitive table; Python harness; '
              'string.Template/html.escape/json.dumps/UTF-8/WebOb modelled or taken as oracle and validated, not verified.')

_cache = {}


def _table(src=None):
    src = src or build.SRC
    if src not in _cache:
        probs = []
        mod = F.Module(src, 'pyramid/httpexceptions.py')
        classes = factsx.class_table(mod.tree, probs)
        from . import translate
        _, meta = translate.generate(src, probs)
        _cache[src] = {'classes': {e['name']: e for e in classes}, 'order': [e['name'] for e in classes],
                       'offers': meta.get('offers') or ['text/html', 'application/json'],
                       'accept_query': _accept_query(meta),
                       'formats': factsx.raiser_formats(src, probs)}
    return _cache[src]


def _accept_query(meta):
    """(key, default) of the environ.get(..) whose value prepare() negotiates on (read by the translator)"""
    import ast as _ast
    try:
        k, d = meta['env_get'][0]
        k, d = _ast.literal_eval(k), _ast.literal_eval(d)
        if isinstance(k, str) and isinstance(d, str):
            return [k, d]
    except Exception:
        pass
    return ['HTTP_ACCEPT', '']


def _accept_of(env):
    k, d = _table()['accept_query']
    return env.get(k, d)


def facts(src):
    problems = []
    summary = F.check_shapes(src, os.path.join(HERE, 'pins.json'), problems)
    coq, s2 = factsx.extract(src, problems)
    summary.update(s2)
    # every place in the package that builds an HTTP exception response must be tied (pinned / translated), also
    # outside the anchor files: a new or moved construction site is a broken tie
    from . import translate
    with open(os.path.join(HERE, 'pins.json')) as f:
        pins = json.load(f)
    sites = factsx.raise_sites(src, problems)
    for site in sites:
        rel, qual = site.split(':')
        parts = qual.split('.')
        prefixes = ['.'.join(parts[:i]) for i in range(1, len(parts) + 1)]
        if not (any(q in pins.get(rel, {}) for q in prefixes) or any('%s:%s' % (rel, q) in translate.TRANSLATED for q in prefixes)):
            problems.append('an HTTP exception is built in %s, which no pin or translation covers' % site)
    summary['exception_construction_sites'] = sites
    return {'coq': coq, 'summary': summary, 'problems': problems}


# ------------------------------------------------------------ generation
MARK = '<zq7>'
FRAGS = ['<script>alert(1)</script>', '<', '>', '&', '"', "'", '&amp;', '&#60;', '</title>', '-->', '<!--', MARK,
         '${detail}', '$$', '${br}', '$br', '$', '${', '${status}', '${body}', '$x', '${explanation}', '${html_comment}',
         '$comment', '${REQUEST_METHOD}', '${location}', '$1', '${}', '$ {br}', '}',
         'é', '€', '\U0001d11e', '￿', '\U0010ffff', 'K', 'ı', 'ſ', 'İ', '\x80', '\xff',
         '\x00', '\n', '\r', '\t', '\x7f', '\x1f', '\x08', '\x0c', '\\', '\\u0041', '/', ' ', 'a', 'b', 'Z', '0', '_',
         'hello', 'path/to', '%3C', ';', ',', ' ']
SURR = ['\ud800', '\udc00', '\udfff', '\ud83d']
ACCEPTS = [None, '', 'text/html', 'application/json', 'text/plain', '*/*', 'text/*', 'application/*',
           'text/html;q=0.5, application/json', 'application/json;q=0.9, text/html;q=0.8', 'text/html;q=0',
           'application/json, text/html', 'text/html, application/json', 'application/xml', 'garbage;;',
           'text/html; q=abc', '*/*;q=0.1, application/json;q=0.1', 'TEXT/HTML', 'application/json;q=0, */*',
           'text/html;level=1', 'text/html;q=0, application/json;q=0', 'text/plain, */*;q=0.01',
           'application/json;q=0.3, text/html;q=0.3', 'image/png, text/*;q=0.2', 'application/JSON', ',', 'text/html,',
           'text', '*', 'text/html;q=1.0, application/json;q=1.000', 'application/json;q=0.001',
           'text/html;q=0.0005, application/json;q=0.0004', '*/*;q=0', 'text/*;q=0, */*']


# long but perfectly valid Accept headers (real browsers / API clients send 100-300 characters): length must not matter
LONG_ACCEPTS = [
    'text/html,application/xhtml+xml,application/xml;q=0.9,image/avif,image/webp,image/apng,*/*;q=0.8,'
    'application/signed-exchange;v=b3;q=0.7,application/vnd.example.v1+json;q=0.6,text/plain;q=0.5',
    'application/json, application/vnd.api+json;q=0.9, application/problem+json;q=0.8, application/ld+json;q=0.7, '
    'application/hal+json;q=0.6, application/x-ndjson;q=0.5, text/plain;q=0.4, text/html;q=0.1',
    'application/json;q=0.9, text/html;q=1.0, ' + ', '.join('application/x-type-%02d;q=0.1' % i for i in range(8)),
    ', '.join('image/x-format-%02d' % i for i in range(9)) + ', application/json',
    ', '.join('image/x-format-%02d' % i for i in range(9)) + ', text/html;q=0.3, application/json;q=0.2',
    'text/plain' + ';q=1' + ', image/png' * 12 + ', application/json;q=0.5',
]


def gen_text(rng, maxn=6, surrogates=True):
    n = rng.choice([0, 1, 1, 2, 2, 3, 4, maxn])
    parts = []
    for _ in range(n):
        r = rng.random()
        if r < 0.75:
            parts.append(rng.choice(FRAGS))
        elif r < 0.97 or not surrogates:
            parts.append(chr(rng.choice([rng.randrange(0, 128), rng.randrange(128, 0x800), rng.randrange(0x800, 0xd800),
                                         rng.randrange(0xe000, 0x10000), rng.randrange(0x10000, 0x110000)])))
        else:
            parts.append(rng.choice(SURR))
    return ''.join(parts)


def gen_opt_text(rng, p_none=0.25, **kw):
    r = rng.random()
    if r < p_none:
        return None
    return gen_text(rng, **kw)


def gen_accept(rng):
    r = rng.random()
    if r < 0.06:
        a = rng.choice(LONG_ACCEPTS)
        if rng.random() < 0.3:      # padded further with harmless parameters-free types
            a += ''.join(', audio/x-pad-%03d;q=0.01' % i for i in range(rng.choice([3, 10, 40])))
        return a
    if r < 0.75:
        return rng.choice(ACCEPTS)
    n = rng.choice([1, 2, 2, 3])
    items = []
    for _ in range(n):
        t = rng.choice(['text/html', 'application/json', 'text/plain', '*/*', 'text/*', 'application/*', 'image/png',
                        'Text/Html', 'application/xml'])
        if rng.random() < 0.6:
            t += rng.choice([';q=', '; q=', ' ;q=']) + rng.choice(['0', '0.1', '0.5', '0.9', '1', '0.50', '0.000', '1.0', '0.33'])
        items.append(t)
    return rng.choice([', ', ',', ' , ']).join(items)


def gen_template(rng):
    keys = ['detail', 'br', 'explanation', 'comment', 'html_comment', 'REQUEST_METHOD', 'detail', 'x_foo', 'HTTP_X_EVIL',
            'SERVER_NAME', 'PATH_INFO', 'detail', 'br', 'REQUEST_METHOD', 'x_foo', 'HTTP_X_EVIL', 'evil', 'html_comment',
            'location', 'missing', 'status', 'body', 'Detail', 'k', 'wsgi', 'x_tra', 'Location']
    n = rng.choice([1, 2, 3, 4, 6])
    parts = []
    for _ in range(n):
        r = rng.random()
        if r < 0.55:
            k = rng.choice(keys if rng.random() < 0.95 else ['missing', 'nope'])
            parts.append(rng.choice(['${%s}', '$%s', '${%s}', '$%s ']) % k)
        elif r < 0.62:
            parts.append('$$')
        elif r < 0.67:
            parts.append(rng.choice(['$', '${', '${detail', '$1', '${1a}', '$ ', '${a-b}', '${dé}', '$é', '${detail }',
                                     '$ſ', '${K}', '$ı']))
        else:
            parts.append(rng.choice(['<p>', '</p>', ' ', '\n', 'text ', '<b>', '&', 'é', '\U0001d11e', 'a', '_', '9', '}', '{']))
    return ''.join(parts)


BASE_ENV = [['REQUEST_METHOD', 'GET'], ['SERVER_NAME', 'localhost'], ['SERVER_PORT', '80'], ['wsgi.url_scheme', 'http'],
            ['SCRIPT_NAME', ''], ['PATH_INFO', '/']]
COMMON = ['HTTPNotFound', 'HTTPForbidden', 'HTTPMethodNotAllowed', 'HTTPFound', 'HTTPBadRequest', 'HTTPException',
          'HTTPMovedPermanently', 'HTTPInternalServerError', 'HTTPNotAcceptable', 'HTTPNoContent', 'HTTPSeeOther',
          'HTTPUnauthorized', 'HTTPOk', 'HTTPImATeapot']


def gen_direct(rng):
    tb = _table()
    names = tb['order']
    cls = rng.choice([n for n in COMMON if n in tb['classes']] or names) if rng.random() < 0.6 else rng.choice(names)
    info = tb['classes'][cls]
    env = [list(kv) for kv in BASE_ENV]
    r = rng.random()
    if r < 0.25:
        env[0][1] = rng.choice(['POST', 'PUT', 'DELETE', 'PO<ST', '$br', '${detail}', '<b>M</b>', 'GÉT', '"', "'"])
    elif r < 0.3:
        env[0][1] = gen_text(rng, 3, surrogates=False) or 'GET'
    acc = gen_accept(rng)
    if acc is not None:
        env.append(['HTTP_ACCEPT', acc])
    for _ in range(rng.choice([0, 0, 1, 2, 3])):
        k = rng.choice(['HTTP_X_EVIL', 'HTTP_USER_AGENT', 'QUERY_STRING', 'br', 'detail', 'evil', 'my.key', 'wsgi.note',
                        'x.y.z', 'wsgi', 'html_comment', 'explanation', 'location', 'x_foo', 'k', 'CONTENT_TYPE', 'a.b'])
        if k not in [e[0] for e in env]:
            env.append([k, gen_text(rng, 3, surrogates=False)])
    if rng.random() < 0.3:
        rng.shuffle(env)
    headers = []
    for _ in range(rng.choice([0, 0, 0, 1, 2])):
        k = rng.choice(['X-Foo', 'X_Foo', 'x_foo', 'Detail', 'BR', 'Explanation', 'LOCATION', 'Location', 'K', 'X_tra',
                        'Html_Comment', 'Comment', 'evil', 'WWW-Authenticate'])
        headers.append([k, gen_text(rng, 3, surrogates=False)])
    loc = ''
    if info['move']:
        r = rng.random()
        if r < 0.5:
            loc = 'http://example.com/' + gen_text(rng, 3, surrogates=False)
        elif r < 0.9:
            loc = '/' + gen_text(rng, 3, surrogates=False)
        else:
            loc = gen_text(rng, 3, surrogates=False)
        loc = loc.replace('\n', '').replace('\r', '')
    tmpl = gen_template(rng) if rng.random() < 0.15 else None
    if tmpl is not None and rng.random() < 0.85:
        # make most referenced names available (environ keys and lower-cased header names)
        have = [e[0] for e in env]
        for k in ('HTTP_X_EVIL', 'evil', 'k', 'wsgi'):
            if k in tmpl and k not in have and rng.random() < 0.9:
                env.append([k, gen_text(rng, 3, surrogates=False)])
        for k, h in (('x_foo', 'X_Foo'), ('x_tra', 'X_tra'), ('location', 'Location')):
            if k in tmpl and not info['move'] and rng.random() < 0.9:
                headers.append([h, gen_text(rng, 3, surrogates=False)])
    case = {'via': 'direct', 'cls': cls, 'detail': gen_opt_text(rng), 'comment': gen_opt_text(rng, 0.45),
            'explanation': gen_opt_text(rng, 0.8), 'location': loc, 'headers': headers, 'environ': env,
            'body_template': tmpl, 'formatter': None, 'ctype_kw': None, 'charset_kw': None}
    r = rng.random()
    if r < 0.14:
        gen_formatter(rng, case)
    if rng.random() < 0.1 and _factory_ok(cls):
        case['factory'] = True      # built by exception_response(code, **kw): the class comes from status_map
    if rng.random() < 0.14:
        if rng.random() < 0.85:
            case['ctype_kw'] = rng.choice(KW_TYPES)
        if rng.random() < 0.35:
            case['charset_kw'] = rng.choice(KW_CHARSETS)
    return case


KW_TYPES = ['text/html', 'application/json', 'text/plain', 'application/problem+json', 'application/xml', 'image/svg+xml',
            'image/png', 'text/xml', 'application/octet-stream', '', 'text/html', 'application/json', 'text/plain']
KW_CHARSETS = ['UTF-8', 'latin-1', 'ascii', '', 'utf-16']
FMT_KEYS = ['message', 'code', 'title', 'request_id', 'detail', 'x', 'message', 'é"<k>']
FMT_ENV = ['HTTP_X_REQUEST_ID', 'HTTP_X_EVIL', 'REQUEST_METHOD', 'CUSTOM_VARIABLE', 'missing', 'PATH_INFO', 'my.key']


def _factory_ok(cls):
    """exception_response(code) may hand back another class with the same code (HTTPClientError -> HTTPBadRequest):
    usable when every class with that code takes the same constructor arguments (location= or not) and the code is truthy"""
    tb = _table()['classes']
    code = tb[cls]['code']
    return bool(code) and len({e['move'] for e in tb.values() if e['code'] == code}) == 1


def gen_formatter(rng, case):
    """json_formatter= (documented hook): a formatter of the modelled family -- members assigned in order, values
    from body / status / title / a constant / environ[K] (KeyError when absent) / environ.get(K, D)"""
    members = []
    for _ in range(rng.choice([1, 2, 3, 3, 4])):
        k = rng.choice(FMT_KEYS)
        t = rng.choice([0, 0, 1, 2, 3, 4, 4, 5])
        if t <= 2:
            src = [t]
        elif t == 3:
            src = [3, gen_text(rng, 3, surrogates=False)]
        elif t == 4:
            src = [4, rng.choice(FMT_ENV)]
        else:
            src = [5, rng.choice(FMT_ENV), gen_text(rng, 2, surrogates=False)]
        members.append([k, src])
    case['formatter'] = members
    have = [kv[0] for kv in case['environ']]
    for k, src in members:
        if src[0] in (4, 5) and src[1] not in have and rng.random() < 0.55:
            case['environ'].append([src[1], gen_text(rng, 3, surrogates=False)])
            have.append(src[1])
    if rng.random() < 0.6:
        case['environ'] = [kv for kv in case['environ'] if kv[0] != 'HTTP_ACCEPT'] + [
            ['HTTP_ACCEPT', rng.choice(['application/json', 'application/json, text/html;q=0.5', 'application/*'])]]


def gen_router(rng):
    n = rng.choice([0, 1, 1, 2, 3])
    segs = [gen_text(rng, 3, surrogates=False) for _ in range(n)]
    path = '/' + '/'.join(segs) if (n or rng.random() < 0.8) else ''
    if rng.random() < 0.1:
        path = gen_text(rng, 3, surrogates=False)
    return {'via': 'router', 'path': path, 'accept': gen_accept(rng)}


def gen_history(rng):
    """one exception object called 2-3 times with different Accept headers / environs"""
    c = gen_direct(rng)
    n = rng.choice([2, 2, 3])
    calls = [c.pop('environ')]
    forms = ['text/html', 'application/json', 'text/plain', None, '*/*']
    for _ in range(n - 1):
        env = [list(kv) for kv in calls[0] if kv[0] != 'HTTP_ACCEPT']
        acc = rng.choice(forms) if rng.random() < 0.7 else gen_accept(rng)
        if acc is not None:
            env.append(['HTTP_ACCEPT', acc])
        r = rng.random()
        if r < 0.3:
            for kv in env:
                if kv[0] not in ('SERVER_NAME', 'SERVER_PORT', 'wsgi.url_scheme', 'HTTP_ACCEPT', 'SCRIPT_NAME', 'PATH_INFO') \
                        and rng.random() < 0.5:
                    kv[1] = gen_text(rng, 2, surrogates=False) or ('GET' if kv[0] == 'REQUEST_METHOD' else '')
                    if kv[0] == 'REQUEST_METHOD' and kv[1] == 'HEAD':
                        kv[1] = 'GET'
        elif r < 0.45:
            for k in ('HTTP_X_EVIL', 'x_foo', 'evil', 'missing'):
                if k not in [e[0] for e in env] and rng.random() < 0.5:
                    env.append([k, gen_text(rng, 2, surrogates=False)])
        calls.append(env)
    if rng.random() < 0.5:
        # make the first call's form differ from a later one more often
        a0 = rng.choice(['text/plain', 'application/json', 'text/html'])
        calls[0] = [kv for kv in calls[0] if kv[0] != 'HTTP_ACCEPT'] + [['HTTP_ACCEPT', a0]]
    if c.get('formatter') and rng.random() < 0.6:
        # a formatter that fails on the first call (request without the key), a later call that carries it
        ks = [src[1] for _, src in c['formatter'] if src[0] == 4 and src[1] not in [kv[0] for kv in BASE_ENV]]
        if ks:
            calls[0] = [kv for kv in calls[0] if kv[0] not in ks]
            k = rng.randrange(1, len(calls))
            for key in ks:
                if key not in [kv[0] for kv in calls[k]]:
                    calls[k] = calls[k] + [[key, gen_text(rng, 2, surrogates=False)]]
            calls = [[kv for kv in e if kv[0] != 'HTTP_ACCEPT'] + [['HTTP_ACCEPT', 'application/json']]
                     if rng.random() < 0.7 else e for e in calls]
    if rng.random() < 0.12:
        # a first call that fails (placeholder not yet in the environ), a later one that supplies it
        c['body_template'] = rng.choice(['${detail} ${HTTP_X_EVIL}', '$HTTP_X_EVIL<p>${detail}</p>${br}'])
        calls[0] = [kv for kv in calls[0] if kv[0] != 'HTTP_X_EVIL']
        k = rng.randrange(1, len(calls))
        if 'HTTP_X_EVIL' not in [kv[0] for kv in calls[k]]:
            calls[k] = calls[k] + [['HTTP_X_EVIL', gen_text(rng, 2, surrogates=False)]]
    c['via'] = 'history'
    c['calls'] = calls
    c['factory'] = None        # histories construct the class directly
    return c


OBJ_FIELDS = ('cls', 'detail', 'comment', 'explanation', 'location', 'headers', 'body_template')
EXT_FIELDS = ('formatter', 'ctype_kw', 'charset_kw', 'factory')


def _as_direct(case, k):
    d = {f: case[f] for f in OBJ_FIELDS}
    for f in EXT_FIELDS:
        d[f] = case.get(f)
    d['via'] = 'direct'
    d['environ'] = case['calls'][k]
    return d


def sweep_case(start, n, accept, cls='HTTPNotFound', skip_surrogates=False):
    cps = [c for c in range(start, min(start + n, 0x110000)) if not (skip_surrogates and 0xd800 <= c < 0xe000)]
    env = [list(kv) for kv in BASE_ENV] + [['HTTP_ACCEPT', accept]]
    return {'via': 'direct', 'cls': cls, 'detail': ''.join(map(chr, cps)), 'comment': None, 'explanation': None,
            'location': '', 'headers': [], 'environ': env, 'body_template': None,
            'formatter': None, 'ctype_kw': None, 'charset_kw': None}


def generate(rng, tier, n):
    produced = 0
    if tier == 'thorough':
        # every code point through html_escape (HTML page) and json.dumps (JSON page); plain without surrogates
        for start in range(0, 0x110000, 1024):
            yield sweep_case(start, 1024, 'text/html')
            yield sweep_case(start, 1024, 'application/json')
            yield sweep_case(start, 1024, 'text/plain', skip_surrogates=True)
            produced += 3
    else:
        yield sweep_case(0, 512, 'text/html')
        yield sweep_case(0, 512, 'application/json')
        yield sweep_case(0xd700, 0x300, 'text/html')
        yield sweep_case(0xd700, 0x300, 'application/json')
        yield sweep_case(0xff00, 0x200, 'application/json')
        yield sweep_case(0x10fe00, 0x200, 'text/html')
        produced += 6
        for _ in range(max(1, n // 40)):
            start = rng.randrange(0, 0x110000 - 256)
            yield sweep_case(start, 256, rng.choice(['text/html', 'application/json', 'text/html']))
            produced += 1
    while produced < n:
        r = rng.random()
        yield (gen_router(rng) if r < 0.15 else apps.gen_case(rng, gen_text, gen_accept) if r < 0.3
               else gen_history(rng) if r < 0.45 else gen_direct(rng))
        produced += 1


def _is_opt_str(x):
    return x is None or isinstance(x, str)


def valid(case):
    try:
        if case.get('via') == 'history':
            return (not case.get('factory') and isinstance(case.get('calls'), list) and 1 <= len(case['calls']) <= 4
                    and set(case) - set(EXT_FIELDS) == {'via', 'cls', 'detail', 'comment', 'explanation', 'location',
                                                        'headers', 'body_template', 'calls'}
                    and all(valid(_as_direct(case, k)) for k in range(len(case['calls']))))
        if case.get('via') == 'app':
            return apps.valid(case)
        if case.get('via') == 'router':
            if not (isinstance(case['path'], str) and _is_opt_str(case['accept'])):
                return False
            case['path'].encode('utf-8')
            return set(case) == {'via', 'path', 'accept'}
        if case.get('via') != 'direct' or case['cls'] not in _table()['classes']:
            return False
        if not (_is_opt_str(case['detail']) and _is_opt_str(case['comment']) and _is_opt_str(case['explanation'])
                and _is_opt_str(case['body_template']) and isinstance(case['location'], str)):
            return False
        if '\n' in case['location'] or '\r' in case['location']:
            return False
        keys = [kv[0] for kv in case['environ']]
        if len(set(keys)) != len(keys):
            return False
        env = dict(map(tuple, case['environ']))
        for k, v in BASE_ENV:
            if k not in env:
                return False
        if env['REQUEST_METHOD'] == 'HEAD' or env['wsgi.url_scheme'] not in ('http', 'https'):
            return False
        if any(ord(c) > 255 for c in env['SCRIPT_NAME'] + env['PATH_INFO']):
            return False      # WSGI strings are latin-1 (WebOb builds the absolute Location from them)
        if not env['SERVER_PORT'].isdigit() or not env['SERVER_NAME'].isascii() or not env['SERVER_NAME']:
            return False
        for kv in case['environ'] + case['headers']:
            if len(kv) != 2 or not isinstance(kv[0], str) or not isinstance(kv[1], str):
                return False
        for k, v in case['headers']:
            if not k or not k.isascii() or k.lower() in ('content-type', 'content-length'):
                return False
        if set(case) - set(EXT_FIELDS) != {'via', 'cls', 'detail', 'comment', 'explanation', 'location', 'headers',
                                           'environ', 'body_template'}:
            return False
        return _valid_ext(case)
    except Exception:
        return False


def _token(t):
    return isinstance(t, str) and t.isascii() and all(33 <= ord(c) < 127 and c not in ';,' for c in t)


def _valid_ext(case):
    f = case.get('formatter')
    if f is not None:
        if not isinstance(f, list) or len(f) > 6:
            return False
        for m in f:
            if not (isinstance(m, list) and len(m) == 2 and isinstance(m[0], str) and isinstance(m[1], list) and m[1]):
                return False
            src = m[1]
            if src[0] not in (0, 1, 2, 3, 4, 5) or len(src) != {0: 1, 1: 1, 2: 1, 3: 2, 4: 2, 5: 3}[src[0]]:
                return False
            if not all(isinstance(a, str) for a in src[1:]):
                return False
    if case.get('factory') not in (None, True) or (case.get('factory') and not _factory_ok(case['cls'])):
        return False
    ck, cs = case.get('ctype_kw'), case.get('charset_kw')
    if ck is not None and not (ck == '' or (_token(ck) and '/' in ck and 'charset=' not in ck)):
        return False
    if cs is not None and not (cs == '' or _token(cs)):
        return False
    return True


def _ext_wire(case):
    f = case.get('formatter')
    return [None if f is None else [[[k, list(src)] for k, src in f]], _opt(case.get('ctype_kw')), _opt(case.get('charset_kw'))]


# ------------------------------------------------------------ oracle + wire
def oracle_offers(accept_value):
    from webob.acceptparse import create_accept_header
    acc = create_accept_header(accept_value)
    return [o[0] for o in acc.acceptable_offers(list(_table()['offers']))]


def _opt(x):
    return None if x is None else [x]


def oracle_path_info(path):
    from webob import Request
    env = dict(map(tuple, BASE_ENV))
    env['PATH_INFO'] = path.encode('utf-8').decode('latin-1')
    return Request(env).path_info


def to_wire(case):
    if case['via'] == 'history':
        steps = []
        for env in case['calls']:
            steps.append([[list(kv) for kv in env], oracle_offers(_accept_of(dict(map(tuple, env))))])
        return [case['cls'], _opt(case['detail']), _opt(case['comment']), _opt(case['explanation']), case['location'],
                [list(kv) for kv in case['headers']], _opt(case['body_template']), steps, _ext_wire(case)]
    if case['via'] in ('app', 'router') and _site_of(case) is not None:
        # the raise site's argument expressions are REGENERATED (translate.SITES): Coq computes class / detail /
        # location from the WebOb request properties (oracle) through gen_site_* (model) and site_* (specification)
        site, env = _site_of(case)
        from webob import Request
        req = Request(dict(map(tuple, env)))
        acc = case['accept']
        menv = apps.environ_of(case) if case['via'] == 'app' else []
        return [site, [req.url, req.path, req.path_info, req.path_url, req.query_string], menv,
                oracle_offers('' if acc is None else acc)]
    if case['via'] == 'app' and case['kind'] in MSITE_OF_KIND:
        # message sites: Coq builds the detail from the configuration data / header with the formats REGENERATED from the
        # source (msite_gen: model) and with the reference formats (msite_ref: specification)
        k = case['kind']
        name = case['path'][1:]
        args = ([name] if k == 'pm-multi' else [dict(apps.PS_NAMES)[name], 'request_param c19zz'] if k == 'pm-single'
                else [dict(apps.FB_NAMES)[name]] if k == 'forbidden' else [case['origin'].split(' ')[-1]])
        acc = case['accept']
        return [MSITE_OF_KIND[k], args, apps.environ_of(case), oracle_offers('' if acc is None else acc), 0]
    if case['via'] == 'app':
        ex = apps.expected(case, _table()['formats'])
        cls, detail, loc = ex[:3]
        acc = case['accept']
        return [cls, _opt(detail), None, _opt(ex[3] if len(ex) > 3 else None), loc, [], apps.environ_of(case), None,
                oracle_offers('' if acc is None else acc), [None, None, None]]
    if case['via'] == 'router':
        acc = case['accept']
        return ['HTTPNotFound', [oracle_path_info(case['path'])], None, None, '', [], [], None,
                oracle_offers('' if acc is None else acc), [None, None, None]]
    env = dict(map(tuple, case['environ']))
    if case.get('factory'):
        return [str(_table()['classes'][case['cls']]['code']), _opt(case['detail']), _opt(case['comment']),
                _opt(case['explanation']), case['location'], [list(kv) for kv in case['headers']],
                [list(kv) for kv in case['environ']], _opt(case['body_template']), oracle_offers(_accept_of(env)),
                _ext_wire(case), 1]
    return [case['cls'], _opt(case['detail']), _opt(case['comment']), _opt(case['explanation']), case['location'],
            [list(kv) for kv in case['headers']], [list(kv) for kv in case['environ']], _opt(case['body_template']),
            oracle_offers(_accept_of(env)), _ext_wire(case)]


SITE_OF_KIND = {'static-missing': 'static_missing', 'static-oob': 'static_oob', 'static-slash': 'static_slash',
                'slash-redirect': 'append_slash', 'slash-miss': 'router', 'sub-notfound': 'router'}


MSITE_OF_KIND = {'pm-multi': 'pm_multi', 'pm-single': 'pm_single', 'forbidden': 'forbidden', 'csrf-origin': 'csrf_origin'}


def _site_of(case):
    """-> (site name, environ of the request the site reads) or None (raisers whose message is built from configuration
    data: predicate mismatch, secured view, CSRF origin -- expected value computed by apps.expected)"""
    if case['via'] == 'router':
        env = [list(kv) for kv in BASE_ENV]
        env[5][1] = case['path'].encode('utf-8').decode('latin-1')
        return 'router', env
    site = SITE_OF_KIND.get(case['kind'])
    if site is None:
        return None
    env = apps.environ_of(case)
    if case['kind'] == 'sub-notfound':
        d = dict(map(tuple, env))
        env = [['REQUEST_METHOD', 'GET'], ['SERVER_NAME', 'localhost'], ['SERVER_PORT', '80'], ['wsgi.url_scheme', 'http'],
               ['SCRIPT_NAME', ''], ['PATH_INFO', '/nf' + d['PATH_INFO'][len('/sub'):]]]
    return site, env


def _dec(o):
    if not isinstance(o, list) or not o:
        return ['MODEL-BAD', o]
    if o[0] == 1 and len(o) == 5:
        return ['OK', o[1], o[2], o[3], o[4]]
    if o[0] == 0 and len(o) == 2:
        return ['EXC', o[1]]
    return ['MODEL-BAD', o]


def from_wire(case, raw):
    if not isinstance(raw, list) or len(raw) != 3:
        return {'model': ['MODEL-BAD', raw], 'spec': None}
    if case['via'] == 'history':
        if not isinstance(raw[0], list) or not isinstance(raw[1], list):
            return {'model': ['MODEL-BAD', raw], 'spec': None}
        return {'model': ['HIST', [_dec(o) for o in raw[0]]], 'spec': ['HIST', [_dec(o) for o in raw[1]], raw[2]]}
    return {'model': _dec(raw[0]), 'spec': [_dec(raw[1]), raw[2]]}


# ------------------------------------------------------------ implementation
_impl = {}


def setup(tier):
    import pyramid.httpexceptions as H
    from pyramid.config import Configurator
    _impl['H'] = H
    cfg = Configurator()
    cfg.commit()
    _impl['app'] = cfg.make_wsgi_app()
    _impl['app2'] = apps.build_app()
    _impl['app3'] = apps.build_app3()


def _collect(app, environ):
    seen = []

    def start_response(status, headers, exc_info=None):
        seen.append((status, list(headers)))

    try:
        it = app(environ, start_response)
        body = b''.join(it)
    except Exception as e:
        n = type(e).__name__
        return ['EXC', n if n in ('KeyError', 'ValueError', 'UnicodeEncodeError', 'URLDecodeError', 'TypeError',
                                  'AttributeError', 'UnicodeDecodeError') else 'Other:' + n]
    if len(seen) != 1:
        return ['EXC', 'start_response called %d times' % len(seen)]
    status, headers = seen[0]
    cts = [v for k, v in headers if k.lower() == 'content-type']
    if len(cts) > 1:
        return ['EXC', 'several content types']
    ctype, charset = '', ''
    if cts:
        parts = [p.strip() for p in cts[0].split(';')]
        ctype = parts[0]
        for p in parts[1:]:
            if p.lower().startswith('charset='):
                charset = p[8:]
            else:
                ctype += ';' + p
    return ['OK', status, ctype, charset, body.decode('latin-1')]


def run_impl(case):
    if not _impl:
        setup('quick')
    if case['via'] == 'app':
        return _collect(_impl['app3' if apps.is_app3(case) else 'app2'], dict(map(tuple, apps.environ_of(case))))
    if case['via'] == 'router':
        env = dict(map(tuple, BASE_ENV))
        env['PATH_INFO'] = case['path'].encode('utf-8').decode('latin-1')
        env['SERVER_PROTOCOL'] = 'HTTP/1.1'
        if case['accept'] is not None:
            env['HTTP_ACCEPT'] = case['accept']
        return _collect(_impl['app'], env)
    if case['via'] == 'history':
        exc = _construct(_as_direct(case, 0))
        if isinstance(exc, list):
            return ['HIST', [exc]]
        return ['HIST', [_collect(exc, dict(map(tuple, env))) for env in case['calls']]]
    exc = _construct(case)
    if isinstance(exc, list):
        return exc
    return _collect(exc, dict(map(tuple, case['environ'])))


def make_formatter(members):
    def formatter(status, body, title, environ):
        d = {}
        for k, src in members:
            t = src[0]
            d[k] = (body if t == 0 else status if t == 1 else title if t == 2 else src[1] if t == 3
                    else environ[src[1]] if t == 4 else environ.get(src[1], src[2]))
        return d
    return formatter


def _construct(case):
    H = _impl['H']
    cls = getattr(H, case['cls'])
    kw = {}
    if case['body_template'] is not None:
        kw['body_template'] = case['body_template']
    if _table()['classes'][case['cls']]['move']:
        kw['location'] = case['location']
    if case.get('formatter') is not None:
        kw['json_formatter'] = make_formatter(case['formatter'])
    if case.get('ctype_kw') is not None:
        kw['content_type'] = case['ctype_kw']
    if case.get('charset_kw') is not None:
        kw['charset'] = case['charset_kw'] or None
    try:
        if case.get('factory'):
            exc = H.exception_response(_table()['classes'][case['cls']]['code'], detail=case['detail'],
                                       headers=[tuple(kv) for kv in case['headers']] or None, comment=case['comment'], **kw)
        else:
            exc = cls(detail=case['detail'], headers=[tuple(kv) for kv in case['headers']] or None,
                      comment=case['comment'], **kw)
        if case['explanation'] is not None:
            exc.explanation = case['explanation']
    except Exception as e:
        return ['EXC', 'ctor:' + type(e).__name__]
    return exc


# ------------------------------------------------------------ judging
def _supplied(case):
    if case['via'] == 'history':
        out = []
        for k in range(len(case['calls'])):
            out += _supplied(_as_direct(case, k))
        return out
    if case['via'] == 'app':
        return [t for t in (case['path'], case['query'], case['script'], case.get('origin')) if t]
    if case['via'] == 'router':
        return [case['path']]
    out = [case['detail'], case['comment'], case['explanation'], case['location']]
    out += [v for k, v in case['headers']] + [v for k, v in case['environ'] if k not in ('HTTP_ACCEPT',)]
    return [t for t in out if t]


def spec_holds(case, obs, spec):
    """(a response produced where the specification has an error must still not be labelled application/json
    over a body that is not JSON.)  obs must equal the Coq specification's rendering (content type of the best acceptable form, every
    supplied text through html_escape in the HTML form, verbatim in JSON/plain, single-pass substitution);
    plus checks made here with the libraries themselves (json.loads; a marker tag never survives in HTML)."""
    if spec is None:
        return None
    if case['via'] == 'history':
        return _history_holds(case, obs, spec)
    want, want_type = spec
    if want[0] != 'OK':
        # unknown placeholder / malformed custom template / unencodable text / failing formatter: no response is
        # promised -- but a response that is produced all the same must not carry a label its body does not match
        if obs[0] == 'OK' and _mislabelled(obs):
            return False
        return None
    if obs[0] != 'OK':
        return False
    if obs != want:
        return False
    status, ctype, charset, body = obs[1:]
    if ctype == '' and body == '':
        return True          # empty_body classes
    if ctype != want_type:
        return False
    if ctype == 'text/html':
        if case['via'] in ('router', 'app') or case.get('body_template') is None:
            if '<zq7' in body:
                return False
    elif ctype == 'application/json':
        try:
            j = json.loads(body.encode('latin-1').decode('utf-8'))
        except ValueError:
            return False
        if not isinstance(j, dict):
            return False
        if case.get('formatter') is not None:
            return True      # the members are the formatter's: compared with the Coq rendering above
        if sorted(j) != ['code', 'message', 'title'] or j['code'] != status:
            return False
        if case['via'] == 'app':
            d = apps.expected(case, _table()['formats'])[1]
        else:
            d = case['path'] if case['via'] == 'router' else case['detail']
        plain_default = case['via'] in ('router', 'app') or (case['body_template'] is None
                                                    and not any(k.lower() == 'detail' for k, v in case['headers'])
                                                    and not any(k == 'detail' for k, v in case['environ']))
        if d and plain_default and not any(0xd800 <= ord(c) < 0xe000 for c in d) and d not in j['message']:
            return False
    return True


def _mislabelled(obs):
    """an observed response whose Content-Type says JSON while the body is not a JSON document"""
    if obs[2] == 'application/json':
        try:
            json.loads(obs[4].encode('latin-1').decode('utf-8'))
        except ValueError:
            return True
    return False


def _history_holds(case, obs, spec):
    """history_ok of coq/Model/C19.v evaluated on the OBSERVED responses: every rendered response equals -- status,
    content type, charset, body together -- the single-call specification of one of the calls made so far; a call
    may fail only if its own single-call rendering is an error.  Each rendered response additionally passes the
    single-response checks (marker tag, json.loads) under the call it matches."""
    if obs[0] != 'HIST' or spec[0] != 'HIST' or spec[2] != 1:
        return False
    rs, singles = obs[1], spec[1]
    if len(rs) != len(singles):
        return False
    constrained = False
    for k, r in enumerate(rs):
        if r[0] == 'OK':
            js = [j for j in range(k + 1) if singles[j] == r]
            if not js:
                return False
            constrained = True
            d = _as_direct(case, js[0])
            env = dict(map(tuple, d['environ']))
            offers = oracle_offers(_accept_of(env))
            if spec_holds(d, r, [singles[js[0]], offers[0] if offers else 'text/plain']) is False:
                return False
        elif singles[k][0] == 'OK':
            return False
    return True if constrained else None


def classify(case, obs, spec):
    return None


SPECIAL = set('<>&"\'$\\') | {'\n', '\r', '\t'}


def _interesting(t):
    return any(c in SPECIAL or ord(c) > 126 or ord(c) < 32 for c in t)


def nontrivial(case, obs):
    if case['via'] == 'history':
        return obs[0] == 'HIST' and any(r[0] == 'OK' and r[4] != '' for r in obs[1]) and \
            any(_interesting(t) for t in _supplied(case))
    texts = _supplied(case)
    if case['via'] == 'app':
        texts = texts + [apps.expected(case, _table()['formats'])[1] or '']
    return obs[0] == 'OK' and obs[4] != '' and any(_interesting(t) for t in texts)


def kinds(case, obs):
    if case['via'] == 'history':
        k = ['via-history', 'calls-%d' % len(case['calls'])]
        rs = obs[1] if obs[0] == 'HIST' else []
        forms = [r[2] if r[0] == 'OK' else 'exc' for r in rs]
        k.append('hist-first-' + (forms[0] if forms else 'none'))
        accs = [dict(map(tuple, e)).get('HTTP_ACCEPT') for e in case['calls']]
        offs = [(oracle_offers(a or '') or ['text/plain'])[0] for a in accs]
        if len(set(offs)) > 1:
            k.append('hist-forms-differ')
        if 'exc' in forms and any(f != 'exc' for f in forms):
            k.append('hist-error-then-render' if forms.index('exc') < max(i for i, f in enumerate(forms) if f != 'exc')
                     else 'hist-render-then-error')
        if all(f == 'exc' for f in forms) and forms:
            k.append('hist-all-errors')
        j = ''.join(_supplied(case))
        if any(c in j for c in '<>&"\''):
            k.append('has-markup')
        if '$' in j:
            k.append('has-dollar')
        k += _ext_kinds(case, forms)
        return k
    k = ['via-' + case['via']]
    if obs[0] == 'OK':
        k.append('type-' + (obs[2] or 'none'))
    else:
        k.append('exc-' + str(obs[1]))
    if case['via'] == 'app':
        acc = case['accept']
        k.append('app-' + case['kind'])
        if case.get('relabel'):
            k.append('app-relabel-callback' if case.get('relabel_cb') else 'app-relabel-subscriber')
            if obs[0] == 'OK' and obs[2] != case['relabel']:
                k.append('app-relabel-differs-from-negotiated')
        texts = _supplied(case) + [apps.expected(case, _table()['formats'])[1] or '']
    elif case['via'] == 'router':
        acc = case['accept']
        texts = [case['path']]
    else:
        env = dict(map(tuple, case['environ']))
        acc = env.get('HTTP_ACCEPT')
        info = _table()['classes'].get(case['cls'], {})
        k.append('tmpl-' + ('custom' if case['body_template'] is not None else
                            'class' if info.get('tmpl_owner') != 'HTTPException' else 'default'))
        if len(case['detail'] or '') >= 200:
            k.append('sweep')
        if info.get('empty'):
            k.append('empty-body-class')
        k.append('detail-' + ('none' if case['detail'] is None else 'empty' if case['detail'] == '' else 'text'))
        k.append('comment-' + ('yes' if case['comment'] else 'no'))
        if case['explanation'] is not None:
            k.append('explanation-override')
        if case['headers']:
            k.append('extra-headers')
        k += _ext_kinds(case, [obs[2] if obs[0] == 'OK' else 'exc'])
        texts = _supplied(case)
    if acc is not None and len(acc) > 128:
        k.append('accept-long')
    k.append('accept-' + ('absent' if acc is None else 'empty' if acc == '' else 'wild' if '*' in acc else
                          'q' if 'q=' in acc else 'plainlist'))
    j = ''.join(texts)
    if any(c in j for c in '<>&"\''):
        k.append('has-markup')
    if '$' in j:
        k.append('has-dollar')
    if any(ord(c) > 127 for c in j):
        k.append('has-nonascii')
    if any(ord(c) < 32 or ord(c) == 127 for c in j):
        k.append('has-control')
    if any(0xd800 <= ord(c) < 0xe000 for c in j):
        k.append('has-surrogate')
    return k


def _ext_kinds(case, forms):
    k = []
    if case.get('formatter') is not None:
        k.append('formatter-custom')
        if 'application/json' in forms:
            k.append('formatter-json-rendered')
        if 'exc' in forms and any(src[0] == 4 for _, src in case['formatter']):
            k.append('formatter-may-have-failed')
    ck = case.get('ctype_kw')
    if ck is not None:
        k.append('kw-content_type')
        if any(f not in ('exc', '', ck) for f in forms):
            k.append('kw-content_type-differs-from-negotiated')
    if case.get('charset_kw') is not None:
        k.append('kw-charset')
    if case.get('factory'):
        k.append('factory-exception_response')
        tb = _table()['classes']
        if len([e for e in tb.values() if e['code'] == tb[case['cls']]['code']]) > 1:
            k.append('factory-code-shared-by-several-classes')
    return k


def describe(case):
    if case['via'] == 'history':
        return case
    if case['via'] == 'direct' and len(case['detail'] or '') > 80:
        return dict(case, detail=case['detail'][:40] + '...(%d chars)' % len(case['detail']))
    return case


# ------------------------------------------------------------ shrinking
def _str_shrinks(t):
    n = len(t)
    if n == 0:
        return
    yield ''
    k = n // 2
    while k >= 1:
        for i in range(0, n, k):
            if 0 < len(t[:i] + t[i + k:]) < n:
                yield t[:i] + t[i + k:]
        if k == 1:
            break
        k //= 2
    for i, c in enumerate(t):
        if c not in '<$':
            yield t[:i] + '<' + t[i + 1:]
    for i, c in enumerate(t):
        if c not in 'a<$' and not c.isascii():
            yield t[:i] + 'a' + t[i + 1:]


def shrinks(case):
    if case.get('via') == 'history':
        n = len(case['calls'])
        if n > 2:
            for i in range(n):
                yield dict(case, calls=case['calls'][:i] + case['calls'][i + 1:])
        for k in range(n):
            for d in shrinks(_as_direct(case, k)):
                c2 = {f: d[f] for f in OBJ_FIELDS + EXT_FIELDS}
                c2['via'] = 'history'
                calls = list(case['calls'])
                calls[k] = d['environ']
                c2['calls'] = calls
                yield c2
        return
    if case.get('via') == 'app':
        if case['accept'] not in (None, 'text/html'):
            yield dict(case, accept='text/html')
        if case.get('relabel_cb'):
            yield {k: v for k, v in case.items() if k != 'relabel_cb'}
        if case.get('relabel'):
            yield {k: v for k, v in case.items() if k not in ('relabel', 'relabel_cb')}
        for f in ('query', 'script', 'path', 'origin'):
            for t in _str_shrinks(case.get(f) or ''):
                yield dict(case, **{f: t})
        return
    if case.get('via') == 'router':
        if case['accept'] not in (None, 'text/html'):
            yield dict(case, accept='text/html')
        for t in _str_shrinks(case['path']):
            yield dict(case, path=t)
        return
    for f in ('body_template', 'comment', 'explanation', 'detail') + EXT_FIELDS:
        if case.get(f) is not None:
            yield dict(case, **{f: None})
    if case.get('formatter'):
        fm = case['formatter']
        for i in range(len(fm)):
            yield dict(case, formatter=fm[:i] + fm[i + 1:])
        for i, (k, src) in enumerate(fm):
            if src[0] in (3, 5):
                for t in _str_shrinks(src[-1]):
                    yield dict(case, formatter=fm[:i] + [[k, src[:-1] + [t]]] + fm[i + 1:])
    if case['headers']:
        yield dict(case, headers=[])
        for i in range(len(case['headers'])):
            yield dict(case, headers=case['headers'][:i] + case['headers'][i + 1:])
    base_keys = [k for k, v in BASE_ENV]
    extra = [kv for kv in case['environ'] if kv[0] not in base_keys]
    for i, kv in enumerate(case['environ']):
        if kv[0] not in base_keys:
            yield dict(case, environ=case['environ'][:i] + case['environ'][i + 1:])
    if case['cls'] not in ('HTTPNotFound', 'HTTPFound', 'HTTPMethodNotAllowed'):
        info = _table()['classes'][case['cls']]
        yield dict(case, cls='HTTPFound' if info['move'] else 'HTTPNotFound')
    for f in ('detail', 'comment', 'explanation', 'location', 'body_template'):
        if case[f]:
            for t in _str_shrinks(case[f]):
                yield dict(case, **{f: t})
    for i, kv in enumerate(case['environ']):
        if kv[0] not in ('SERVER_NAME', 'SERVER_PORT', 'wsgi.url_scheme') and kv[1]:
            for t in _str_shrinks(kv[1]):
                if kv[0] == 'REQUEST_METHOD' and t in ('', 'HEAD'):
                    continue
                yield dict(case, environ=case['environ'][:i] + [[kv[0], t]] + case['environ'][i + 1:])
    for i, kv in enumerate(case['headers']):
        for t in _str_shrinks(kv[1]):
            yield dict(case, headers=case['headers'][:i] + [[kv[0], t]] + case['headers'][i + 1:])


NASTY = ['<script>alert(1)</script>', '${br}', '$$', '${detail}', '$', '"\'<>&', '€\U0001d11e', '\x00\n\x7f', MARK,
         '${html_comment}${explanation}', 'a<b', '--><b>', '$status ${body}']


def targeted(broken, disagreements, rng):
    tb = _table()
    out = []
    for cls in ['HTTPNotFound', 'HTTPForbidden', 'HTTPMethodNotAllowed', 'HTTPFound', 'HTTPException', 'HTTPBadRequest']:
        if cls not in tb['classes']:
            continue
        for acc in ['text/html', 'application/json', 'text/plain', None, '*/*']:
            for t in NASTY:
                env = [list(kv) for kv in BASE_ENV] + ([['HTTP_ACCEPT', acc]] if acc is not None else [])
                env[0][1] = t if cls == 'HTTPMethodNotAllowed' else 'GET'
                base = {'via': 'direct', 'cls': cls, 'detail': None, 'comment': None, 'explanation': None,
                        'location': '', 'headers': [], 'environ': env, 'body_template': None}
                out.append(dict(base, detail=t))
                out.append(dict(base, comment=t))
                out.append(dict(base, explanation=t))
                if tb['classes'][cls]['move']:
                    out.append(dict(base, location='http://example.com/' + t.replace('\n', '')))
                out.append(dict(base, body_template='${detail} ${x_foo} ${HTTP_X_EVIL}',
                                headers=[['X-Foo', t.replace('\n', '').replace('\x00', '').replace('\x7f', '')]],
                                environ=env + [['HTTP_X_EVIL', t]]))
    for acc in ['text/html', 'application/json', 'text/plain', None]:
        for t in NASTY:
            out.append({'via': 'router', 'path': '/' + t, 'accept': acc})
    for kind, path in ([('static-missing', '/static/zz<b>${br}'), ('static-oob', '/static/zz<b>\x00'),
                        ('static-slash', '/static/sub')] + [('pm-multi', '/' + n) for n in apps.PM_NAMES]
                       + [('pm-single', '/' + n) for n, _ in apps.PS_NAMES] + [('forbidden', '/' + n) for n, _ in apps.FB_NAMES]):
        for acc in ['text/html', 'application/json', 'text/plain']:
            for q in ['', 'x=<script>&y=${br}"\'']:
                out.append({'via': 'app', 'kind': kind, 'path': path, 'query': q, 'script': '', 'accept': acc})
    for acc in ['text/html', 'application/json', 'text/plain', None]:
        for rl, cb in [(None, None), ('text/html', None), ('text/html', True), ('application/json', None)]:
            for kind, path, q in [('slash-redirect', '/slash/a<b>$x', 'x=<script>&y=${br}"\'$$'), ('slash-redirect', '/fixed', '"><b>${detail}'),
                                  ('slash-redirect', '/fixed', ''), ('slash-miss', '/zz<b>${br}', ''),
                                  ('sub-notfound', '/sub/<script>${br}', ''), ('csrf-origin', '/csrf', '')]:
                c = {'via': 'app', 'kind': kind, 'path': path, 'query': q, 'script': '', 'accept': acc}
                if kind == 'csrf-origin':
                    c['origin'] = 'https://evil<script>${br}"'
                if rl:
                    c['relabel'] = rl
                if cb:
                    c['relabel_cb'] = True
                out.append(c)
    for cls in ['HTTPNotFound', 'HTTPFound', 'HTTPMethodNotAllowed']:
        for a1 in ['text/plain', 'application/json', 'text/html', None]:
            for a2 in ['text/html', 'application/json', 'text/plain']:
                for t in ['<script>alert(1)</script>', '${br}"\'&']:
                    envs = [[list(kv) for kv in BASE_ENV] + ([['HTTP_ACCEPT', a]] if a is not None else [])
                            for a in (a1, a2, a1)]
                    out.append({'via': 'history', 'cls': cls, 'detail': t, 'comment': t, 'explanation': None,
                                'location': 'http://example.com/' + t if tb['classes'][cls]['move'] else '',
                                'headers': [], 'body_template': None, 'calls': envs})
    for acc in LONG_ACCEPTS:
        env = [list(kv) for kv in BASE_ENV] + [['HTTP_ACCEPT', acc]]
        out.append({'via': 'direct', 'cls': 'HTTPNotFound', 'detail': '<script>alert(1)</script>', 'comment': None,
                    'explanation': None, 'location': '', 'headers': [], 'environ': env, 'body_template': None,
                    'formatter': None, 'ctype_kw': None, 'charset_kw': None})
        out.append({'via': 'router', 'path': '/<script>${br}', 'accept': acc})
        out.append({'via': 'app', 'kind': 'static-missing', 'path': '/static/zz<b>', 'query': '', 'script': '', 'accept': acc})
    for cls in ['HTTPNotFound', 'HTTPClientError', 'HTTPBadRequest', 'HTTPServerError', 'HTTPFound', 'HTTPForbidden']:
        if cls in tb['classes'] and _factory_ok(cls):
            for acc in ['text/html', 'application/json', None]:
                env = [list(kv) for kv in BASE_ENV] + ([['HTTP_ACCEPT', acc]] if acc is not None else [])
                out.append({'via': 'direct', 'cls': cls, 'detail': '<b>${br}"', 'comment': '<c>', 'explanation': None,
                            'location': 'http://example.com/<' if tb['classes'][cls]['move'] else '', 'headers': [],
                            'environ': env, 'body_template': None, 'formatter': None, 'ctype_kw': None, 'charset_kw': None,
                            'factory': True})
    # the constructor's other keywords: json_formatter= (succeeding / failing for this request), content_type=, charset=
    fmts = [[['message', [0]], ['code', [1]], ['title', [2]], ['request_id', [4, 'HTTP_X_REQUEST_ID']]],
            [['message', [0]], ['rid', [5, 'HTTP_X_REQUEST_ID', 'none']]],
            [['note', [3, '<b>"${br}']], ['message', [0]]]]
    for cls in ['HTTPNotFound', 'HTTPBadRequest', 'HTTPFound']:
        if cls not in tb['classes']:
            continue
        for acc in ['application/json', 'text/html', 'text/plain', None, '*/*', 'image/png']:
            env0 = [list(kv) for kv in BASE_ENV] + ([['HTTP_ACCEPT', acc]] if acc is not None else [])
            base = {'via': 'direct', 'cls': cls, 'detail': '<script>alert(1)</script> & "${detail}"', 'comment': None,
                    'explanation': None, 'location': 'http://example.com/' if tb['classes'][cls]['move'] else '',
                    'headers': [], 'environ': env0, 'body_template': None, 'formatter': None, 'ctype_kw': None,
                    'charset_kw': None}
            for fm in fmts:
                out.append(dict(base, formatter=fm))
                out.append(dict(base, formatter=fm, environ=env0 + [['HTTP_X_REQUEST_ID', 'abc-1<']]))
                h = {f: base[f] for f in OBJ_FIELDS}
                out.append(dict(h, via='history', formatter=fm, ctype_kw=None, charset_kw=None,
                                calls=[env0, env0 + [['HTTP_X_REQUEST_ID', 'abc-1<']], env0]))
            for ck in ['text/html', 'application/json', 'text/plain', 'application/problem+json', 'image/svg+xml']:
                for cs in [None, 'latin-1', '']:
                    out.append(dict(base, ctype_kw=ck, charset_kw=cs))
    for d in disagreements[:20]:
        out.append(d['case'])
    return [c for c in out if valid(c)]
